"""
Seeded generator of report trees and event streams, builder to REAL lemoncheesecake objects, and the
canonical form shared with the Lean drivers (`lean/LccModel/ProtoReport.lean`).

A *description* ("desc") is a JSON-able dict:

  report : {title, info:[[k,v]], nb_threads, start, end, saving, setup, teardown, suites:[suite]}
  suite  : {md, start, end, setup, teardown, tests:[test], suites:[suite]}          (insertion order)
  test   : {md, res}
  md     : {name, desc, tags:[s], props:[[k,v]], links:[[url, name|None]], rank}
  res    : {steps:[step], start, end, status: passed|failed|skipped|disabled|None, details}
  step   : {desc, start, end, entries:[entry]}
  entry  : {k:log, level, msg, t} | {k:check, desc, ok, details, t} | {k:att, desc, file, img, t} | {k:url, desc, url, t}

Times are integers of milliseconds (or None); the real objects get `ms / 1000.0`.  Strings are Python
`str` (lone surrogates allowed).  `wire()` turns every string into a list of code points for the Lean
side, a lone surrogate U+D800+k travelling as U+10F800+k (Lean strings hold scalar values only; the
generator never produces genuine characters of U+10F800..U+10FFFF).  `canon_report()` maps a real
`Report` object graph back to a desc (children in `_suites` / `_tests` insertion order, `rank` read from
the objects, times rounded to ms) — it is the abstraction function of the models M4 / M10.
"""
import copy

T0 = 1_600_000_000_000  # ms

SURR_LO, SURR_HI = 0xD800, 0xDFFF
CARRIER = 0x10F800

STATUSES = ["passed", "failed", "skipped", "disabled"]
LEVELS = ["debug", "info", "warn", "error"]

# ------------------------------------------------------------------------------------------------
# strings
# ------------------------------------------------------------------------------------------------

WORDS = ["alpha", "beta", "gamma", "delta", "omega", "foo", "bar", "baz", "x", "value", "step one", "check that"]

STRING_CLASSES = [
    "plain", "empty", "blanks", "lead-trail-blanks", "lf", "cr", "crlf", "markup", "non-ascii", "astral",
    "c0", "c1", "fffe", "surrogate", "long", "tab", "quote",
]
# classes for which XML text positions are NOT preserved / loadable (D8)
XML_HOSTILE = {"empty", "cr", "crlf", "c0", "fffe", "surrogate"}


def gen_string(rng, cls):
    w = rng.choice(WORDS)
    if cls == "plain":
        return w
    if cls == "empty":
        return ""
    if cls == "blanks":
        return rng.choice([" ", "   ", "\t", " \n ", "\n"])
    if cls == "lead-trail-blanks":
        return rng.choice(["  ", " ", "\n", "\t"]) + w + rng.choice(["  ", " ", "\n"])
    if cls == "lf":
        return w + "\n" + rng.choice(WORDS) + rng.choice(["", "\n"])
    if cls == "cr":
        return rng.choice([w + "\r" + rng.choice(WORDS), "\r", w + "\r", "\r" + w, "a\r\rb"])
    if cls == "crlf":
        return rng.choice([w + "\r\n" + rng.choice(WORDS), "\r\n", w + "\r\n", "a\r\n\r\nb", "a\n\rb"])
    if cls == "markup":
        return rng.choice(["<", ">", "&", "<a>", "</log>", "&amp;", "&#13;", "]]>", "<![CDATA[x]]>", "<!-- c -->", "a<b&c>d", "<?pi?>"])
    if cls == "quote":
        return rng.choice(['"', "'", 'a"b', "it's", '"\'"', 'x="1"'])
    if cls == "tab":
        return w + "\t" + rng.choice(WORDS)
    if cls == "non-ascii":
        return rng.choice(["é", "ü", "日本語", "Ελληνικά", "naïve café", " ", " ", "\u0085", "﻿", "�", "", "​"]) + rng.choice(["", w])
    if cls == "astral":
        return rng.choice(["\U0001F600", "\U00010000", "\U0010FFFF"[:0] + "\U000E0001", "\U0001FFFE", "a\U0001F4A9b", "\U0002000B"]) + rng.choice(["", w])
    if cls == "c0":
        return rng.choice(["", w]) + chr(rng.choice([0, 1, 2, 7, 8, 0x0B, 0x0C, 0x0E, 0x1B, 0x1F])) + rng.choice(["", w])
    if cls == "c1":
        return rng.choice(["", w]) + chr(rng.choice([0x7F, 0x80, 0x85, 0x9F])) + rng.choice(["", w])
    if cls == "fffe":
        return rng.choice(["", w]) + rng.choice(["￾", "￿"]) + rng.choice(["", w])
    if cls == "surrogate":
        return rng.choice(["", w]) + chr(rng.choice([0xD800, 0xDBFF, 0xDC00, 0xDFFF, 0xD83D])) + rng.choice(["", w])
    if cls == "long":
        return (w + " ") * rng.randint(200, 600)
    if cls == "split-pair":
        # a high surrogate immediately followed by a low one, as two code points of a Python str (text cut and glued again
        # around a UTF-16 pair): NOT the astral character they would spell in UTF-16
        return rng.choice(["", w]) + rng.choice(["\ud83d\ude00", "\ud800\udc00", "\udbbf\udfff", "\ud83d\ude00\ude00", "\ud83d\ud83d\ude00"]) + rng.choice(["", w])
    if cls == "format-quote":
        return rng.choice(FORMAT_QUOTES) + rng.choice(["", "", w, '{"report_version": 1.1}'])
    raise ValueError(cls)


# text quoting the report file formats themselves (a test that logs the beginning of a report.js, an XML snippet, …): legitimate
# content that a loader working on the raw text instead of the parsed structure may mistake for the file's own syntax.  Not in
# STRING_CLASSES (the existing streams keep their distributions); planted explicitly by the streams that want it.
FORMAT_QUOTES = [
    "var reporting_data = ", "report.js starts with: var reporting_data = ", "var reporting_data = var reporting_data = ",
    " var reporting_data = {", "x\nvar reporting_data = ", "var reporting_data =", "VAR REPORTING_DATA = ",
    '{"report_version": 2.0}', '"report_version"', "<?xml version='1.0' encoding='utf-8'?>", "<lemoncheesecake-report",
    "</lemoncheesecake-report>", "</log></step></test>", "report_version=\"9.9\"", "\\u0000", "\\ud800", "\\\"", "&#0;", "&lt;",
]


IDENTS = ["alpha", "beta", "gamma", "delta", "omega", "foo", "bar", "baz", "x", "value", "compat", "test_a", "suite_b", "a", "b"]


def gen_node_name(rng, cls, ascii_only=False):
    w, w2 = rng.choice(IDENTS), rng.choice(IDENTS)
    if cls == "ident":
        return w + rng.choice(["", "", "_", "_1", "2", "_" + w2])
    if cls == "dotted":
        cands = [w + "." + w2, w + "." + w2, w + "_1.2", "compat_1.2", w + "." + w2 + "." + rng.choice(IDENTS), ".", "..", w + ".",
                 "." + w, w + ".." + w2, "1.2", "v1.2.3", w + " 1.0", w + ".0", "a.b", "a.b.c", w + "-" + w2 + ".x"]
        if not ascii_only:
            cands += ["\u00e9.\u00fc", w + ".\u65e5\u672c", "\U0001F600." + w]
        return rng.choice(cands)
    if cls == "dash":
        return rng.choice([w + "-" + w2, w + "-1", "-", "--" + w, w + "-", "a-b-c"])
    if cls == "digits":
        return rng.choice(["1", "42", "007", "0", "3" + w, w + "3", "1_000"])
    if cls == "punct":
        return rng.choice([w + ":" + w2, w + "/" + w2, w + "[1]", w + "#1", w + " " + w2, "(" + w + ")", w + "," + w2, w + "=" + w2, "*", "?",
                           w + "[" + w2 + "=1.5]", "~" + w, w + "@" + w2, "a+b", "50%"])
    raise ValueError(cls)


class Text:
    """Draws strings: `mode` plain → ASCII words only (but unique-ish), safe → XML-preserved classes, wild → everything."""

    SAFE = ["plain", "plain", "blanks", "lead-trail-blanks", "lf", "markup", "non-ascii", "astral", "c1", "tab", "quote", "long"]

    def __init__(self, rng, mode):
        self.rng, self.mode = rng, mode
        self.used = set()

    def s(self, weight_plain=0.55):
        rng = self.rng
        if self.mode == "plain" or rng.random() < weight_plain:
            cls = "plain"
        elif self.mode == "safe":
            cls = rng.choice(self.SAFE)
        else:
            cls = rng.choice(STRING_CLASSES)
            if cls == "long" and rng.random() < 0.7:
                cls = "plain"
        if cls != "plain":
            self.used.add(cls)
        return gen_string(rng, cls)

    def node_name(self, taken):
        """the name of a test or of a suite, unique among its siblings.  The real constraint (suite/loader.py
        `check_type_string`) is "any str": `@lcc.test(name=…)`, `@lcc.suite(name=…)` and the naming scheme of
        parametrized tests take arbitrary text, so besides identifiers the class holds dotted names
        (`compat_1.2`: the dot is also the separator of the string form of a path), dashes, digits, punctuation
        and whatever `s()` yields in this mode (blank, empty, non-ASCII, …)."""
        rng = self.rng
        for _ in range(50):
            r = rng.random()
            if r < 0.30:
                cls = "ident"
            elif r < 0.62:
                cls = "dotted"
            elif r < 0.80:
                cls = rng.choice(["dash", "digits", "punct"])
            else:
                cls = "text"
            n = self.s(0.3) if cls == "text" else gen_node_name(rng, cls, ascii_only=self.mode == "plain")
            if n not in taken:
                taken.add(n)
                return n
        return self.name(taken)

    def name(self, taken):
        """a key (property, info), unique among its siblings"""
        for _ in range(50):
            n = self.s(0.7)
            if n not in taken:
                taken.add(n)
                return n
        n = "n%d" % len(taken)
        while n in taken:
            n += "_"
        taken.add(n)
        return n


# ------------------------------------------------------------------------------------------------
# report descriptions
# ------------------------------------------------------------------------------------------------

class Clock:
    def __init__(self, rng, t0=T0):
        self.rng, self.t = rng, t0

    def tick(self):
        self.t += self.rng.choice([0, 1, 1, 2, 5, 17, 250, 999, 1000, 61_003])
        return self.t


def gen_md(rng, tx, name, rank):
    props, keys = [], set()
    for _ in range(rng.choice([0, 0, 1, 2])):
        k = tx.name(keys)
        props.append([k, tx.s()])
    return {
        "name": name, "desc": tx.s(),
        "tags": [tx.s() for _ in range(rng.choice([0, 0, 1, 2]))],
        "props": props,
        "links": [[tx.s(), rng.choice([None, None, tx.s()])] for _ in range(rng.choice([0, 0, 1, 2]))],
        "rank": rank,
    }


def gen_entry(rng, tx, clk, fail_ok=True):
    k = rng.choice(["log", "log", "check", "check", "att", "url"])
    t = clk.tick()
    if k == "log":
        lv = rng.choice(LEVELS if fail_ok else LEVELS[:3])
        return {"k": "log", "level": lv, "msg": tx.s(), "t": t}
    if k == "check":
        ok = rng.random() < (0.7 if fail_ok else 2)
        return {"k": "check", "desc": tx.s(), "ok": ok, "details": rng.choice([None, tx.s()]), "t": t}
    if k == "att":
        return {"k": "att", "desc": tx.s(), "file": tx.s(), "img": rng.random() < 0.3, "t": t}
    return {"k": "url", "desc": tx.s(), "url": tx.s(), "t": t}


def entry_ok(e):
    if e["k"] == "log":
        return e["level"] != "error"
    if e["k"] == "check":
        return bool(e["ok"])
    return True


def result_entries_ok(res):
    return all(entry_ok(e) for st in res["steps"] for e in st["entries"])


def gen_steps(rng, tx, clk, unfinished_last, fail_ok, opts):
    steps = []
    n = rng.choice([0, 1, 1, 2, 3])
    for i in range(n):
        start = clk.tick()
        entries = [gen_entry(rng, tx, clk, fail_ok) for _ in range(rng.choice([0, 1, 2, 2, 4]))]
        end = clk.tick()
        if unfinished_last and i == n - 1:
            end = None
        elif opts.get("stray_unfinished_steps") and rng.random() < 0.08:
            end = None
        steps.append({"desc": tx.s(), "start": start, "end": end, "entries": entries})
    return steps


def gen_phase(rng, tx, clk, opts, finished=True):
    """a setup/teardown Result"""
    start = clk.tick()
    fail_ok = rng.random() < 0.3
    steps = gen_steps(rng, tx, clk, (not finished) and rng.random() < 0.7, fail_ok, opts)
    res = {"steps": steps, "start": start, "end": None, "status": None, "details": None}
    if finished:
        res["end"] = clk.tick()
        res["status"] = "passed" if result_entries_ok(res) else "failed"
    if opts.get("odd") and rng.random() < 0.1:
        res["details"] = tx.s()
    return res


def gen_test(rng, tx, clk, name, rank, opts, finished=True):
    md = gen_md(rng, tx, name, rank)
    kind = rng.choice(["run", "run", "run", "run", "skipped", "disabled"])
    if not finished:
        kind = "run"
    if kind in ("skipped", "disabled"):
        t = clk.tick()
        res = {"steps": [], "start": t, "end": t, "status": kind, "details": rng.choice([None, tx.s(), tx.s()])}
        if opts.get("odd") and rng.random() < 0.15:
            res["steps"] = gen_steps(rng, tx, clk, False, True, opts)
        return {"md": md, "res": res}
    start = clk.tick()
    fail_ok = rng.random() < 0.4
    steps = gen_steps(rng, tx, clk, (not finished) and rng.random() < 0.7, fail_ok, opts)
    res = {"steps": steps, "start": start, "end": None, "status": None, "details": None}
    if finished:
        res["end"] = clk.tick()
        res["status"] = "passed" if result_entries_ok(res) else "failed"
        if opts.get("odd") and rng.random() < 0.1:
            res["status"] = rng.choice(STATUSES)       # a status the writer would not have produced
        if opts.get("odd") and rng.random() < 0.1:
            res["details"] = rng.choice(["", tx.s()])
    return {"md": md, "res": res}


def gen_ranks(rng, n, opts):
    mode = rng.choice(["seq", "seq", "zero", "shuffled", "ties"]) if opts.get("ranks", True) else "zero"
    if mode == "seq":
        return list(range(n))
    if mode == "zero":
        return [0] * n
    if mode == "shuffled":
        r = list(range(n))
        rng.shuffle(r)
        return r
    return [rng.randint(0, 2) for _ in range(n)]


def gen_suite(rng, tx, clk, name, rank, depth, opts, finished=True):
    md = gen_md(rng, tx, name, rank)
    start = clk.tick()
    n_tests = rng.choice([0, 1, 2, 2, 3, 4])
    n_sub = 0 if depth >= opts.get("max_depth", 4) else rng.choice([0, 0, 1, 1, 2])
    if n_tests == 0 and n_sub == 0 and rng.random() < 0.7:
        n_tests = 1
    # an unfinished suite: exactly one of its items (the last executed one) is unfinished too, or none
    unfinished_item = None
    if not finished:
        unfinished_item = rng.choice(["setup", "test", "sub", "teardown", "none"])
    setup = None
    if rng.random() < 0.4 or unfinished_item == "setup":
        setup = gen_phase(rng, tx, clk, opts, finished=unfinished_item != "setup")
    taken = set()
    tests = []
    tranks = gen_ranks(rng, n_tests, opts)
    after = unfinished_item == "setup"       # nothing runs after an unfinished item in a sequential run
    for i in range(n_tests):
        if after:
            break
        unfin = unfinished_item == "test" and i == n_tests - 1
        tests.append(gen_test(rng, tx, clk, tx.node_name(taken), tranks[i], opts, finished=not unfin))
    if unfinished_item == "test" and n_tests > 0:
        after = True
    tests = reorder_siblings(rng, tests, opts, keep_last=unfinished_item == "test")
    suites = []
    sranks = gen_ranks(rng, n_sub, opts)
    staken = set()
    for i in range(n_sub):
        if after:
            break
        unfin = unfinished_item == "sub" and i == n_sub - 1
        suites.append(gen_suite(rng, tx, clk, tx.node_name(staken), sranks[i], depth + 1, opts, finished=not unfin))
    if unfinished_item == "sub" and n_sub > 0:
        after = True
    suites = reorder_siblings(rng, suites, opts, keep_last=unfinished_item == "sub")
    teardown = None
    if not after and (rng.random() < 0.4 or unfinished_item == "teardown"):
        teardown = gen_phase(rng, tx, clk, opts, finished=unfinished_item != "teardown")
    end = clk.tick() if finished else None
    return {"md": md, "start": start, "end": end, "setup": setup, "teardown": teardown, "tests": tests, "suites": suites}


def gen_report(rng, mode="wild", **opts):
    """opts: max_depth (4), ranks (True), unfinished (prob.), odd (statuses/details a writer would not
    produce, stray unfinished items), none_times (prob. of a missing start time), zero_times."""
    tx = Text(rng, mode)
    clk = Clock(rng)
    finished = rng.random() >= opts.get("unfinished", 0.25)
    start = clk.tick()
    unfinished_item = None if finished else rng.choice(["setup", "suite", "teardown", "none"])
    setup = None
    if rng.random() < 0.35 or unfinished_item == "setup":
        setup = gen_phase(rng, tx, clk, opts, finished=unfinished_item != "setup")
    after = unfinished_item == "setup"
    n = rng.choice([1, 1, 2, 2, 3])
    ranks = gen_ranks(rng, n, opts)
    taken = set()
    suites = []
    for i in range(n):
        if after:
            break
        unfin = unfinished_item == "suite" and i == n - 1
        suites.append(gen_suite(rng, tx, clk, tx.node_name(taken), ranks[i], 1, opts, finished=not unfin))
    if unfinished_item == "suite":
        after = True
    suites = reorder_siblings(rng, suites, opts, keep_last=unfinished_item == "suite")
    teardown = None
    if not after and (rng.random() < 0.35 or unfinished_item == "teardown"):
        teardown = gen_phase(rng, tx, clk, opts, finished=unfinished_item != "teardown")
    end = clk.tick() if finished else None
    keys = set()
    rep = {
        "title": tx.s(), "info": [[tx.name(keys), tx.s()] for _ in range(rng.choice([0, 0, 1, 3]))],
        "nb_threads": rng.choice([1, 1, 2, 4]), "start": start, "end": end, "saving": None,
        "setup": setup, "teardown": teardown, "suites": suites,
    }
    if opts.get("sibling_order", True):
        tie_siblings(rng, rep)
    if opts.get("alias_names", True):
        alias_names(rng, rep)
    if opts.get("odd"):
        _oddify(rng, rep, opts)
    if opts.get("odd_fields"):
        _odd_fields(rng, rep)
    rep["_classes"] = sorted(tx.used)
    return rep


def reorder_siblings(rng, items, opts, keep_last=False):
    """Siblings are generated in the order of their start times (one clock); the order in which a report HOLDS
    them need not be that one: a report loaded from a file holds them in declaration (rank) order whatever the
    execution order was (`depends_on` a later test, several worker threads).  Half of the sibling lists keep the
    chronological order, the others are reversed / rotated / shuffled (the unfinished item of an unfinished
    suite stays last, so that "a sequential run that stopped" stays frequent)."""
    if not opts.get("sibling_order", True) or len(items) < 2:
        return items
    mode = rng.choice(["chrono", "chrono", "chrono", "reverse", "rotate", "shuffle", "shuffle"])
    if mode == "chrono":
        return items
    head, last = (items[:-1], items[-1:]) if keep_last else (items, [])
    if mode == "reverse":
        head = head[::-1]
    elif mode == "rotate":
        head = head[1:] + head[:1]
    else:
        head = list(head)
        rng.shuffle(head)
    return head + last


def _sibling_lists(rep):
    yield rep["suites"]
    for s in iter_suites(rep["suites"]):
        yield s["tests"]
        yield s["suites"]


def _start_holder(x):
    return x["res"] if "res" in x else x


def tie_siblings(rng, rep):
    """some sibling lists start at the same instant (ms resolution of the file formats, parallel workers)"""
    for lst in _sibling_lists(rep):
        if len(lst) >= 2 and rng.random() < 0.12:
            starts = [_start_holder(x)["start"] for x in lst]
            if any(t is None for t in starts):
                continue
            t0 = min(starts)
            for x in lst[:rng.choice([2, len(lst)])]:
                h = _start_holder(x)
                if "res" in x and h["status"] in ("skipped", "disabled"):
                    h["end"] = t0
                h["start"] = t0


def alias_names(rng, rep):
    """names whose dot-split form spells the path of ANOTHER node of the report: a suite renamed `<sibling>.<child of
    that sibling>`, a test renamed `<sub-suite of its suite>.<test of that sub-suite>`.  Legitimate names; a reader
    that goes through the string form of a path resolves them to the wrong node."""
    def rename(node, siblings, new):
        if new not in {x["md"]["name"] for x in siblings}:
            node["md"]["name"] = new
            rep["_aliased"] = rep.get("_aliased", 0) + 1

    def child_name(a):
        kids = [x["md"]["name"] for x in a["suites"]] + [t["md"]["name"] for t in a["tests"]]
        return rng.choice(kids) if kids else rng.choice(IDENTS)
    lists = [rep["suites"]] + [s["suites"] for s in iter_suites(rep["suites"])]
    for lst in lists:
        if len(lst) >= 2 and rng.random() < 0.3:
            a, x = rng.sample(lst, 2)
            rename(x, lst, a["md"]["name"] + "." + child_name(a))
    for s in iter_suites(rep["suites"]):
        if s["tests"] and s["suites"] and rng.random() < 0.25:
            u = rng.choice(s["suites"])
            rename(rng.choice(s["tests"]), s["tests"], u["md"]["name"] + "." + child_name(u))


def path_str_resolves_elsewhere(rep):
    """number of nodes whose dotted path string, split on '.', names a DIFFERENT existing node (see alias_names)"""
    suites_by_path, tests_by_path = {}, {}

    def walk(ss, pre):
        for s in ss:
            p = pre + (s["md"]["name"],)
            suites_by_path.setdefault(p, s)
            for t in s["tests"]:
                tests_by_path.setdefault(p + (t["md"]["name"],), t)
            walk(s["suites"], p)
    walk(rep["suites"], ())
    n = 0
    for table in (suites_by_path, tests_by_path):
        for p, node in table.items():
            q = tuple(".".join(p).split("."))
            if q != p and q in table and table[q] is not node:
                n += 1
    return n


def shape_features(rep):
    """input-class labels of a report description, for `Stream.features` (names and sibling order)"""
    f = set()
    for s, path in _suites_with_paths(rep["suites"], ()):
        nm = s["md"]["name"]
        if "." in nm:
            f.add("name:dotted-suite")
        for key in ("setup", "teardown"):
            if s[key] and s[key]["steps"] and any("." in x for x in path):
                f.add("name:dotted-on-step-path")
        for t in s["tests"]:
            tn = t["md"]["name"]
            if "." in tn:
                f.add("name:dotted-test")
            if t["res"]["steps"] and ("." in tn or any("." in x for x in path)):
                f.add("name:dotted-on-step-path")
            for label, pred in _NAME_LABELS:
                if pred(tn):
                    f.add("name:" + label)
        for label, pred in _NAME_LABELS:
            if pred(nm):
                f.add("name:" + label)
    if path_str_resolves_elsewhere(rep):
        f.add("name:path-string-spells-another-node")
    for lst in _sibling_lists(rep):
        kind = "tests" if lst and "res" in lst[0] else "suites"
        acc = sorted(lst, key=lambda x: x["md"]["rank"])      # accessor order (stable)
        starts = [_start_holder(x)["start"] for x in acc]
        if any(t is None for t in starts):
            continue
        if any(a > b for a, b in zip(starts, starts[1:])):
            f.add("siblings-out-of-start-order")
            f.add("siblings-out-of-start-order:" + kind)
        if any(a == b for a, b in zip(starts, starts[1:])):
            f.add("siblings-equal-start")
    return sorted(f)


_NAME_LABELS = [
    ("dash", lambda n: "-" in n),
    ("digits-only", lambda n: n.isdigit()),
    ("non-ascii", lambda n: any(ord(c) > 0x7F for c in n)),
    ("blank-or-empty", lambda n: n.strip() == ""),
    ("punctuation", lambda n: any(c in n for c in ":/[]#(),=*?~@+%")),
]


def _suites_with_paths(ss, pre):
    for s in ss:
        p = pre + (s["md"]["name"],)
        yield s, p
        yield from _suites_with_paths(s["suites"], p)


def _oddify(rng, rep, opts):
    """stray unfinished items anywhere (what a snapshot of a parallel run looks like), missing / zero times"""
    for res in iter_results(rep):
        if rng.random() < 0.08:
            res["end"] = None
            res["status"] = None
        for st in res["steps"]:
            if rng.random() < 0.06:
                st["end"] = None
    for s in iter_suites(rep["suites"]):
        if rng.random() < 0.06:
            s["end"] = None
    p_none, p_zero = opts.get("none_times", 0.0), opts.get("zero_times", 0.0)
    if p_none or p_zero:
        holders = [rep] + list(iter_suites(rep["suites"])) + list(iter_results(rep))
        holders += [st for res in iter_results(rep) for st in res["steps"]]
        for h in holders:
            r = rng.random()
            if r < p_none:
                h["start"] = None
            elif r < p_none + p_zero:
                h["start"] = 0
            elif r < p_none + 2 * p_zero and h.get("end") is not None:
                h["end"] = 0
        for res in iter_results(rep):
            for st in res["steps"]:
                for e in st["entries"]:
                    if rng.random() < p_zero / 2:
                        e["t"] = 0


RESULT_KINDS = ["session-setup", "session-teardown", "suite-setup", "suite-teardown", "test"]


def iter_results_kinds(rep):
    """(kind, result) for every result of the description, kind ∈ RESULT_KINDS"""
    if rep.get("setup"):
        yield "session-setup", rep["setup"]
    for s in iter_suites(rep["suites"]):
        if s["setup"]:
            yield "suite-setup", s["setup"]
        for t in s["tests"]:
            yield "test", t["res"]
        if s["teardown"]:
            yield "suite-teardown", s["teardown"]
    if rep.get("teardown"):
        yield "session-teardown", rep["teardown"]


def _odd_fields(rng, rep, p=0.12):
    """opt `odd_fields`: 'impossible but representable' combinations of INDEPENDENT fields, on results of every kind — what a
    snapshot taken while a result is being finalised shows (`_finalize_result` sets the end time first, the status afterwards),
    or what a tool building reports can write: end time without status, status without end time, end before start, a step ended
    before it started, an ended step inside an unended result, an ended suite holding an unended result."""
    for kind, res in iter_results_kinds(rep):
        r = rng.random()
        if r < p and res["end"] is not None and res["status"] not in ("skipped", "disabled"):
            res["status"] = None                                   # end time, no status (yet)
        elif r < 2 * p and res["status"] is not None:
            res["end"] = None                                      # status, no end time
        elif r < 2.5 * p and res["end"] is not None and res["start"]:
            res["end"] = max(1, res["start"] - rng.choice([1, 250, 60_000]))     # ended before it started
        elif r < 3 * p and res["end"] is None and res["status"] is None and res["start"]:
            res["end"] = res["start"] + rng.choice([0, 1, 5000])   # an unfinished result given an end time only
        for st in res["steps"]:
            if rng.random() < p / 3 and st["end"] is not None and st["start"]:
                st["end"] = max(1, st["start"] - 1)
            if rng.random() < p / 3:
                st["entries"] = []


def odd_field_features(rep):
    """feature tags for the combinations `_odd_fields` produces, per result kind"""
    f = set()
    for kind, res in iter_results_kinds(rep):
        if res["end"] is not None and res["status"] is None:
            f.add("end-without-status:" + kind)
        if res["end"] is None and res["status"] is not None:
            f.add("status-without-end:" + kind)
        if res["end"] is not None and res["start"] is not None and res["end"] < res["start"]:
            f.add("end-before-start:" + kind)
        if any(not st["entries"] for st in res["steps"]):
            f.add("step-without-entries")
    return sorted(f)


def iter_suites(suites):
    for s in suites:
        yield s
        yield from iter_suites(s["suites"])


def iter_results(rep):
    if rep.get("setup"):
        yield rep["setup"]
    for s in iter_suites(rep["suites"]):
        if s["setup"]:
            yield s["setup"]
        for t in s["tests"]:
            yield t["res"]
        if s["teardown"]:
            yield s["teardown"]
    if rep.get("teardown"):
        yield rep["teardown"]


def iter_tests(rep):
    for s in iter_suites(rep["suites"]):
        for t in s["tests"]:
            yield t


def all_strings(rep):
    """every text of the report with a tag saying which kind of position it sits in"""
    out = [("text", rep["title"])]
    for k, v in rep["info"]:
        out += [("attr", k), ("text", v)]

    def md(m):
        out.extend([("attr", m["name"]), ("attr", m["desc"])])
        out.extend(("text", t) for t in m["tags"])
        for k, v in m["props"]:
            out.extend([("attr", k), ("text", v)])
        for u, n in m["links"]:
            out.append(("text", u))
            if n is not None:
                out.append(("attr?", n))

    def res(r):
        if r is None:
            return
        if r["details"] is not None:
            out.append(("attr?", r["details"]))
        for st in r["steps"]:
            out.append(("attr", st["desc"]))
            for e in st["entries"]:
                if e["k"] == "log":
                    out.append(("text", e["msg"]))
                elif e["k"] == "check":
                    out.append(("attr", e["desc"]))
                    if e["details"] is not None:
                        out.append(("text?", e["details"]))
                elif e["k"] == "att":
                    out.extend([("attr", e["desc"]), ("text", e["file"])])
                else:
                    out.extend([("attr", e["desc"]), ("text", e["url"])])
    res(rep["setup"])
    res(rep["teardown"])
    for s in iter_suites(rep["suites"]):
        md(s["md"])
        res(s["setup"])
        res(s["teardown"])
        for t in s["tests"]:
            md(t["md"])
            res(t["res"])
    return out


def strip_private(d):
    return {k: v for k, v in d.items() if not k.startswith("_")}


# ------------------------------------------------------------------------------------------------
# desc → real objects
# ------------------------------------------------------------------------------------------------

def _t(ms):
    return None if ms is None else ms / 1000.0


def build_entry(e):
    from lemoncheesecake.reporting import Log, Check, Attachment, Url
    if e["k"] == "log":
        return Log(e["level"], e["msg"], _t(e["t"]))
    if e["k"] == "check":
        return Check(e["desc"], e["ok"], e["details"], _t(e["t"]))
    if e["k"] == "att":
        return Attachment(e["desc"], e["file"], e["img"], _t(e["t"]))
    return Url(e["desc"], e["url"], _t(e["t"]))


def build_step(d):
    from lemoncheesecake.reporting import Step
    st = Step(d["desc"])
    st.start_time, st.end_time = _t(d["start"]), _t(d["end"])
    for e in d["entries"]:
        st.add_log(build_entry(e))
    return st


def fill_result(res, d):
    res.start_time, res.end_time = _t(d["start"]), _t(d["end"])
    res.status, res.status_details = d["status"], d["details"]
    for st in d["steps"]:
        res.add_step(build_step(st))
    return res


def build_result(d):
    from lemoncheesecake.reporting import Result
    return None if d is None else fill_result(Result(), d)


def fill_md(node, md):
    node.tags.extend(md["tags"])
    node.properties.update({k: v for k, v in md["props"]})
    node.links.extend((u, n) for u, n in md["links"])
    node.rank = md["rank"]


def build_test(d):
    from lemoncheesecake.reporting import TestResult
    t = TestResult(d["md"]["name"], d["md"]["desc"])
    fill_md(t, d["md"])
    fill_result(t, d["res"])
    return t


def build_suite(d):
    from lemoncheesecake.reporting import SuiteResult
    s = SuiteResult(d["md"]["name"], d["md"]["desc"])
    fill_md(s, d["md"])
    s.start_time, s.end_time = _t(d["start"]), _t(d["end"])
    if d["setup"] is not None:
        s.suite_setup = build_result(d["setup"])
    if d["teardown"] is not None:
        s.suite_teardown = build_result(d["teardown"])
    for t in d["tests"]:
        s.add_test(build_test(t))
    for sub in d["suites"]:
        s.add_suite(build_suite(sub))
    return s


def build_report(d):
    from lemoncheesecake.reporting import Report
    r = Report()
    r.title = d["title"]
    for k, v in d["info"]:
        r.add_info(k, v)
    r.nb_threads = d["nb_threads"]
    r.start_time, r.end_time, r.saving_time = _t(d["start"]), _t(d["end"]), _t(d.get("saving"))
    if d["setup"] is not None:
        r.test_session_setup = build_result(d["setup"])
    if d["teardown"] is not None:
        r.test_session_teardown = build_result(d["teardown"])
    for s in d["suites"]:
        r.add_suite(build_suite(s))
    return r


# ------------------------------------------------------------------------------------------------
# real objects → desc  (the abstraction function)
# ------------------------------------------------------------------------------------------------

def _ms(t):
    if t is None:
        return None
    return int(round(t * 1000))


def canon_entry(log):
    from lemoncheesecake.reporting import Log, Check, Attachment, Url
    if isinstance(log, Log):
        return {"k": "log", "level": log.level, "msg": log.message, "t": _ms(log.time)}
    if isinstance(log, Check):
        return {"k": "check", "desc": log.description, "ok": log.is_successful, "details": log.details, "t": _ms(log.time)}
    if isinstance(log, Attachment):
        return {"k": "att", "desc": log.description, "file": log.filename, "img": log.as_image, "t": _ms(log.time)}
    if isinstance(log, Url):
        return {"k": "url", "desc": log.description, "url": log.url, "t": _ms(log.time)}
    raise TypeError(log)


def canon_step(st):
    return {"desc": st.description, "start": _ms(st.start_time), "end": _ms(st.end_time),
            "entries": [canon_entry(e) for e in st.get_logs()]}


def canon_result(res):
    if res is None:
        return None
    return {"steps": [canon_step(s) for s in res._steps], "start": _ms(res.start_time), "end": _ms(res.end_time),
            "status": res.status, "details": res.status_details}


def canon_md(node):
    return {"name": node.name, "desc": node.description, "tags": list(node.tags),
            "props": [[k, v] for k, v in node.properties.items()],
            "links": [[l[0], l[1]] for l in node.links], "rank": getattr(node, "rank", 0)}


def canon_test(t):
    return {"md": canon_md(t), "res": canon_result(t)}


def canon_suite(s):
    return {"md": canon_md(s), "start": _ms(s.start_time), "end": _ms(s.end_time),
            "setup": canon_result(s._suite_setup), "teardown": canon_result(s._suite_teardown),
            "tests": [canon_test(t) for t in s._tests.values()],
            "suites": [canon_suite(x) for x in s._suites]}


def canon_report(r):
    return {"title": r.title, "info": [[i[0], i[1]] for i in r.info], "nb_threads": r.nb_threads,
            "start": _ms(r.start_time), "end": _ms(r.end_time), "saving": _ms(r.saving_time),
            "setup": canon_result(r._test_session_setup), "teardown": canon_result(r._test_session_teardown),
            "suites": [canon_suite(s) for s in r._suites]}


# normal form used by the ORACLES (independent of the models): what every reader of a report sees —
# children through the rank-sorted accessors, rank itself dropped, saving time dropped.

def nf_suite(s):
    d = canon_suite(s)
    d["md"].pop("rank")
    d["tests"] = []
    for t in s.get_tests():
        ct = canon_test(t)
        ct["md"].pop("rank")
        d["tests"].append(ct)
    d["suites"] = [nf_suite(x) for x in s.get_suites()]
    return d


def nf_report(r):
    d = canon_report(r)
    d.pop("saving")
    d["suites"] = [nf_suite(s) for s in r.get_suites()]
    return d


def nf_of_desc(d):
    """the same normal form computed from a description (stable sort by rank, rank dropped)"""
    d = copy.deepcopy(strip_private(d))
    d.pop("saving", None)

    def suite(s):
        s["md"].pop("rank", None)
        s["tests"] = [dict(t, md={k: v for k, v in t["md"].items() if k != "rank"})
                      for t in sorted(s["tests"], key=lambda t: t["md"]["rank"])]
        s["suites"] = [suite(x) for x in sorted(s["suites"], key=lambda x: x["md"]["rank"])]
        return s
    d["suites"] = [suite(s) for s in sorted(d["suites"], key=lambda x: x["md"]["rank"])]
    return d


# ------------------------------------------------------------------------------------------------
# wire format (Lean side)
# ------------------------------------------------------------------------------------------------

def wire_str(s):
    if s is None:
        return None
    out = []
    for ch in s:
        c = ord(ch)
        if SURR_LO <= c <= SURR_HI:
            c = CARRIER + (c - SURR_LO)
        elif CARRIER <= c <= 0x10FFFF:
            raise ValueError("genuine character of the surrogate-carrier block U+10F800..U+10FFFF")
        out.append(c)
    return out


def unwire_str(a):
    if a is None:
        return None
    return "".join(chr(c - CARRIER + SURR_LO) if CARRIER <= c <= 0x10FFFF else chr(c) for c in a)


_STR_KEYS = {"title", "name", "desc", "msg", "details", "file", "url", "step", "reason"}


def _conv(x, f, key=None):
    if isinstance(x, dict):
        out = {}
        for k, v in x.items():
            if k.startswith("_"):
                continue
            if k in _STR_KEYS and (v is None or isinstance(v, (str, list)) and k != "steps"):
                out[k] = f(v)
            elif k in ("tags", "path"):
                out[k] = [f(s) for s in v]
            elif k in ("props", "info", "links"):
                out[k] = [[f(a), f(b)] for a, b in v]
            else:
                out[k] = _conv(v, f, k)
        return out
    if isinstance(x, list):
        return [_conv(v, f) for v in x]
    return x


def wire(x):
    """desc / event / list of them → wire form (strings as code-point lists)"""
    return _conv(x, wire_str)


def unwire(x):
    return _conv(x, unwire_str)


# ------------------------------------------------------------------------------------------------
# events
# ------------------------------------------------------------------------------------------------

def loc_of(kind, path=None):
    return {"k": kind} if path is None else {"k": kind, "path": list(path)}


def events_of_desc(rep, rng=None, tids=(1,)):
    """A well-formed event stream whose aggregation is `rep` (depth first, insertion order), steps spread
    over the given thread ids.  Used as the starting point of the ill-formed stream generator."""
    ev = []
    pick = (lambda: rng.choice(list(tids))) if rng else (lambda: tids[0])

    def steps(loc, res):
        for st in res["steps"]:
            tid = pick()
            ev.append({"e": "stepStart", "loc": loc, "desc": st["desc"], "tid": tid, "t": st["start"] or 1})
            for e in st["entries"]:
                x = dict(e)
                x["e"] = x.pop("k")
                x.update({"loc": loc, "step": st["desc"], "tid": tid, "t": e["t"] or 1})
                ev.append(x)
            if st["end"]:
                ev.append({"e": "stepEnd", "loc": loc, "desc": st["desc"], "tid": tid, "t": st["end"]})

    def phase(kind, path, res):
        if res is None:
            return
        names = {"ssetup": "sessionSetup", "steardown": "sessionTeardown", "setup": "suiteSetup", "teardown": "suiteTeardown"}
        base = {"path": list(path)} if path is not None else {}
        ev.append(dict(base, e=names[kind] + "Start", t=res["start"] or 1))
        steps(loc_of(kind, path), res)
        if res["end"]:
            ev.append(dict(base, e=names[kind] + "End", t=res["end"]))

    def suite(path, s):
        p = path + [s["md"]["name"]]
        ev.append({"e": "suiteStart", "path": p, "md": s["md"], "t": s["start"] or 1})
        phase("setup", p, s["setup"])
        for t in s["tests"]:
            tp = p + [t["md"]["name"]]
            r = t["res"]
            if r["status"] in ("skipped", "disabled"):
                ev.append({"e": "testSkipped" if r["status"] == "skipped" else "testDisabled", "path": tp, "md": t["md"],
                           "reason": r["details"], "t": r["start"] or 1})
            else:
                ev.append({"e": "testStart", "path": tp, "md": t["md"], "t": r["start"] or 1})
                steps(loc_of("test", tp), r)
                if r["end"]:
                    ev.append({"e": "testEnd", "path": tp, "t": r["end"]})
        for sub in s["suites"]:
            suite(p, sub)
        phase("teardown", p, s["teardown"])
        if s["end"]:
            ev.append({"e": "suiteEnd", "path": p, "t": s["end"]})

    ev.append({"e": "sessionStart", "t": rep["start"] or 1})
    phase("ssetup", None, rep["setup"])
    for s in rep["suites"]:
        suite([], s)
    phase("steardown", None, rep["teardown"])
    if rep["end"]:
        ev.append({"e": "sessionEnd", "t": rep["end"]})
    return ev


class _Node:
    pass


def _node_chain(path, md, cls_leaf):
    """objects carrying name/parent_suite (what `normalize_node_hierarchy` walks) and the leaf's metadata"""
    from lemoncheesecake.testtree import BaseSuite, BaseTest
    parent = None
    for name in path[:-1]:
        s = BaseSuite(name, "")
        s.parent_suite = parent
        parent = s
    leaf = cls_leaf(path[-1] if md is None else md["name"], "" if md is None else md["desc"])
    leaf.parent_suite = parent
    leaf.rank = 0
    if md is not None:
        fill_md(leaf, md)
    return leaf


def build_location(loc):
    from lemoncheesecake.reporting import ReportLocation
    k = loc["k"]
    if k == "ssetup":
        return ReportLocation.in_test_session_setup()
    if k == "steardown":
        return ReportLocation.in_test_session_teardown()
    p = tuple(loc["path"])
    return {"setup": ReportLocation.in_suite_setup, "teardown": ReportLocation.in_suite_teardown,
            "test": ReportLocation.in_test}[k](p)


def build_event(e, report=None):
    """wire-shaped (but str-carrying) event → real `lemoncheesecake.events` object"""
    from lemoncheesecake import events as E
    from lemoncheesecake.testtree import BaseSuite, BaseTest
    t = _t(e["t"])
    k = e["e"]
    simple = {"sessionSetupStart": E.TestSessionSetupStartEvent, "sessionSetupEnd": E.TestSessionSetupEndEvent,
              "sessionTeardownStart": E.TestSessionTeardownStartEvent, "sessionTeardownEnd": E.TestSessionTeardownEndEvent}
    if k == "sessionStart":
        return E.TestSessionStartEvent(report, t)
    if k == "sessionEnd":
        return E.TestSessionEndEvent(report, t)
    if k in simple:
        return simple[k](t)
    suite_ev = {"suiteStart": E.SuiteStartEvent, "suiteEnd": E.SuiteEndEvent, "suiteSetupStart": E.SuiteSetupStartEvent,
                "suiteSetupEnd": E.SuiteSetupEndEvent, "suiteTeardownStart": E.SuiteTeardownStartEvent,
                "suiteTeardownEnd": E.SuiteTeardownEndEvent}
    if k in suite_ev:
        return suite_ev[k](_node_chain(e["path"], e.get("md"), BaseSuite), t)
    if k == "testStart":
        return E.TestStartEvent(_node_chain(e["path"], e["md"], BaseTest), t)
    if k == "testEnd":
        return E.TestEndEvent(_node_chain(e["path"], None, BaseTest), t)
    if k == "testSkipped":
        return E.TestSkippedEvent(_node_chain(e["path"], e["md"], BaseTest), e["reason"], t)
    if k == "testDisabled":
        return E.TestDisabledEvent(_node_chain(e["path"], e["md"], BaseTest), e["reason"], t)
    loc = build_location(e["loc"])
    if k == "stepStart":
        return E.StepStartEvent(loc, e["desc"], e["tid"], t)
    if k == "stepEnd":
        return E.StepEndEvent(loc, e["desc"], e["tid"], t)
    if k == "log":
        return E.LogEvent(loc, e.get("step"), e["tid"], e["level"], e["msg"], t)
    if k == "check":
        return E.CheckEvent(loc, e.get("step"), e["tid"], e["desc"], e["ok"], e["details"], t)
    if k == "att":
        return E.LogAttachmentEvent(loc, e.get("step"), e["tid"], e["file"], e["desc"], e["img"], t)
    if k == "url":
        return E.LogUrlEvent(loc, e.get("step"), e["tid"], e["url"], e["desc"], t)
    raise ValueError(k)


def canon_location(loc):
    nt = loc.node_type
    if nt == loc._TEST_SESSION_SETUP:
        return {"k": "ssetup"}
    if nt == loc._TEST_SESSION_TEARDOWN:
        return {"k": "steardown"}
    return {"k": {loc._SUITE_SETUP: "setup", loc._SUITE_TEARDOWN: "teardown", loc._TEST: "test"}[nt],
            "path": list(loc.node_hierarchy)}


def canon_event(ev):
    """real event object → wire-shaped (str-carrying) event; metadata as `canon_md` of the node"""
    from lemoncheesecake import events as E
    t = _ms(ev.time)
    n = type(ev).__name__

    def path(node):
        return [x.name for x in node.hierarchy]
    m = {"TestSessionStartEvent": "sessionStart", "TestSessionEndEvent": "sessionEnd",
         "TestSessionSetupStartEvent": "sessionSetupStart", "TestSessionSetupEndEvent": "sessionSetupEnd",
         "TestSessionTeardownStartEvent": "sessionTeardownStart", "TestSessionTeardownEndEvent": "sessionTeardownEnd"}
    if n in m:
        return {"e": m[n], "t": t}
    ms = {"SuiteStartEvent": "suiteStart", "SuiteEndEvent": "suiteEnd", "SuiteSetupStartEvent": "suiteSetupStart",
          "SuiteSetupEndEvent": "suiteSetupEnd", "SuiteTeardownStartEvent": "suiteTeardownStart",
          "SuiteTeardownEndEvent": "suiteTeardownEnd"}
    if n in ms:
        d = {"e": ms[n], "path": path(ev.suite), "t": t}
        if n == "SuiteStartEvent":
            d["md"] = canon_md(ev.suite)
        return d
    if n == "TestStartEvent":
        return {"e": "testStart", "path": path(ev.test), "md": canon_md(ev.test), "t": t}
    if n == "TestEndEvent":
        return {"e": "testEnd", "path": path(ev.test), "t": t}
    if n == "TestSkippedEvent":
        return {"e": "testSkipped", "path": path(ev.test), "md": canon_md(ev.test), "reason": ev.skipped_reason, "t": t}
    if n == "TestDisabledEvent":
        return {"e": "testDisabled", "path": path(ev.test), "md": canon_md(ev.test), "reason": ev.disabled_reason, "t": t}
    loc = canon_location(ev.location)
    if n == "StepStartEvent":
        return {"e": "stepStart", "loc": loc, "desc": ev.step_description, "tid": ev.thread_id, "t": t}
    if n == "StepEndEvent":
        return {"e": "stepEnd", "loc": loc, "desc": ev.step, "tid": ev.thread_id, "t": t}
    base = {"loc": loc, "step": ev.step, "tid": ev.thread_id, "t": t}
    if n == "LogEvent":
        return dict(base, e="log", level=ev.log_level, msg=ev.log_message)
    if n == "CheckEvent":
        return dict(base, e="check", desc=ev.check_description, ok=ev.check_is_successful, details=ev.check_details)
    if n == "LogAttachmentEvent":
        return dict(base, e="att", file=ev.attachment_path, desc=ev.attachment_description, img=ev.as_image)
    if n == "LogUrlEvent":
        return dict(base, e="url", url=ev.url, desc=ev.url_description)
    raise TypeError(n)


# ------------------------------------------------------------------------------------------------
# shrinking
# ------------------------------------------------------------------------------------------------

def _paths(x, pre=()):
    """paths of all lists and strings inside a desc"""
    if isinstance(x, dict):
        for k, v in x.items():
            if not k.startswith("_"):
                yield from _paths(v, pre + (k,))
    elif isinstance(x, list):
        yield ("list", pre)
        for i, v in enumerate(x):
            yield from _paths(v, pre + (i,))
    elif isinstance(x, str):
        yield ("str", pre)


def _get(x, path):
    for p in path:
        x = x[p]
    return x


def _set(x, path, v):
    for p in path[:-1]:
        x = x[p]
    x[path[-1]] = v


_ENUM_KEYS = {"k", "e", "level", "status"}


def shrink_desc(d):
    """smaller variants of a report description (or of any JSON-able structure made of them): drop one list
    element, drop an optional result, replace a string by a plain one — sibling names stay distinct."""
    d = strip_private(d) if isinstance(d, dict) else d
    items = list(_paths(d))
    # biggest cuts first
    for kind, path in items:
        if kind == "list":
            lst = _get(d, path)
            if path and path[-1] in ("props", "info", "links") or (len(path) >= 2 and path[-2] in ("props", "info", "links")):
                if path[-1] in ("props", "info", "links"):
                    for i in range(len(lst)):
                        c = copy.deepcopy(d)
                        del _get(c, path)[i]
                        yield c
                continue
            for i in range(len(lst)):
                c = copy.deepcopy(d)
                del _get(c, path)[i]
                yield c
    # a suite replaced by one of its sub-suites (one nesting level less)
    for kind, path in items:
        if kind == "list" and path and path[-1] == "suites":
            lst = _get(d, path)
            for i, s in enumerate(lst):
                taken = {x["md"]["name"] for k, x in enumerate(lst) if k != i}
                for sub in s.get("suites", []):
                    if sub["md"]["name"] not in taken:
                        c = copy.deepcopy(d)
                        _get(c, path)[i] = copy.deepcopy(sub)
                        yield c
    # optional results
    def opt(x, pre=()):
        if isinstance(x, dict):
            for k, v in x.items():
                if k in ("setup", "teardown") and v is not None:
                    yield pre + (k,)
                yield from opt(v, pre + (k,))
        elif isinstance(x, list):
            for i, v in enumerate(x):
                yield from opt(v, pre + (i,))
    for path in opt(d):
        c = copy.deepcopy(d)
        _set(c, path, None)
        yield c
    for kind, path in items:
        if kind == "str" and path[-1] not in _ENUM_KEYS:
            s = _get(d, path)
            if path[-1] == "name" and len(path) >= 4 and path[-2] == "md" and path[-4] in ("tests", "suites"):
                # node names: towards a short one of the same kind (dotted stays dotted), unique among the siblings
                sibs = {x["md"]["name"] for k, x in enumerate(_get(d, path[:-3])) if k != path[-3]}
                for cand in (["a.b", "c.d", "e.f"] if "." in s else ["a", "b", "c"]):
                    if len(cand) < len(s) and cand not in sibs:
                        c = copy.deepcopy(d)
                        _set(c, path, cand)
                        yield c
                        break
                continue
            if path[-1] == "name" or (len(path) >= 2 and path[-2] in ("props", "info") and path[-1] == 0):
                continue        # keep keys (uniqueness)
            if len(s) > 1:
                for cand in {s[: len(s) // 2], s[len(s) // 2:], s[0], s[-1]}:
                    if cand != s:
                        c = copy.deepcopy(d)
                        _set(c, path, cand)
                        yield c
            elif s not in ("a", ""):
                c = copy.deepcopy(d)
                _set(c, path, "a")
                yield c

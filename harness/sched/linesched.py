"""
Line-level cooperative scheduler (`threading.settrace`) — pre-emption INSIDE chosen source files.

Every thread started while the scheduler is installed gets a trace function; it is only active in frames
whose code object belongs to one of the `files` (e.g. /repo/lemoncheesecake/session.py, reporting/writer.py).
Inside those frames every executed source line is a *yield point*: exactly one thread at a time holds the
baton and may execute traced lines; at a yield point the baton may be handed to another thread that is
parked at one of its own yield points, chosen by the strategy:

    "random"     seeded: switch with probability `p` to a uniformly chosen parked thread
    "priority"   PCT-style: every thread gets a seeded random priority on first sight; the parked/running
                 thread of highest priority runs; at `depth` seeded change points (counted in yield points)
                 the running thread's priority drops below every other one
    "sticky"     never pre-empt voluntarily (baseline: switches only when a thread leaves traced code)

A thread that leaves traced code (outermost traced frame returns) or blocks on an instrumented lock
(`SchedLock`) gives the baton away.  Threads outside traced code run freely.

TRAP (cost 20 minutes during design): the traced file set must NOT contain this module — tracing the
scheduler's own code deadlocks under its condition lock.  The global trace function therefore only ever
returns a local trace function for frames of `files`, and `files` is checked at construction.  Every wait
has a time-out (a parked thread whose baton never arrives steals it after `steal_after` seconds), so a
scheduling mistake costs time, never a hang; callers still wrap whole experiments in a hard time-out.

`trace` (optional): list receiving `(thread tag, filename, lineno)` for every executed traced line, in the
global order in which the baton holders executed them.
"""
import os
import sys
import threading
import time

_THIS = os.path.abspath(__file__).replace(".pyc", ".py")


class LineScheduler:
    def __init__(self, files, rng, strategy="random", p=0.35, depth=3, steal_after=0.05, record=None,
                 only_funcs=None, tag_of=None, max_points=200000, rendezvous=0, rendezvous_timeout=2.0):
        self.files = {os.path.abspath(f) for f in files}
        assert _THIS not in self.files, "the scheduler must not trace its own module"
        self.rng = rng
        self.strategy = strategy
        self.p = p
        self.steal_after = steal_after
        self.record = record
        self.only_funcs = set(only_funcs) if only_funcs else None
        self.tag_of = tag_of or (lambda th: th.name)
        self.lock = threading.Lock()
        self.current = None            # thread holding the baton
        self.parked = {}               # thread -> Event
        self.depth_of = {}             # thread -> nesting of traced frames
        self.prio = {}
        self.points = 0
        self.switches = 0
        self.steals = 0
        self.max_points = max_points
        self.change_points = sorted(rng.randrange(1, 400) for _ in range(depth)) if strategy == "priority" else []
        self.low = 0
        self.enabled = False
        self._old = None
        # optional: nobody passes its FIRST yield point before `rendezvous` threads have reached theirs (short pieces of
        # traced code would otherwise be over before a second thread arrives, and nothing could be interleaved)
        self.rendezvous = rendezvous
        self.rendezvous_timeout = rendezvous_timeout
        self.arrived = set()

    # ---- installation ---------------------------------------------------------------------------
    def install(self):
        self._old = threading._trace_hook if hasattr(threading, "_trace_hook") else None
        self.enabled = True
        threading.settrace(self._global)

    def uninstall(self):
        self.enabled = False
        threading.settrace(self._old)
        with self.lock:
            for ev in self.parked.values():
                ev.set()
            self.parked.clear()
            self.current = None

    # ---- trace functions ------------------------------------------------------------------------
    def _global(self, frame, event, arg):
        if not self.enabled or event != "call":
            return None
        code = frame.f_code
        if code.co_filename not in self.files:
            return None
        if self.only_funcs is not None and code.co_name not in self.only_funcs:
            return None
        th = threading.current_thread()
        self.depth_of[th] = self.depth_of.get(th, 0) + 1
        return self._local

    def _local(self, frame, event, arg):
        if not self.enabled:
            return None
        th = threading.current_thread()
        if event == "line":
            self._yield_point(th, frame)
        elif event == "return":
            d = self.depth_of.get(th, 1) - 1
            self.depth_of[th] = d
            if d <= 0:
                self._leave(th)
        return self._local

    # ---- baton ----------------------------------------------------------------------------------
    def _priority(self, th):
        p = self.prio.get(th)
        if p is None:
            p = self.rng.random() + 1.0
            self.prio[th] = p
        return p

    def _pick(self, candidates):
        """choose among parked threads (list, arrival order)"""
        if self.strategy == "priority":
            return max(candidates, key=self._priority)
        return candidates[self.rng.randrange(len(candidates))]

    def _hand_over(self, to):
        self.current = to
        ev = self.parked.pop(to, None)
        if ev is not None:
            ev.set()

    def _park(self, th):
        """called with self.lock held; returns with self.lock held and th owning the baton"""
        ev = threading.Event()
        self.parked[th] = ev
        while True:
            self.lock.release()
            got = ev.wait(self.steal_after)
            self.lock.acquire()
            if not self.enabled:
                self.parked.pop(th, None)
                return
            if self.current is th:
                self.parked.pop(th, None)
                return
            if got:
                ev.clear()
            if not got:
                # nobody gave us the baton in time: the holder is blocked outside our control or left
                if self.current is None or self.current not in self.parked:
                    self.steals += 1
                    self.parked.pop(th, None)
                    self.current = th
                    return

    def _arrive(self, th):
        """first yield point of a thread under `rendezvous`: the first arriver takes the baton and waits until the other
        `rendezvous - 1` threads are parked at their first yield point (they park in `_yield_point`, not holding the baton)"""
        with self.lock:
            self.arrived.add(th)
            if self.current is None:
                self.current = th
            holder = self.current is th
        if holder:
            deadline = time.time() + self.rendezvous_timeout
            while self.enabled and time.time() < deadline:
                with self.lock:
                    if len(self.parked) >= self.rendezvous - 1:
                        break
                time.sleep(0.0002)

    def _yield_point(self, th, frame):
        if self.rendezvous and th not in self.arrived:
            self._arrive(th)
        with self.lock:
            self.points += 1
            if self.points > self.max_points:
                self.enabled = False
                for ev in self.parked.values():
                    ev.set()
                return
            if self.current is None:
                self.current = th
            if self.current is not th:
                self._park(th)
            # th holds the baton
            if self.record is not None:
                self.record.append((self.tag_of(th), frame.f_code.co_filename, frame.f_lineno, frame.f_code.co_name))
            others = [t for t in self.parked if t is not th]
            if not others:
                return
            switch = False
            if self.strategy == "random":
                switch = self.rng.random() < self.p
            elif self.strategy == "priority":
                if self.change_points and self.points >= self.change_points[0]:
                    self.change_points.pop(0)
                    self.low -= 1
                    self.prio[th] = self.low
                best = max(others, key=self._priority)
                switch = self._priority(best) > self._priority(th)
            if switch:
                to = self._pick(others)
                self.switches += 1
                self._hand_over(to)
                self._park(th)
                if self.record is not None:
                    self.record.append((self.tag_of(th), "<resume>", frame.f_lineno, frame.f_code.co_name))

    def _leave(self, th):
        with self.lock:
            if self.current is th:
                others = list(self.parked)
                if others:
                    self._hand_over(self._pick(others))
                else:
                    self.current = None

    def give_up(self, th=None):
        """the baton holder is about to block on something the scheduler does not see"""
        self._leave(th or threading.current_thread())


class SchedLock:
    """Drop-in replacement of a `threading.Lock` used by traced code: a thread that would block gives the
    baton away first, so the lock holder (possibly parked at a yield point) can run and release it."""

    def __init__(self, sched, inner=None, on_acquire=None, on_release=None):
        self.sched = sched
        self.inner = inner or threading.Lock()
        self.on_acquire = on_acquire
        self.on_release = on_release

    def acquire(self, blocking=True, timeout=-1):
        if self.inner.acquire(False):
            ok = True
        elif not blocking:
            return False
        else:
            self.sched.give_up()
            ok = self.inner.acquire(True, timeout)
        if ok and self.on_acquire:
            self.on_acquire()
        return ok

    def release(self):
        if self.on_release:
            self.on_release()
        self.inner.release()

    def locked(self):
        return self.inner.locked()

    def __enter__(self):
        self.acquire()
        return self

    def __exit__(self, *a):
        self.release()


def run_with_timeout(fn, seconds):
    """run fn() in a daemon thread; -> (finished, result, exception)"""
    box = {}

    def target():
        try:
            box["r"] = fn()
        except BaseException as e:  # noqa
            box["e"] = e
    th = threading.Thread(target=target, daemon=True, name="lccverif-runner")
    th.start()
    th.join(seconds)
    if th.is_alive():
        return False, None, None
    return True, box.get("r"), box.get("e")

"""
Line-level cooperative scheduler for the C15 factory stream (`sys.settrace`, one traced file).

Every participating thread installs `LineSched.tracer` with `sys.settrace`.  The tracer only follows
frames whose code object lives in ONE file (`lemoncheesecake/helpers/threading.py` of the tree under
test); at every `line` event of such a frame the thread reaches a scheduling point: with probability
`switch` the seeded PRNG picks the thread that runs next among the participants that have not finished,
and the current thread parks until it is picked again.  Exactly one participant runs at a time, so the
interleaving of the source lines of `get_object` is decided by the seed and not by the OS: a second
thread's slot read lands between another thread's `setup_object` call and its slot write / append as
often as the PRNG says.

Rules learnt the hard way (DESIGN 2.4): the traced file set must NOT contain this module (a tracer that
traces its own condition-variable code dead-locks), and every wait has a hard time-out — on expiry the
scheduler declares itself `broken`, releases everybody and the run continues unscheduled.
"""
import sys
import threading


class LineSched:
    def __init__(self, traced_file, rng, participants, switch=0.6, timeout=5.0):
        assert traced_file != __file__
        self.file = traced_file
        self.rng = rng
        self.switch = switch
        self.timeout = timeout
        self.cv = threading.Condition()
        self.participants = list(participants)
        self.arrived = set()
        self.active = set(participants)
        self.current = None
        self.broken = False
        self.points = 0
        self.switches = 0
        self._tags = {}

    # ---- tracer ------------------------------------------------------------------------------
    def tracer(self, frame, event, arg):
        if event == "call" and frame.f_code.co_filename == self.file:
            return self._local
        return None

    def _local(self, frame, event, arg):
        if event == "line":
            tag = self._tags.get(threading.get_ident())
            if tag is not None:
                self.point(tag)
        return self._local

    # ---- protocol of a participating thread ---------------------------------------------------
    def enter(self, tag):
        """Call first in the thread: parks until every participant has arrived and this one is picked."""
        self._tags[threading.get_ident()] = tag
        with self.cv:
            self.arrived.add(tag)
            if len(self.arrived) == len(self.participants) and self.current is None:
                self.current = self.rng.choice(sorted(self.active))
                self.cv.notify_all()
            self._park(tag)
        sys.settrace(self.tracer)

    def leave(self, tag):
        """Call last in the thread (in a `finally`)."""
        sys.settrace(None)
        with self.cv:
            self.active.discard(tag)
            if self.current == tag:
                self.current = self.rng.choice(sorted(self.active)) if self.active else None
            self.cv.notify_all()
        self._tags.pop(threading.get_ident(), None)

    def point(self, tag):
        with self.cv:
            if self.broken:
                return
            self.points += 1
            if self.rng.random() < self.switch and len(self.active) > 1:
                nxt = self.rng.choice(sorted(self.active))
                if nxt != tag:
                    self.switches += 1
                    self.current = nxt
                    self.cv.notify_all()
            self._park(tag)

    def _park(self, tag):
        # caller holds self.cv
        while self.current != tag and not self.broken:
            if not self.cv.wait(self.timeout):
                self.broken = True
                self.cv.notify_all()

"""C09 — saved reports load back unchanged (JSON and XML) (models M10 `Serial` + `JsonFile` + `Store`, accessors of M4).

Streams
  C09.json      one save + load with the JSON backend: every option combination of `JsonBackend` (JavaScript prefix or not, pretty or
                compact), `backend.save_report` or `report.bind(); report.save()`, `backend.load_report` or the format-detecting
                `load_report`; texts of every class, incl. texts QUOTING the file formats (`var reporting_data = `, `<?xml …`) and
                split surrogate pairs; the start of the real file against `JsonFile.frame` / `unframe`
  C09.xml       the same with the XML backend (D8 classes isolated), JSON-loaded = XML-loaded
  C09.seq       ONE live report saved, modified in place (finished and already saved tests included) and saved again, several times,
                with either backend, any options, the same or another path, the same or a fresh backend instance; every load must
                give the report as it was at the last save to that path (model `Store.run`)
  C09.dir       a report saved INTO a directory (any name, sibling directories holding older reports, other content; $TMPDIR and the
                report directory on the same or on another file system) and loaded back THROUGH the directory (model `DirStore`)
  C09.etnorm    the XML text layer against `Serial.etNorm`
  C09.jsontext  `json.dumps` against `JsonFile.jsonEscape`, the codecs against `JsonFile.encodable`
  C09.time      the ISO-8601 millisecond text layer
"""
import copy
import datetime
import math
import os
import shutil
import tempfile

import common as C
from gen import reports as R

PROPERTY = "C09"
LEAN_MODULES = ["LccModel.Props.C09", "LccModel.Props.C09Dir"]
PROPS_FILES = ["LccModel/Props/C09.lean", "LccModel/Props/C09Dir.lean"]
NAMESPACES = {"LccModel/Props/C09.lean": "LccModel.C09", "LccModel/Props/C09Dir.lean": "LccModel.C09"}
DRIVER = "drivers/C09.lean"
TRUSTED_BASE = [
    "Lean 4.33.0 kernel; axioms of the property theorems ⊆ {propext, Classical.choice, Quot.sound}",
    "hand-written model LccModel/Model/Serial.lean of reporting/backends/json_.py and xml.py (serialize/unserialize pairs, field by field) "
    "and the accessors of report.py in LccModel/Model/Writer.lean (get_tests/get_suites: stable sort by rank); Model/JsonFile.lean "
    "(JsonBackend options, JavaScript prefix written / stripped at offset 0, ensure_ascii escaping, codec encodability); Model/Store.lean "
    "(a live report saved, modified and saved again: files hold serialised values, loads read them back); Model/DirStore.lean (report "
    "directories: lookup by name equality, entries in os.listdir order, first loadable entry, atomic save = temporary file beside the target + "
    "os.replace that fails across devices)",
    "text layers are parameters of the model, each validated by its own stream and not proved: json.dumps/json.loads = identity on JSON "
    "values (C09.json), ET.tostring/ET.parse = etNorm (C09.etnorm), float→ms rounding and ISO-8601 text (C09.time)",
    "correspondence harness harness/props/c09.py + harness/gen/reports.py (generator, builder to real objects, canonical form)",
    "Lean String holds scalar values only: a lone surrogate U+D800+k travels as U+10F800+k; genuine characters of U+10F800..U+10FFFF "
    "are never generated",
]
ASSUMPTIONS = [
    "times of a report are non-negative and below 2**33 s (year 2242, see TMAX_MS); the model's times are integers of milliseconds (floats that are exact ms "
    "multiples on the real side); rounding of arbitrary floats to ms is the trusted parameter checked by C09.time",
    "statuses are the four of Result.STATUSES or None, log levels the four of Log.LEVEL_*; test names are unique within a suite and "
    "property keys within a node (Python dicts)",
    "reports without a start time on some item (not producible by the reporting API) are outside the property: the XML serializer "
    "raises TypeError on them; the model predicts it, the oracle does not count it",
    "the locale encoding used by open(path, 'w') is UTF-8 (other locales: stream C10.locale)",
    "the JSON text layer is the identity on every str except one holding a high surrogate immediately followed by a low surrogate as two "
    "code points (open finding C09/json/split-surrogate-pair-merged); the model's input is the str as JSON spells it (merge_pairs)",
    "modifications of a live report between two saves go through the attributes / methods of the report objects (tags, links, properties, "
    "status, status_details, end_time, add_step, add_log, add_test, add_info, title, description, log message); the description the "
    "oracle uses and the live objects are checked to agree after every modification (canon_report)",
]
RULE = ("a generated report tree saved and loaded with the real backend (JSON: every combination of javascript_compatibility / "
        "pretty_formatting, backend.save_report or report.save(), backend.load_report or the format-detecting load_report); non-trivial = "
        "at least 2 results and (a string from a non-plain class or an unfinished item); C09.seq: non-trivial = a successful save, then a "
        "modification of the live objects, then another successful save; C09.jsontext: a string json.dumps has to escape; "
        "C09.dir: non-trivial = a successful save into a directory with siblings, or with a special name, or with $TMPDIR moved; "
        "distinct = hash of the case")
EXPLANATION = ("Round-trip theorems for every report (JSON: unconditional on representable reports; XML: under the decidable guard "
               "xmlSafe, with refutation theorems for each D8 class) proved in Lean; the models are tied to json_.py / xml.py by saving "
               "and loading generated reports with the real backends and comparing the loaded object graph (or the failure class) with "
               "the model's prediction; etNorm, the JSON escaping / encodability and the time text layer have their own differential "
               "streams; the JSON file layer (options, prefix) is a theorem over every option combination and every text, its hypotheses "
               "checked on every real file; sequences save / modify / save on the same live objects are a simulation theorem "
               "(Store.run = Store.specRun) and the stream C09.seq; the directory form of load_report and the atomic save (directory names, "
               "siblings, other content, place of the temporary directory) are theorems over Model/DirStore.lean and the stream C09.dir.")

# Times are taken below 2**33 s (year 2242): up to there the spacing of doubles is below 1 µs, so `utcfromtimestamp`'s rounding to
# microseconds recovers the exact millisecond before `isoformat(timespec="milliseconds")` TRUNCATES; beyond, a millisecond can be
# lost (253402300799.999 s is rendered …59.998Z).  Out of the property's practical domain; recorded in design.d/C09.md.
TMAX_MS = 2 ** 33 * 1000


def count_results(d):
    return sum(1 for _ in R.iter_results(d))


def has_unfinished(d):
    if d["end"] is None:
        return True
    for res in R.iter_results(d):
        if res["end"] is None or any(st["end"] is None for st in res["steps"]):
            return True
    return any(s["end"] is None for s in R.iter_suites(d["suites"]))


def none_text_positions(c):
    """mandatory text fields that hold None in a canonical report"""
    out = []
    if c["title"] is None:
        out.append("title")
    out += ["info value" for k, v in c["info"] if v is None]

    def md(m):
        out.extend("tag" for t in m["tags"] if t is None)
        out.extend("property value" for k, v in m["props"] if v is None)
        out.extend("link url" for u, n in m["links"] if u is None)

    def res(r):
        if r is None:
            return
        for st in r["steps"]:
            for e in st["entries"]:
                if e["k"] == "log" and e["msg"] is None:
                    out.append("log message")
                if e["k"] == "att" and e["file"] is None:
                    out.append("attachment filename")
                if e["k"] == "url" and e["url"] is None:
                    out.append("url")
    res(c["setup"])
    res(c["teardown"])
    for s in R.iter_suites(c["suites"]):
        md(s["md"])
        res(s["setup"])
        res(s["teardown"])
        for t in s["tests"]:
            md(t["md"])
            res(t["res"])
    return out


def first_diff(a, b, path=""):
    """first differing leaf of two normal forms: (path, a_leaf, b_leaf)"""
    if type(a) != type(b) or isinstance(a, (str, int, float, bool, type(None))):
        return None if a == b else (path, a, b)
    if isinstance(a, dict):
        for k in sorted(set(a) | set(b)):
            if k not in a or k not in b:
                return (path + "/" + k, a.get(k, "<absent>"), b.get(k, "<absent>"))
            d = first_diff(a[k], b[k], path + "/" + k)
            if d:
                return d
        return None
    if isinstance(a, list):
        if len(a) != len(b):
            return (path + "/len", len(a), len(b))
        for i, (x, y) in enumerate(zip(a, b)):
            d = first_diff(x, y, path + "/%d" % i)
            if d:
                return d
    return None


def all_diffs(a, b, path="", out=None, limit=50):
    out = [] if out is None else out
    if len(out) >= limit:
        return out
    if type(a) != type(b) or isinstance(a, (str, int, float, bool, type(None))):
        if a != b:
            out.append((path, a, b))
        return out
    if isinstance(a, dict):
        for k in sorted(set(a) | set(b)):
            if k not in a or k not in b:
                out.append((path + "/" + k, a.get(k, "<absent>"), b.get(k, "<absent>")))
            else:
                all_diffs(a[k], b[k], path + "/" + k, out, limit)
        return out
    if len(a) != len(b):
        out.append((path + "/len", len(a), len(b)))
        return out
    for i, (x, y) in enumerate(zip(a, b)):
        all_diffs(x, y, path + "/%d" % i, out, limit)
    return out


def classify_xml_diff(path, orig, got):
    """the D8 class of one differing leaf (original vs XML-loaded)"""
    last = path.rsplit("/", 1)[-1]
    if orig == "" and got is None:
        if last == "details" and "/entries/" not in path:
            return "C09/xml/empty-status-details-loads-None"
        if "/links/" in path and last == "1":
            return "C09/xml/empty-link-name-loads-None"
        return "C09/xml/empty-text-loads-None"
    if isinstance(orig, str) and isinstance(got, str) and "\r" in orig and got == orig.replace("\r\n", "\n").replace("\r", "\n"):
        return "C09/xml/cr-becomes-lf"
    return "C09/xml/field-changed"


def xml_failures(d, o, what="XML round trip"):
    """the property on one XML save+load outcome `o` of the report description `d`, classified per D8 class"""
    fails = []
    missing_start = d["start"] is None or any(s["start"] is None for s in R.iter_suites(d["suites"])) or any(
        r["start"] is None or any(st["start"] is None for st in r["steps"]) for r in R.iter_results(d))
    if o["outcome"] == "save-error":
        if o["class"] == "UnicodeEncodeError":
            fails.append(C.Failure("C09/xml/lone-surrogate-save-fails", "XML save raised UnicodeEncodeError"))
        elif o["class"] == "TypeError" and missing_start:
            pass    # not producible by the reporting API (see ASSUMPTIONS)
        else:
            fails.append(C.Failure("C09/xml/save-raised-" + o["class"], f"XML save raised {o['class']}"))
        return fails
    if o["outcome"] == "parse-error":
        return [C.Failure("C09/xml/non-xml-char-unloadable", "the saved XML report cannot be loaded: " + o.get("message", ""))]
    exp = R.nf_of_desc(d)
    sigs = []
    for p, a, b in all_diffs(exp, o["nf"]):
        s = classify_xml_diff(p, a, b)
        if s not in sigs:
            sigs.append(s)
            fails.append(C.Failure(s, f"{what} changed {p}: {a!r} -> {b!r}"))
    return fails


def merge_pairs(s):
    """what the JSON text layer does to a str: a high surrogate immediately followed by a low surrogate (two code points)
    is written `\\uD83D\\uDE00`, which IS the JSON spelling of one astral character — and is read back as that character"""
    if not isinstance(s, str):
        return s
    out, i = [], 0
    while i < len(s):
        c = ord(s[i])
        if 0xD800 <= c <= 0xDBFF and i + 1 < len(s) and 0xDC00 <= ord(s[i + 1]) <= 0xDFFF:
            out.append(chr(0x10000 + ((c - 0xD800) << 10) + (ord(s[i + 1]) - 0xDC00)))
            i += 2
        else:
            out.append(s[i])
            i += 1
    return "".join(out)


def merge_pairs_deep(x):
    if isinstance(x, str):
        return merge_pairs(x)
    if isinstance(x, list):
        return [merge_pairs_deep(v) for v in x]
    if isinstance(x, dict):
        return {k: (v if k in R._ENUM_KEYS else merge_pairs_deep(v)) for k, v in x.items()}
    return x


def json_failures(d, o, what="JSON round trip"):
    if o["outcome"] != "ok":
        return [C.Failure("C09/json/" + o["outcome"], f"JSON save/load failed: { {k: v for k, v in o.items() if k != 'head'} }")]
    fails, sigs = [], set()
    for p, a, b in all_diffs(R.nf_of_desc(d), o["nf"]):
        sig = "C09/json/split-surrogate-pair-merged" if isinstance(a, str) and isinstance(b, str) and a != b and merge_pairs(a) == b \
            else "C09/json/field-changed"
        if sig not in sigs:
            sigs.add(sig)
            fails.append(C.Failure(sig, f"{what} changed {p}: {a!r} -> {b!r}"))
    return fails


class _SaveLoad(C.Stream):
    backend = None
    fname = None
    chunk = 40

    def setup(self, ctx):
        self.dir = tempfile.mkdtemp(prefix="lccverif-c09-")

    def teardown(self, ctx):
        shutil.rmtree(self.dir, ignore_errors=True)

    def save_load(self, backend, fname, report, via="backend", how="backend"):
        """-> {"outcome": ok|save-error|load-error, ...} observed on the real backend.
        how: the save goes through `backend.save_report(path, report)` or `report.bind(backend, path); report.save()`;
        via: the load goes through `backend.load_report(path)` or the format-detecting `lemoncheesecake.reporting.load_report`"""
        from lemoncheesecake.exceptions import ReportLoadingError
        path = os.path.join(getattr(self, "dir", None) or tempfile.gettempdir(), fname)
        if not getattr(self, "dir", None):
            self.dir = tempfile.mkdtemp(prefix="lccverif-c09-")
            path = os.path.join(self.dir, fname)
        try:
            if how == "report.save":
                report.bind(backend, path)
                report.save()
            else:
                backend.save_report(path, report)
        except (TypeError, UnicodeEncodeError, ValueError) as e:
            return {"outcome": "save-error", "class": type(e).__name__}
        out = {}
        try:
            with open(path, "r", encoding="utf-8", errors="surrogateescape", newline="") as fh:
                out["head"] = [ord(c) for c in fh.read(64)]
        except OSError:
            out["head"] = None
        try:
            if via == "loader":
                from lemoncheesecake.reporting import load_report
                loaded = load_report(path)
            else:
                loaded = backend.load_report(path)
        except ReportLoadingError as e:
            return dict(out, outcome="parse-error", message=str(e)[:80])
        return dict(out, outcome="ok", report=R.canon_report(loaded), nf=R.nf_report(loaded))

    def nontrivial(self, case, obs):
        d = case["report"]
        return count_results(d) >= 2 and (bool(d.get("_classes")) or has_unfinished(d) or
                                          any(k != "plain" for k in self._classes(d)))

    @staticmethod
    def _classes(d):
        out = set()
        for pos, s in R.all_strings(d):
            if any(q in s for q in R.FORMAT_QUOTES):
                out.add("format-quote")
            if merge_pairs(s) != s:
                out.add("split-pair")
            if s == "":
                out.add("empty")
            elif "\r" in s:
                out.add("cr")
            elif any(ord(c) < 0x20 and c not in "\t\n\r" for c in s) or "￾" in s or "￿" in s:
                out.add("nonxml")
            elif any(0xD800 <= ord(c) <= 0xDFFF for c in s):
                out.add("surrogate")
            elif any(ord(c) > 0xFFFF for c in s):
                out.add("astral")
            elif any(ord(c) > 0x7F for c in s):
                out.add("non-ascii")
            elif s != s.strip() or "\n" in s:
                out.add("blanks")
            elif any(c in s for c in "<>&\"'"):
                out.add("markup")
        return out

    def features(self, case, obs):
        d = case["report"]
        f = ["str:" + c for c in sorted(self._classes(d))]
        f.append("unfinished" if has_unfinished(d) else "finished")
        f.append("outcome:" + obs[self.key]["outcome"])
        o = case.get("opts")
        if o:
            f.append("json-opts:jc=%d,pretty=%d" % (o["jc"], o["pretty"]))
            f.append("load-via:" + case.get("via", "backend"))
            if not o["jc"] and "format-quote" in self._classes(d):
                f.append("format-quote&no-js-prefix")
        depth = max([len(p) for p in self._suite_paths(d)] or [0])
        f.append("depth=%d" % depth)
        sts = {t["res"]["status"] for t in R.iter_tests(d)}
        f += ["status:%s" % s for s in sorted(map(str, sts))]
        f += R.odd_field_features(d)
        return f

    @staticmethod
    def _suite_paths(d):
        def go(ss, pre):
            for s in ss:
                p = pre + [s["md"]["name"]]
                yield p
                yield from go(s["suites"], p)
        return list(go(d["suites"], []))

    def shrink(self, case):
        for c in R.shrink_desc(case["report"]):
            yield dict(case, report=c)
        if case.get("via", "backend") != "backend":
            yield dict(case, via="backend")
        if case.get("how", "backend") != "backend":
            yield dict(case, how="backend")
        o = case.get("opts")
        if o and o["pretty"]:
            yield dict(case, opts=dict(o, pretty=False))
        if o and not o["jc"]:
            yield dict(case, opts=dict(o, jc=True))


def text_spots(d):
    """(holder, key) of every free-text position of a description"""
    spots = []
    for res in R.iter_results(d):
        for st in res["steps"]:
            spots.append((st, "desc"))
            for e in st["entries"]:
                for k in ("msg", "desc", "details", "file", "url"):
                    if k in e:
                        spots.append((e, k))
        spots.append((res, "details"))
    for s_ in R.iter_suites(d["suites"]):
        spots.append((s_["md"], "desc"))
        for t in s_["tests"]:
            spots.append((t["md"], "desc"))
    spots.append((d, "title"))
    return spots


def plant(rng, d, cls, n=1):
    """put `n` strings of class `cls` at random text positions of `d`"""
    spots = text_spots(d)
    for _ in range(n):
        holder, k = rng.choice(spots)
        holder[k] = R.gen_string(rng, cls)
    d["_planted"] = cls


def gen_json_opts(rng):
    """the options of `JsonBackend` / `save_report_into_file` and the way the file is loaded back"""
    return ({"jc": rng.random() < 0.5, "pretty": rng.random() < 0.4},
            rng.choice(["backend", "backend", "loader"]))


def json_backend(opts):
    from lemoncheesecake.reporting import JsonBackend
    if opts is None:
        return JsonBackend()
    return JsonBackend(javascript_compatibility=opts["jc"], pretty_formatting=opts["pretty"])


class JsonStream(_SaveLoad):
    name = "C09.json"
    key = "json"
    quick_cases = 260
    thorough_cases = 6000
    quick_seconds = 22
    thorough_seconds = 300
    corpus = []     # filled below

    def gen(self, rng, i):
        mode = rng.choice(["wild", "wild", "safe", "plain"])
        odd = rng.random() < 0.35
        d = R.gen_report(rng, mode, odd=odd, none_times=0.02 if odd else 0, zero_times=0.02 if odd else 0,
                         odd_fields=rng.random() < 0.35)
        r = rng.random()
        if r < 0.3:
            plant(rng, d, "format-quote", rng.choice([1, 1, 3]))
        elif r < 0.34:
            plant(rng, d, "split-pair")
        opts, via = gen_json_opts(rng)
        return {"report": d, "opts": opts, "via": via, "how": rng.choice(["backend", "backend", "report.save"])}

    def impl(self, case):
        rep = R.build_report(R.strip_private(case["report"]))
        return {"json": self.save_load(json_backend(case.get("opts")), "report.js", rep, case.get("via", "backend"),
                                       case.get("how", "backend"))}

    def oracle(self, case, obs):
        return json_failures(case["report"], obs["json"])

    def request(self, case, obs):
        o = obs["json"]
        g = o["report"]["saving"] if o["outcome"] == "ok" else 0
        opts = case.get("opts") or {"jc": True, "pretty": False}
        # the model is on JSON values; the text layer (the parameter `jsonText`) maps a str to the JSON string it is written as:
        # the identity except on a split surrogate pair (open finding C09/json/split-surrogate-pair-merged, C09.jsontext)
        return {"op": "json", "report": R.wire(merge_pairs_deep(R.strip_private(case["report"]))), "g": g or 0, "opts": opts,
                "head": o.get("head")}

    def compare(self, case, obs, ans):
        o = obs["json"]
        if "error" in ans:
            return "model error: " + ans["error"]
        if o.get("head") is not None:
            # the file layer (Model/JsonFile.lean): what `frame opts` predicts about the start of the real file, the
            # hypothesis `hobj` of theorem json_file_roundtrip (the JSON text starts with "{"), and `unframe` on the real text
            opts = case.get("opts") or {"jc": True, "pretty": False}
            n = len("var reporting_data = ") if opts["jc"] else 0
            if not ans.get("frame_ok"):
                return "the file does not start with frame(opts, '{'): head %r" % "".join(map(chr, o["head"][:30]))
            if ans.get("unframed") != o["head"][n:]:
                return "unframe(head) differs from the head without the %d-character prefix" % n
        if "err" in ans:
            return None if o["outcome"] != "ok" else f"model predicts load error {ans['err']}, real load succeeded"
        if o["outcome"] != "ok":
            return f"real outcome {o}, model loads a report"
        m = R.unwire(ans["ok"])
        d = first_diff(o["report"], m)
        return None if d is None else f"loaded report differs from the model's at {d[0]}: real {d[1]!r} model {d[2]!r}"


class XmlStream(_SaveLoad):
    name = "C09.xml"
    key = "xml"
    quick_cases = 260
    thorough_cases = 6000
    quick_seconds = 25
    thorough_seconds = 300
    corpus = []

    def gen(self, rng, i):
        mode = rng.choice(["wild", "safe", "safe", "plain"])
        opts, via = gen_json_opts(rng)
        if mode == "wild" and rng.random() < 0.5:
            # one hostile string in an otherwise preserved report: isolates the D8 classes
            d = R.gen_report(rng, "safe", odd=False)
            self._plant(rng, d)
            return {"report": d, "opts": opts, "via": via}
        odd = rng.random() < 0.3
        d = R.gen_report(rng, mode, odd=odd, none_times=0.01 if odd else 0, zero_times=0.02 if odd else 0,
                         odd_fields=rng.random() < 0.4)
        if mode != "wild" and rng.random() < 0.3:
            plant(rng, d, "format-quote", rng.choice([1, 1, 3]))
        return {"report": d, "opts": opts, "via": via}

    @staticmethod
    def _plant(rng, d):
        cls = rng.choice(sorted(R.XML_HOSTILE))
        s = R.gen_string(rng, cls)
        spots = []
        for res in R.iter_results(d):
            for st in res["steps"]:
                spots.append((st, "desc"))
                for e in st["entries"]:
                    for k in ("msg", "desc", "details", "file", "url"):
                        if k in e:
                            spots.append((e, k))
            spots.append((res, "details"))
        for s_ in R.iter_suites(d["suites"]):
            spots.append((s_["md"], "desc"))
            for t in s_["tests"]:
                spots.append((t["md"], "desc"))
        spots.append((d, "title"))
        holder, k = rng.choice(spots)
        holder[k] = s
        d["_planted"] = cls

    def impl(self, case):
        from lemoncheesecake.reporting import XmlBackend
        desc = R.strip_private(case["report"])
        via = case.get("via", "backend")
        x = self.save_load(XmlBackend(), "report.xml", R.build_report(desc), via)
        j = self.save_load(json_backend(case.get("opts")), "report.js", R.build_report(desc), via)
        x.pop("head", None)
        if x["outcome"] == "ok":
            x["none_text"] = none_text_positions(x["report"])
        return {"xml": x, "json_nf": j.get("nf"), "json_outcome": j["outcome"]}

    def oracle(self, case, obs):
        o = obs["xml"]
        fails = xml_failures(case["report"], o)
        if o["outcome"] == "ok" and not fails and obs["json_outcome"] == "ok":
            dj = first_diff(obs["json_nf"], o["nf"])
            if dj:
                fails.append(C.Failure("C09/backends-disagree", f"JSON-loaded and XML-loaded reports differ at {dj[0]}: {dj[1]!r} vs {dj[2]!r}"))
        return fails

    def request(self, case, obs):
        o = obs["xml"]
        g = o["report"]["saving"] if o["outcome"] == "ok" else 0
        return {"op": "xml", "report": R.wire(case["report"]), "g": g or 0}

    def compare(self, case, obs, ans):
        o = obs["xml"]
        if "error" in ans:
            return "model error: " + ans["error"]
        mo = ans["outcome"]
        if o["outcome"] == "save-error":
            return None if (mo == "save-error" and ans["class"] == o["class"]) else f"real: save raised {o['class']}; model: {ans}"
        if o["outcome"] == "parse-error":
            return None if mo == "parse-error" else f"real: unloadable file; model: {mo}"
        if o["none_text"]:
            if mo == "none-text":
                return None if ans["what"] in o["none_text"] else f"None text at {o['none_text']}, model says {ans['what']}"
            return f"real load has None at {o['none_text']}; model: {mo}"
        if mo != "ok":
            return f"real load succeeded; model: {ans}"
        m = R.unwire(ans["report"])
        d = first_diff(o["report"], m)
        if d is not None:
            return f"loaded report differs from the model's at {d[0]}: real {d[1]!r} model {d[2]!r}"
        # the guard: xmlSafe (and representable) must imply an unchanged report on the real code too
        if ans["safe"] and ans["repr"]:
            dd = first_diff(R.nf_of_desc(case["report"]), o["nf"])
            if dd is not None:
                return f"guard xmlSafe holds but the real round trip changed {dd[0]}"
        return None

    def features(self, case, obs):
        f = super().features(case, obs)
        if case["report"].get("_planted"):
            f.append("planted:" + case["report"]["_planted"])
        return f


# ---- etNorm ------------------------------------------------------------------------------------

def gen_elem(rng, depth=0):
    tag = rng.choice(["a", "b", "log", "step"])
    classes = R.STRING_CLASSES
    attrs = []
    for k in rng.sample(["k", "description", "name"], rng.choice([0, 1, 2])):
        attrs.append([k, R.gen_string(rng, rng.choice(classes))])
    n = 0 if depth >= 2 else rng.choice([0, 0, 1, 2, 3])
    if n == 0:
        text = rng.choice([None, R.gen_string(rng, rng.choice(classes)), R.gen_string(rng, rng.choice(classes))])
        return {"tag": tag, "attrs": attrs, "text": text, "children": []}
    return {"tag": tag, "attrs": attrs, "text": None, "children": [gen_elem(rng, depth + 1) for _ in range(n)]}


def build_elem(d):
    import xml.etree.ElementTree as ET
    e = ET.Element(d["tag"])
    for k, v in d["attrs"]:
        e.attrib[k] = v
    e.text = d["text"]
    for c in d["children"]:
        e.append(build_elem(c))
    return e


def canon_elem(e):
    kids = [canon_elem(c) for c in e]
    return {"tag": e.tag, "attrs": [[k, v] for k, v in e.attrib.items()], "text": None if kids else e.text, "children": kids}


def wire_elem(d):
    return {"tag": d["tag"], "attrs": [[k, R.wire_str(v)] for k, v in d["attrs"]], "text": R.wire_str(d["text"]),
            "children": [wire_elem(c) for c in d["children"]]}


def unwire_elem(d):
    return {"tag": d["tag"], "attrs": [[k, R.unwire_str(v)] for k, v in d["attrs"]], "text": R.unwire_str(d["text"]),
            "children": [unwire_elem(c) for c in d["children"]]}


class EtNorm(_SaveLoad):
    """validates the parameter `Serial.etNorm` against xml.etree (same pipeline as xml.py: indent, tostring, text file, parse)"""
    name = "C09.etnorm"
    quick_cases = 700
    thorough_cases = 20000
    quick_seconds = 8
    thorough_seconds = 120
    chunk = 100
    corpus = [{"elem": {"tag": "a", "attrs": [["k", "x\ry\r\nz\t\n"]], "text": "x\ry\r\nz\r", "children": []}},
              {"elem": {"tag": "a", "attrs": [], "text": "", "children": []}},
              {"elem": {"tag": "a", "attrs": [["k", ""]], "text": " ", "children": []}},
              {"elem": {"tag": "a", "attrs": [["k", "\x01"]], "text": "\ud800", "children": []}}]

    def gen(self, rng, i):
        return {"elem": gen_elem(rng)}

    def impl(self, case):
        import xml.etree.ElementTree as ET
        from lemoncheesecake.reporting.backends.xml import indent_xml
        e = build_elem(case["elem"])
        indent_xml(e)
        content = ET.tostring(e, encoding="unicode", xml_declaration=True)
        path = os.path.join(self.dir, "e.xml")
        try:
            with open(path, "w") as fh:
                fh.write(content)
        except UnicodeEncodeError:
            return {"err": "encode"}
        try:
            with open(path, "r") as fh:
                root = ET.parse(fh).getroot()
        except ET.ParseError:
            return {"err": "parse"}
        return {"ok": canon_elem(root)}

    def request(self, case, obs):
        return {"op": "etnorm", "elem": wire_elem(case["elem"])}

    def compare(self, case, obs, ans):
        if "error" in ans:
            return "model error: " + ans["error"]
        if "err" in ans or "err" in obs:
            return None if ans.get("err") == obs.get("err") else f"real {obs.get('err', 'ok')} vs model {ans.get('err', 'ok')}"
        m = unwire_elem(ans["ok"])
        d = first_diff(obs["ok"], m)
        return None if d is None else f"etNorm differs at {d[0]}: real {d[1]!r} model {d[2]!r}"

    def nontrivial(self, case, obs):
        return bool(case["elem"]["children"]) or bool(case["elem"]["attrs"])

    def features(self, case, obs):
        return ["err:" + obs["err"]] if "err" in obs else ["ok"]

    def shrink(self, case):
        for c in R.shrink_desc(case["elem"]):
            yield {"elem": c}


# ---- time text layer ---------------------------------------------------------------------------

class TimeLayer(C.Stream):
    """validates the time parameter: an exact-ms float survives format → parse unchanged and its ISO text is the
    calendar rendering of the integer ms; an arbitrary float comes back as the ms multiple nearest to it"""
    name = "C09.time"
    quick_cases = 3000
    thorough_cases = 200000
    quick_seconds = 5
    thorough_seconds = 60
    chunk = 500
    corpus = [{"ms": 0}, {"ms": 1}, {"ms": 999}, {"ms": 1000}, {"ms": R.T0}, {"ms": TMAX_MS - 1}, {"x": 1600000000.0005},
              {"x": 0.0015}, {"x": 1.0004999}, {"x": 1600000000.9995},
              # a summer and a winter instant under zones that observe daylight saving (the text is UTC whatever the zone)
              {"ms": 1783072800123, "tz": "CET-1CEST,M3.5.0,M10.5.0/3"}, {"ms": 1767225600456, "tz": "CET-1CEST,M3.5.0,M10.5.0/3"},
              {"ms": 1783072800123, "tz": "AEST-10AEDT,M10.1.0,M4.1.0/3"}, {"ms": 1767225600456, "tz": "EST5EDT,M3.2.0,M11.1.0"},
              {"x": 4253578702.2205}]     # just below a tie, where doubles are 0.48 µs apart (a past false alarm of this oracle)

    # the time zone of the PROCESS is an input: report times are UTC, nothing may depend on the local zone (POSIX TZ
    # strings, so no zone database is needed: zones with and without daylight saving, both hemispheres, odd offsets)
    ZONES = [None, "UTC0", "CET-1CEST,M3.5.0,M10.5.0/3", "EST5EDT,M3.2.0,M11.1.0", "AEST-10AEDT,M10.1.0,M4.1.0/3",
             "IST-5:30", "NST3:30NDT,M3.2.0,M11.1.0", "<+13>-13", "<-11>11"]

    def gen(self, rng, i):
        tz = rng.choice(self.ZONES) if rng.random() < 0.5 else None
        if rng.random() < 0.5:
            return {"ms": rng.choice([rng.randrange(0, TMAX_MS), R.T0 + rng.randrange(0, 10**9), rng.randrange(0, 10**6),
                                      TMAX_MS - 1 - rng.randrange(0, 10**6),
                                      # all seasons of a few years: daylight-saving periods of both hemispheres
                                      1577836800000 + rng.randrange(0, 4 * 366 * 86400 * 1000)]), "tz": tz}
        x = rng.choice([rng.uniform(0, TMAX_MS / 1000), R.T0 / 1000 + rng.uniform(0, 10**5), rng.randrange(0, 10**9) / 1000 + 0.0005])
        return {"x": x, "tz": tz}

    def impl(self, case):
        import time as _time
        from lemoncheesecake.reporting.report import format_time_as_iso8601, parse_iso8601_time
        x = case["ms"] / 1000.0 if "ms" in case else case["x"]
        old = os.environ.get("TZ")
        try:
            if case.get("tz"):
                os.environ["TZ"] = case["tz"]
                _time.tzset()
            text = format_time_as_iso8601(x)
            back = parse_iso8601_time(text)
        finally:
            if case.get("tz"):
                if old is None:
                    os.environ.pop("TZ", None)
                else:
                    os.environ["TZ"] = old
                _time.tzset()
        return {"text": text, "back": repr(back), "back_ms": repr(back * 1000), "x": repr(x)}

    def oracle(self, case, obs):
        back = float(obs["back"])
        if "ms" in case:
            ms = case["ms"]
            exp_text = (datetime.datetime(1970, 1, 1) + datetime.timedelta(milliseconds=ms)).strftime("%Y-%m-%dT%H:%M:%S.") + "%03dZ" % (ms % 1000)
            if obs["text"] != exp_text:
                return [C.Failure("C09/time/iso-text", f"{ms} ms formatted as {obs['text']}, expected {exp_text}")]
            if back != ms / 1000.0:
                return [C.Failure("C09/time/ms-not-preserved", f"{ms} ms came back as {obs['back']}")]
            return []
        x = case["x"]
        k = round(back * 1000)
        # exact arithmetic on the value of the double x (a float subtraction near 4e9 is itself off by ~5e-7):
        # the millisecond count k that came back must be a nearest integer to 1000·x (either one on a tie)
        from decimal import Decimal
        if back != k / 1000.0 or abs(Decimal(x) * 1000 - k) > Decimal("0.5"):
            return [C.Failure("C09/time/not-nearest-ms", f"{x!r} came back as {obs['back']}")]
        return []

    def nontrivial(self, case, obs):
        return True

    def features(self, case, obs):
        return ["exact-ms" if "ms" in case else "float", "tz=" + ("process-default" if not case.get("tz") else "dst" if "," in case["tz"] else "fixed-offset")]


# ---- sequences: the same live objects saved, modified, saved again --------------------------------

def _desc_suite(d, idxs):
    lst, s = d["suites"], None
    for i in idxs:
        if i >= len(lst):
            return None
        s = lst[i]
        lst = s["suites"]
    return s


def _real_suite(rep, idxs):
    lst, s = rep._suites, None
    for i in idxs:
        s = lst[i]
        lst = s._suites
    return s


def _desc_target(d, at):
    """(metadata dict or None, result dict or None) the mutation addresses; (None, None) if it does not exist (any more)"""
    if not at["suite"]:
        res = d.get(at.get("phase") or "")
        return None, res
    s = _desc_suite(d, at["suite"])
    if s is None:
        return None, None
    if at.get("test") is not None:
        if at["test"] >= len(s["tests"]):
            return None, None
        t = s["tests"][at["test"]]
        return t["md"], t["res"]
    if at.get("phase"):
        return None, s[at["phase"]]
    return s["md"], None


def _real_target(rep, at):
    if not at["suite"]:
        return None, (rep.test_session_setup if at["phase"] == "setup" else rep.test_session_teardown)
    s = _real_suite(rep, at["suite"])
    if at.get("test") is not None:
        t = list(s._tests.values())[at["test"]]
        return t, t
    if at.get("phase"):
        return None, (s.suite_setup if at["phase"] == "setup" else s.suite_teardown)
    return s, None


def apply_mutation(d, rep, m):
    """apply one modification to the description `d` and — the same one, in place, on the SAME objects — to the live report
    `rep` (None: description only).  Returns False when the target does not exist (a no-op on both sides)."""
    k = m["m"]
    if k == "title":
        d["title"] = m["s"]
        if rep is not None:
            rep.title = m["s"]
        return True
    if k == "info":
        d["info"].append([m["k"], m["v"]])
        if rep is not None:
            rep.add_info(m["k"], m["v"])
        return True
    if k == "report-end":
        d["end"] = m["t"]
        if rep is not None:
            rep.end_time = m["t"] / 1000.0
        return True
    md, res = _desc_target(d, m["at"])
    if md is None and res is None:
        return False
    node, rres = _real_target(rep, m["at"]) if rep is not None else (None, None)
    if k in ("tag", "link", "prop", "desc"):
        if md is None:
            return False
        if k == "tag":
            md["tags"].append(m["s"])
            if rep is not None:
                node.tags.append(m["s"])
        elif k == "link":
            md["links"].append([m["url"], m["name"]])
            if rep is not None:
                node.links.append((m["url"], m["name"]))
        elif k == "prop":
            for kv in md["props"]:
                if kv[0] == m["k"]:
                    kv[1] = m["v"]
                    break
            else:
                md["props"].append([m["k"], m["v"]])
            if rep is not None:
                node.properties[m["k"]] = m["v"]
        else:
            md["desc"] = m["s"]
            if rep is not None:
                node.description = m["s"]
        return True
    if k == "suite-end":
        s = _desc_suite(d, m["at"]["suite"])
        if s is None:
            return False
        s["end"] = m["t"]
        if rep is not None:
            _real_suite(rep, m["at"]["suite"]).end_time = m["t"] / 1000.0
        return True
    if k == "add-test":
        s = _desc_suite(d, m["at"]["suite"])
        if s is None or any(t["md"]["name"] == m["test"]["md"]["name"] for t in s["tests"]):
            return False
        s["tests"].append(copy.deepcopy(m["test"]))
        if rep is not None:
            _real_suite(rep, m["at"]["suite"]).add_test(R.build_test(m["test"]))
        return True
    if res is None:
        return False
    if k == "status":
        res["status"], res["details"] = m["status"], m["details"]
        if rep is not None:
            rres.status, rres.status_details = m["status"], m["details"]
    elif k == "end":
        res["end"] = m["t"]
        if res["status"] is None:
            res["status"] = m["status"]
        if rep is not None:
            rres.end_time = m["t"] / 1000.0
            rres.status = res["status"]
    elif k == "add-step":
        res["steps"].append(copy.deepcopy(m["step"]))
        if rep is not None:
            rres.add_step(R.build_step(m["step"]))
    elif k == "add-entry":
        if not res["steps"]:
            return False
        res["steps"][-1]["entries"].append(copy.deepcopy(m["entry"]))
        if rep is not None:
            rres.get_steps()[-1].add_log(R.build_entry(m["entry"]))
    elif k == "step-end":
        if not res["steps"]:
            return False
        res["steps"][-1]["end"] = m["t"]
        if rep is not None:
            rres.get_steps()[-1].end_time = m["t"] / 1000.0
    elif k == "edit-log":
        logs = [(si, ei) for si, st in enumerate(res["steps"]) for ei, e in enumerate(st["entries"]) if e["k"] == "log"]
        if not logs:
            return False
        si, ei = logs[m["i"] % len(logs)]
        res["steps"][si]["entries"][ei]["msg"] = m["s"]
        if rep is not None:
            rres.get_steps()[si].get_logs()[ei].message = m["s"]
    else:
        raise ValueError(k)
    return True


def gen_mutation(rng, d, tx, t):
    """one modification of the (current) description `d`; finished tests — what a triage / post-processing script annotates —
    are the favourite target"""
    targets = []
    for path, s in _suites_with_idx(d["suites"], []):
        targets.append(({"suite": path}, "suite", None))
        for ph in ("setup", "teardown"):
            if s[ph] is not None:
                targets.append(({"suite": path, "phase": ph}, "phase", s[ph]))
        for i, tst in enumerate(s["tests"]):
            w = 4 if tst["res"]["end"] is not None and tst["res"]["status"] is not None else 2
            targets += [({"suite": path, "test": i}, "test", tst["res"])] * w
    for ph in ("setup", "teardown"):
        if d[ph] is not None:
            targets.append(({"suite": [], "phase": ph}, "phase", d[ph]))
    r = rng.random()
    if r < 0.12 or not targets:
        return rng.choice([{"m": "title", "s": tx.s()}, {"m": "info", "k": tx.s(0.8) + str(rng.randint(0, 999)), "v": tx.s()},
                           {"m": "report-end", "t": t}])
    at, kind, res = rng.choice(targets)
    if kind == "suite":
        c = rng.choice(["tag", "link", "prop", "desc", "suite-end", "add-test", "add-test"])
        if c == "add-test":
            test = R.gen_test(rng, tx, R.Clock(rng, t), "added_%d" % rng.randint(0, 9999), rng.randint(0, 3), {}, finished=rng.random() < 0.8)
            return {"m": "add-test", "at": at, "test": test}
        if c == "suite-end":
            return {"m": "suite-end", "at": at, "t": t}
    elif kind == "phase":
        c = rng.choice(["status", "add-step", "add-entry", "end"])
    else:
        c = rng.choice(["tag", "link", "prop", "desc", "status", "status", "add-step", "add-step", "add-entry", "add-entry", "end",
                        "step-end", "edit-log"])
    if c == "tag":
        return {"m": "tag", "at": at, "s": tx.s()}
    if c == "link":
        return {"m": "link", "at": at, "url": tx.s(), "name": rng.choice([None, tx.s()])}
    if c == "prop":
        return {"m": "prop", "at": at, "k": rng.choice(["prio", "owner", tx.s(0.8)]), "v": tx.s()}
    if c == "desc":
        return {"m": "desc", "at": at, "s": tx.s()}
    if c == "status":
        return {"m": "status", "at": at, "status": rng.choice(R.STATUSES), "details": rng.choice([None, tx.s()])}
    if c == "end":
        return {"m": "end", "at": at, "t": t, "status": rng.choice(["passed", "failed"])}
    if c == "step-end":
        return {"m": "step-end", "at": at, "t": t}
    if c == "edit-log":
        return {"m": "edit-log", "at": at, "i": rng.randint(0, 5), "s": tx.s()}
    clk = R.Clock(rng, t)
    if c == "add-step":
        start = clk.tick()
        entries = [R.gen_entry(rng, tx, clk) for _ in range(rng.choice([0, 1, 2]))]
        return {"m": "add-step", "at": at, "step": {"desc": tx.s(), "start": start, "end": rng.choice([None, clk.tick()]), "entries": entries}}
    return {"m": "add-entry", "at": at, "entry": R.gen_entry(rng, tx, clk)}


def _suites_with_idx(ss, pre):
    for i, s in enumerate(ss):
        yield pre + [i], s
        yield from _suites_with_idx(s["suites"], pre + [i])


def replay_descs(case):
    """the description after each operation (pure: from the case only)"""
    d = copy.deepcopy(R.strip_private(case["report"]))
    out = []
    for op in case["ops"]:
        if op["op"] == "mut":
            apply_mutation(d, None, op)
        out.append(copy.deepcopy(d))
    return out


class SeqStream(_SaveLoad):
    """one live `Report` object graph goes through a sequence of saves (either backend, any JSON options, same or another path,
    same or a fresh backend instance, `backend.save_report` or `report.save()`), in-place modifications (of tests that were
    finished and saved already, too) and loads; every load must give the report as it was at the last save to that path"""
    name = "C09.seq"
    key = "seq"
    quick_cases = 150
    thorough_cases = 3000
    quick_seconds = 14
    thorough_seconds = 240
    chunk = 25
    corpus = []     # filled below

    def gen(self, rng, i):
        mode = rng.choice(["safe", "safe", "plain", "wild"])
        d = R.gen_report(rng, mode, max_depth=2, unfinished=0.3, odd=False)
        tx = R.Text(rng, mode)
        t = R.T0 + 10_000_000
        cur = copy.deepcopy(R.strip_private(d))
        ops, saved, stage = [], set(), 0      # stage: 0 nothing saved, 1 saved, 2 modified after a save, 3 saved again
        n = rng.randint(4, 9)
        while (len(ops) < n or stage < 3) and len(ops) < 15:
            r = rng.random()
            if not saved or r < 0.38 or (len(ops) >= n and stage == 2):
                opts, via = gen_json_opts(rng)
                path = rng.choice([0, 0, 0, 1, 2])
                ops.append({"op": "save", "backend": rng.choice(["json", "json", "xml"]), "opts": opts, "via": via, "path": path,
                            "reuse": rng.random() < 0.6, "how": rng.choice(["backend", "backend", "report.save"])})
                saved.add(path)
                stage = 1 if stage == 0 else 3 if stage == 2 else stage
            elif r < 0.85:
                t += rng.choice([1, 250, 1000, 61_003])
                m = gen_mutation(rng, cur, tx, t)
                if apply_mutation(cur, None, m):
                    ops.append(dict(m, op="mut"))
                    stage = 2 if stage == 1 else stage
            else:
                ops.append({"op": "load", "path": rng.choice(sorted(saved)), "via": rng.choice(["backend", "loader"])})
        return {"report": d, "ops": ops}

    def impl(self, case):
        from lemoncheesecake.reporting import XmlBackend, load_report
        from lemoncheesecake.exceptions import ReportLoadingError
        d = copy.deepcopy(R.strip_private(case["report"]))
        live = R.build_report(d)
        backends, last_backend, steps = {}, {}, []

        def load(path, via, be):
            fname = os.path.join(self.dir, "f%d.report" % path)
            if not os.path.exists(fname):
                return {"outcome": "no-file"}
            try:
                loaded = load_report(fname) if via == "loader" or be is None else be.load_report(fname)
            except ReportLoadingError as e:
                return {"outcome": "parse-error", "message": str(e)[:80]}
            o = {"outcome": "ok", "report": R.canon_report(loaded), "nf": R.nf_report(loaded)}
            o["none_text"] = none_text_positions(o["report"])
            return o
        for f in os.listdir(self.dir):
            if f.endswith(".report") or f.endswith(".tmp"):
                os.unlink(os.path.join(self.dir, f))
        for op in case["ops"]:
            if op["op"] == "mut":
                if not apply_mutation(d, live, op):
                    steps.append({"k": "noop"})
                    continue
                mirror = R.canon_report(live)
                mirror["saving"] = None
                if mirror != dict(d, saving=None):
                    raise C.InfraError("C09.seq: description and live objects diverge after %r: %s" % (op["m"], first_diff(d, mirror)))
                steps.append({"k": "mut"})
            elif op["op"] == "save":
                key = (op["backend"], op["opts"]["jc"], op["opts"]["pretty"])
                be = backends.get(key) if op["reuse"] else None
                if be is None:
                    be = json_backend(op["opts"]) if op["backend"] == "json" else XmlBackend()
                    backends[key] = be
                fname = os.path.join(self.dir, "f%d.report" % op["path"])
                st = {"k": "save", "saved": True}
                try:
                    if op["how"] == "report.save":
                        live.bind(be, fname)
                        live.save()
                    else:
                        be.save_report(fname, live)
                    last_backend[op["path"]] = be
                except (TypeError, UnicodeEncodeError, ValueError) as e:
                    st = {"k": "save", "saved": False, "class": type(e).__name__}
                st["stray"] = sorted(f for f in os.listdir(self.dir) if f.endswith(".tmp"))
                st["load"] = load(op["path"], op["via"], last_backend.get(op["path"]))
                steps.append(st)
            else:
                steps.append({"k": "load", "load": load(op["path"], op["via"], last_backend.get(op["path"]))})
        return {"seq": {"outcome": "ok" if all(s.get("saved", True) for s in steps) else "save-error"}, "steps": steps}

    def _expected(self, case):
        """per op: (kind of the backend whose save the file at that path comes from, description at that save) for loads"""
        descs = replay_descs(case)
        return descs

    def oracle(self, case, obs):
        descs = replay_descs(case)
        fails, at_save = [], {}          # path -> (backend kind, desc at the last SUCCESSFUL save)
        seen = set()

        def add(fs):
            for f in fs:
                if f.signature not in seen:
                    seen.add(f.signature)
                    fails.append(f)
        for i, (op, st) in enumerate(zip(case["ops"], obs["steps"])):
            if op["op"] == "mut":
                continue
            if op["op"] == "save":
                if st["saved"]:
                    at_save[op["path"]] = (op["backend"], descs[i])
                else:
                    o = {"outcome": "save-error", "class": st["class"]}
                    add(xml_failures(descs[i], o) if op["backend"] == "xml" else json_failures(descs[i], o))
                if st.get("stray"):
                    add([C.Failure("C09/seq/stray-temporary-file", "files left beside the report after save #%d: %s" % (i, st["stray"]))])
            if op["path"] not in at_save:
                continue
            kind, d = at_save[op["path"]]
            ld = st["load"]
            what = "op #%d (%s of a report saved, modified and saved again with the same live objects)" % (i, op["op"])
            if ld["outcome"] == "no-file":
                add([C.Failure("C09/seq/file-missing", "%s: no file at the path of a successful save" % what)])
            else:
                add(xml_failures(d, ld, what) if kind == "xml" else json_failures(d, ld, what))
        return fails

    def request(self, case, obs):
        descs = replay_descs(case)
        ops = []
        for i, (op, st) in enumerate(zip(case["ops"], obs["steps"])):
            if op["op"] == "mut":
                if st["k"] == "mut":
                    ops.append({"k": "set", "report": R.wire(descs[i])})
            elif op["op"] == "save":
                g = 0
                if st["saved"] and st["load"]["outcome"] == "ok":
                    g = st["load"]["report"]["saving"] or 0
                ops.append({"k": "save", "path": op["path"], "fmt": op["backend"], "jc": op["opts"]["jc"], "pretty": op["opts"]["pretty"], "g": g})
                ops.append({"k": "load", "path": op["path"]})
            else:
                ops.append({"k": "load", "path": op["path"]})
        return {"op": "seq", "report": R.wire(case["report"]), "ops": ops}

    def compare(self, case, obs, ans):
        if "error" in ans:
            return "model error: " + str(ans["error"])
        outs = list(ans["outcomes"])
        for i, (op, st) in enumerate(zip(case["ops"], obs["steps"])):
            if op["op"] == "mut":
                continue
            if op["op"] == "save":
                m = outs.pop(0)
                if st["saved"] != (m["o"] == "saved") or (not st["saved"] and m.get("class") != st["class"]):
                    return "op #%d: real save %s, model %s" % (i, "succeeded" if st["saved"] else "raised " + st["class"], m)
            m = outs.pop(0)
            d = compare_load(st["load"], m)
            if d:
                return "op #%d (%s path %d): %s" % (i, op["op"], op["path"], d)
        return None

    def nontrivial(self, case, obs):
        # a successful save, then a modification, then another successful save of the same live objects
        stage = 0
        for op, st in zip(case["ops"], obs["steps"]):
            if op["op"] == "save" and st.get("saved"):
                stage = 1 if stage == 0 else (3 if stage == 2 else stage)
            elif op["op"] == "mut" and st["k"] == "mut" and stage == 1:
                stage = 2
        return stage == 3

    def features(self, case, obs):
        f = []
        saves = [op for op in case["ops"] if op["op"] == "save"]
        f.append("saves=%d" % min(len(saves), 5))
        f.append("mutations=%d" % min(sum(1 for s in obs["steps"] if s["k"] == "mut"), 6))
        for op in case["ops"]:
            if op["op"] == "mut":
                f.append("mut:" + op["m"])
        if len({op["path"] for op in saves}) < len(saves):
            f.append("same-path-saved-again")
        if len({op["backend"] for op in saves}) > 1:
            f.append("json-and-xml-saves")
        if any(op["reuse"] for op in saves[1:]):
            f.append("backend-instance-reused")
        if any(op["how"] == "report.save" for op in saves):
            f.append("report.save()")
        if any(not op["opts"]["jc"] for op in saves if op["backend"] == "json"):
            f.append("json-without-js-prefix")
        if self.nontrivial(case, obs):
            f.append("save-modify-save")
            # a test finished at the first save and modified before a later one
            f.append("finished-test-modified-after-save" if self._finished_test_modified(case) else "other-modification")
        for st in obs["steps"]:
            if "load" in st:
                f.append("load:" + st["load"]["outcome"])
        return sorted(set(f))

    @staticmethod
    def _finished_test_modified(case):
        d = copy.deepcopy(R.strip_private(case["report"]))
        saved = False
        for op in case["ops"]:
            if op["op"] == "save":
                saved = True
            elif op["op"] == "mut" and saved and op.get("at", {}).get("test") is not None and op["m"] != "end":
                md, res = _desc_target(d, op["at"])
                if res is not None and res["end"] is not None and res["status"] is not None:
                    return True
            if op["op"] == "mut":
                apply_mutation(d, None, op)
        return False

    def shrink(self, case):
        ops = case["ops"]
        for i in range(len(ops)):
            yield dict(case, ops=ops[:i] + ops[i + 1:])
        for c in R.shrink_desc(case["report"]):
            yield dict(case, report=c)
        for i, op in enumerate(ops):
            if op["op"] == "save":
                for k, v in (("reuse", False), ("how", "backend"), ("via", "backend")):
                    if op[k] != v:
                        yield dict(case, ops=ops[:i] + [dict(op, **{k: v})] + ops[i + 1:])
                if op["opts"]["pretty"] or not op["opts"]["jc"]:
                    yield dict(case, ops=ops[:i] + [dict(op, opts={"jc": True, "pretty": False})] + ops[i + 1:])


def compare_load(o, m):
    """one real load observation against one outcome of `Store.run`"""
    mo = m["o"]
    if o["outcome"] == "no-file":
        return None if mo == "no-file" else "real: no file; model: %s" % mo
    if o["outcome"] == "parse-error":
        return None if mo == "parse-error" else "real: unloadable file; model: %s" % mo
    if o.get("none_text"):
        if mo == "none-text":
            return None if m["what"] in o["none_text"] else "None text at %s, model says %s" % (o["none_text"], m["what"])
        return "real load has None at %s; model: %s" % (o["none_text"], mo)
    if mo != "loaded":
        return "real load succeeded; model: %s" % {k: v for k, v in m.items() if k != "report"}
    d = first_diff(o["report"], R.unwire(m["report"]))
    return None if d is None else "loaded report differs from the model's at %s: real %r model %r" % d


# ---- the JSON text layer: ensure_ascii escaping, encodability -----------------------------------

class JsonText(C.Stream):
    """validates `JsonFile.jsonEscape` against `json.dumps` (what json_.py calls) and `JsonFile.writeOk` against the codecs"""
    name = "C09.jsontext"
    quick_cases = 1500
    thorough_cases = 40000
    quick_seconds = 4
    thorough_seconds = 60
    chunk = 300
    corpus = [{"s": ""}, {"s": "\"\\/\b\f\n\r\t"}, {"s": "\x00\x1f\x7f\x80\xff"}, {"s": "\ud800"}, {"s": "\udfff\ud800"},
              {"s": "\U00010000\U0010ffff"}, {"s": "😀"}, {"s": "var reporting_data = "}]

    def gen(self, rng, i):
        if rng.random() < 0.5:
            return {"s": R.gen_string(rng, rng.choice(R.STRING_CLASSES + ["format-quote"]))[:200]}
        n = rng.randint(1, 12)
        pick = lambda: rng.choice([rng.randrange(0, 0x80), rng.randrange(0x80, 0x800), rng.randrange(0x800, 0xD800), rng.randrange(0xD800, 0xE000),
                                   rng.randrange(0xE000, 0x10000), rng.randrange(0x10000, 0x110000), rng.choice([0x22, 0x5C, 0x2F, 0x7F, 0xFFFE, 0xFFFF])])
        return {"s": "".join(chr(pick()) for _ in range(n))}

    def impl(self, case):
        import json
        s = case["s"]
        out = json.dumps(s)
        enc = {}
        for name, codec in (("ascii", "ascii"), ("latin1", "latin-1"), ("utf8", "utf-8")):
            try:
                s.encode(codec)
                enc[name] = True
            except UnicodeEncodeError:
                enc[name] = False
        return {"out": [ord(c) for c in out[1:-1]], "quoted": out[:1] == '"' and out[-1:] == '"', "back": "same" if json.loads(out) == s else "merged" if json.loads(out) == merge_pairs(s) else "other", "enc": enc}

    def oracle(self, case, obs):
        if obs["back"] == "same":
            return []
        if obs["back"] == "merged":
            return [C.Failure("C09/json/split-surrogate-pair-merged", "json.loads(json.dumps(s)) merges the split surrogate pair of %r" % case["s"])]
        return [C.Failure("C09/jsontext/not-identity", "json.loads(json.dumps(s)) != s for %r" % case["s"])]

    def request(self, case, obs):
        return {"op": "escape", "s": [ord(c) for c in case["s"]]}

    def compare(self, case, obs, ans):
        if "error" in ans:
            return "model error: " + str(ans["error"])
        if ans["out"] != obs["out"] or not obs["quoted"]:
            return "json.dumps(%r) = %r, model %r" % (case["s"], "".join(map(chr, obs["out"])), "".join(map(chr, ans["out"])))
        for k in ("ascii", "latin1", "utf8"):
            if ans[k] != obs["enc"][k]:
                return "encodable(%s, %r): codec %s, model %s" % (k, case["s"], obs["enc"][k], ans[k])
        return None

    def nontrivial(self, case, obs):
        return any(ord(c) > 0x7E or ord(c) < 0x20 or c in '"\\' for c in case["s"])

    def features(self, case, obs):
        s = case["s"]
        f = []
        if any(0xD800 <= ord(c) <= 0xDFFF for c in s):
            f.append("lone-surrogate")
        if any(ord(c) > 0xFFFF for c in s):
            f.append("astral")
        if merge_pairs(s) != s:
            f.append("split-surrogate-pair")
        f += ["encodable:%s=%s" % (k, v) for k, v in obs["enc"].items()]
        return f


# ---- the directory form: save INTO a report directory, load back THROUGH the directory -----------

# names a report directory may legitimately have (`--report-dir`, a copy made by a file manager, a CI job name …); the universe of
# project-directory names of C19 plus names whose metacharacters form complete glob patterns
def _dir_names():
    from props.c19 import DIR_NAMES
    return sorted(set(DIR_NAMES) | {"report", "report[1]", "report-*", "nightly [x86] run", "re[a-z]ort", "[!r]eport", "r?port", "***", "?",
                                    "[", "]", "a[", "[]]", "[[]", "report[", "rep\\*", "{report}", "report-[0-9]", "run #12 (retry)"})


def pattern_instances(rng, name, n=3):
    """names of SIBLING directories: some that the name, read as a glob pattern, would match; some unrelated"""
    import fnmatch
    import re as _re
    cands = set()
    for _ in range(12):
        c = _re.sub(r"\[!?([^\]]+)\]", lambda m: rng.choice([ch for ch in m.group(1) if ch != "-"] or ["x"]) if not m.group(0).startswith("[!")
                    else rng.choice("xyz"), name)
        c = "".join(rng.choice(["", "old", "-2", "x"]) if ch == "*" else rng.choice("xs1e") if ch == "?" else ch for ch in c)
        cands.add(c)
    cands.update(["report1", "report-old", "nightly 8 run", "whats", "reaort", "report-7"])
    hits = sorted(c for c in cands if c and c != name and "/" not in c and c not in (".", "..") and fnmatch.fnmatchcase(c, name))
    out = rng.sample(hits, min(len(hits), n))
    out += rng.sample(["other", name + "2", "x" + name, "report", "reports"], rng.choice([0, 1, 2]))
    return sorted({c for c in out if c != name})


FOREIGN_KIND = "other"       # was "hostile" until fix 0d2e8ed (D48, fixes/R5C-foreign-file-in-report-dir-crashes-load.diff) was in /repo
DIR_EXTRAS = {          # other legitimate content of a report directory; none of it is a report
    "attachments": "subdir", "report.html": "other", "notes.txt": "other", ".lock": "other", "report.js.4242.tmp": "other",
    "empty": "other", "screenshots": "subdir",
    # files on which a backend raises something else than ReportLoadingError (open finding
    # C09/roundtrip/directory-load-crashes-on-foreign-file; after fixes/R5C-foreign-file-in-report-dir-crashes-load.diff: kind "other")
    "run.pid": FOREIGN_KIND, "core": FOREIGN_KIND,
}
HOSTILE_EXTRAS = ["core", "run.pid"]
BENIGN_EXTRAS = sorted(k for k in DIR_EXTRAS if k not in HOSTILE_EXTRAS)
_EXTRA_TEXT = {"report.html": "<html><body><script src='report.js'></script></body></html>\n", "notes.txt": "see ticket 1234\n", ".lock": "pid 4242\n",
               "report.js.4242.tmp": 'var reporting_data = {"title": "cut in the mid', "empty": "",
               "run.pid": "4242\n",                    # a pid / counter file: its text is a JSON document (a number)
               "core": b"\x7fELF\xff\xfe\x00\x80"}     # not UTF-8 text


def other_filesystem(base):
    """a writable directory on ANOTHER file system than `base` (compares st_dev), or (None, reason)"""
    dev = os.stat(base).st_dev
    seen = []
    for cand in ("/dev/shm", "/tmp", "/var/tmp", "/run", "/run/user/%d" % os.getuid(), os.path.expanduser("~")):
        try:
            st = os.stat(cand)
        except OSError:
            continue
        if not os.access(cand, os.W_OK | os.X_OK):
            continue
        seen.append(cand)
        if st.st_dev != dev:
            return cand, None
    return None, "every writable candidate (%s) is on the device of %s" % (", ".join(seen), base)


class DirStream(_SaveLoad):
    """a report saved into a report DIRECTORY of any name, beside sibling directories holding OLDER reports (their names chosen among
    those the directory's name would match if it were read as a pattern), the directory holding other legitimate content; the system
    temporary directory ($TMPDIR) on the same or on another file system than the report directory; loaded back through
    `load_report(<directory>)` / `load_reports_from_dir`"""
    name = "C09.dir"
    key = "dir"
    quick_cases = 220
    thorough_cases = 3000
    quick_seconds = 12
    thorough_seconds = 150
    chunk = 40
    corpus = []     # filled below

    def setup(self, ctx):
        super().setup(ctx)
        self.otherfs, self.otherfs_reason = other_filesystem(self.dir)
        self.dir2 = tempfile.mkdtemp(prefix="lccverif-c09-", dir=self.otherfs) if self.otherfs else None

    def teardown(self, ctx):
        super().teardown(ctx)
        if getattr(self, "dir2", None):
            shutil.rmtree(self.dir2, ignore_errors=True)

    def gen(self, rng, i):
        mode = rng.choice(["safe", "plain", "plain"])
        d = R.gen_report(rng, mode, max_depth=2, odd=False, unfinished=0.2)
        older = R.gen_report(rng, "plain", max_depth=1, odd=False, unfinished=0)
        older["title"] = "OLDER REPORT of the neighbour directory"
        names = _dir_names()
        dirname = rng.choice(names) if rng.random() < 0.8 else "report"
        opts, _ = gen_json_opts(rng)
        return {"report": d, "older": older, "dirname": dirname, "siblings": pattern_instances(rng, dirname),
                "extras": sorted(rng.sample(BENIGN_EXTRAS, rng.choice([0, 0, 1, 2, 4])) + (rng.sample(HOSTILE_EXTRAS, 1) if rng.random() < 0.06 else [])),
                "backend": rng.choice(["json", "json", "xml"]), "opts": opts, "how": rng.choice(["backend", "backend", "report.save"]),
                "via": rng.choice(["load_report", "load_report", "load_report/", "load_reports_from_dir"]),
                "tmp": rng.choice(["default", "other-fs", "other-fs", "elsewhere"]), "place": rng.choice(["default", "default", "other-fs"])}

    def impl(self, case):
        from lemoncheesecake.reporting import XmlBackend, load_report
        from lemoncheesecake.reporting.loader import load_reports_from_dir
        from lemoncheesecake.exceptions import ReportLoadingError
        if not getattr(self, "dir", None):
            self.setup(None)
        have2 = self.dir2 is not None
        base = self.dir2 if (case.get("place") == "other-fs" and have2) else self.dir
        top = tempfile.mkdtemp(prefix="top-", dir=base)
        tmp_kind = case.get("tmp", "default")
        tmpd = None
        if tmp_kind == "other-fs" and have2:
            tmpd = tempfile.mkdtemp(prefix="tmpdir-", dir=self.dir if base == self.dir2 else self.dir2)
        elif tmp_kind != "default":
            tmpd = tempfile.mkdtemp(prefix="tmpdir-", dir=base)
        be = json_backend(case.get("opts")) if case["backend"] == "json" else XmlBackend()
        fname = be.get_report_filename()
        out = {"fname": fname, "second_fs": "available" if have2 else "unavailable: " + str(self.otherfs_reason)}
        try:
            for sib in case.get("siblings", []):
                os.mkdir(os.path.join(top, sib))
                be.save_report(os.path.join(top, sib, fname), R.build_report(R.strip_private(case["older"])))
            target = os.path.join(top, case["dirname"])
            os.mkdir(target)
            for x in case.get("extras", []):
                if DIR_EXTRAS[x] == "subdir":
                    os.mkdir(os.path.join(target, x))
                else:
                    with open(os.path.join(target, x), "wb" if isinstance(_EXTRA_TEXT[x], bytes) else "w") as fh:
                        fh.write(_EXTRA_TEXT[x])
            out["before"] = sorted(os.listdir(target))
            out["dev"] = {"report": os.stat(target).st_dev, "tmp": os.stat(tmpd).st_dev if tmpd else os.stat(tempfile.gettempdir()).st_dev}
            rep = R.build_report(R.strip_private(case["report"]))
            path = os.path.join(target, fname)
            old_env, old_td = os.environ.get("TMPDIR"), tempfile.tempdir
            if tmpd:
                os.environ["TMPDIR"] = tmpd
                tempfile.tempdir = None
            try:
                if case.get("how") == "report.save":
                    rep.bind(be, path)
                    rep.save()
                else:
                    be.save_report(path, rep)
                out["save"] = "saved"
            except (TypeError, UnicodeEncodeError, ValueError, OSError) as e:
                import errno
                out["save"] = type(e).__name__ + ("-" + errno.errorcode.get(e.errno, str(e.errno)) if isinstance(e, OSError) and e.errno else "")
            finally:
                if tmpd:
                    if old_env is None:
                        os.environ.pop("TMPDIR", None)
                    else:
                        os.environ["TMPDIR"] = old_env
                    tempfile.tempdir = old_td
            out["after"] = sorted(os.listdir(target))
            out["listing"] = os.listdir(target)
            out["tmp_left"] = sorted(os.listdir(tmpd)) if tmpd else []
            out["siblings_after"] = sorted(x for x in os.listdir(top) if x != case["dirname"] and not x.startswith("tmpdir-"))
            via = case.get("via", "load_report")
            try:
                if via == "load_reports_from_dir":
                    reps = list(load_reports_from_dir(target))
                    out["count"] = len(reps)
                    loaded = reps[0] if reps else None
                else:
                    loaded = load_report(target + ("/" if via.endswith("/") else ""))
                if loaded is None:
                    out["load"] = {"outcome": "no-report"}
                else:
                    out["load"] = {"outcome": "ok", "report": R.canon_report(loaded), "nf": R.nf_report(loaded)}
                    out["load"]["none_text"] = none_text_positions(out["load"]["report"])
            except ReportLoadingError as e:
                out["load"] = {"outcome": "no-report", "message": str(e)[:60]}
            except (AttributeError, UnicodeDecodeError, TypeError, KeyError, ValueError) as e:
                out["load"] = {"outcome": "crash", "class": type(e).__name__}
        finally:
            shutil.rmtree(top, ignore_errors=True)
            if tmpd:
                shutil.rmtree(tmpd, ignore_errors=True)
        out["outcome"] = out["load"]["outcome"] if out.get("save") == "saved" else "save-failed"
        return {"dir": out}

    def oracle(self, case, obs):
        o = obs["dir"]
        fails = []
        where = "directory %r (siblings %s, $TMPDIR %s, report dir on %s fs)" % (case["dirname"], case.get("siblings", []), case.get("tmp"), case.get("place"))
        if o["save"] != "saved":
            legit = o["save"] in ("TypeError", "UnicodeEncodeError")      # the D8 classes of xml_failures
            if not legit:
                fails.append(C.Failure("C09/save-fails/" + o["save"], "saving the report into %s raised %s" % (where, o["save"])))
        stray = [x for x in o["after"] if x not in o["before"] and x != o["fname"]]
        if stray:
            fails.append(C.Failure("C09/save/stray-file-in-report-dir", "after the save %s holds %s besides %s" % (where, stray, o["fname"])))
        gone = [x for x in o["before"] if x not in o["after"]]
        if gone:
            fails.append(C.Failure("C09/save/entry-removed-from-report-dir", "the save removed %s from %s" % (gone, where)))
        if o["tmp_left"]:
            fails.append(C.Failure("C09/save/file-left-in-temp-dir", "after the save $TMPDIR holds %s" % o["tmp_left"]))
        if o["siblings_after"] != sorted(case.get("siblings", [])):
            fails.append(C.Failure("C09/save/sibling-directories-changed", "siblings %s -> %s" % (case.get("siblings"), o["siblings_after"])))
        if o["save"] != "saved":
            return fails
        ld = o["load"]
        if ld["outcome"] == "crash":
            hostile = [x for x in case.get("extras", []) if DIR_EXTRAS[x] == "hostile"]
            fails.append(C.Failure("C09/roundtrip/directory-load-crashes-on-foreign-file" if hostile else "C09/roundtrip/directory-load-raises-" + ld["class"],
                                   "%s: %s raised %s although %s was saved there intact (other entries: %s)"
                                   % (where, case.get("via"), ld["class"], o["fname"], case.get("extras"))))
            return fails
        if ld["outcome"] == "no-report":
            fails.append(C.Failure("C09/roundtrip/report-not-found-in-its-directory",
                                   "%s: the report saved as %s is not found by %s: %s" % (where, o["fname"], case.get("via"), ld.get("message"))))
            return fails
        exp = R.nf_of_desc(case["report"])
        if ld["nf"] != exp and ld["nf"] == R.nf_of_desc(case["older"]):
            fails.append(C.Failure("C09/roundtrip/loaded-foreign-report",
                                   "%s: %s returned the OLDER report of a sibling directory (title %r) instead of the one just saved there"
                                   % (where, case.get("via"), ld["nf"].get("title") if isinstance(ld["nf"], dict) else None)))
            return fails
        fails += xml_failures(case["report"], ld, "directory round trip") if case["backend"] == "xml" else json_failures(case["report"], ld, "directory round trip")
        if o.get("count", 1) != 1:
            fails.append(C.Failure("C09/roundtrip/directory-does-not-list-one-report", "%s lists %d reports, one was saved" % (where, o["count"])))
        return fails

    def request(self, case, obs):
        o = obs["dir"]
        def rep_entry(nm, desc, g):
            return dict({"name": nm, "kind": case["backend"], "report": R.wire(merge_pairs_deep(R.strip_private(desc))), "g": g}, **case["opts"])
        dev = o["dev"]["report"]
        dirs = [{"name": sib, "dev": dev, "entries": [rep_entry(o["fname"], case["older"], 0)]} for sib in case.get("siblings", [])]
        dirs.append({"name": case["dirname"], "dev": dev, "entries": [{"name": x, "kind": DIR_EXTRAS[x]} for x in o["before"]]})
        g = 0
        if o["save"] == "saved" and o["load"]["outcome"] == "ok":
            g = o["load"]["report"]["saving"] or 0
        # the real code creates its temporary file BESIDE the target, wherever $TMPDIR is
        return {"op": "dir", "target": case["dirname"], "tmp": "beside", "dirs": dirs, "order": o["listing"],
                "save": dict({"file": o["fname"], "fmt": case["backend"], "g": g, "report": R.wire(merge_pairs_deep(R.strip_private(case["report"])))},
                             **case["opts"])}

    def compare(self, case, obs, ans):
        if "error" in ans:
            return "model error: " + str(ans["error"])
        o = obs["dir"]
        real_save = "saved" if o["save"] == "saved" else "save-error" if o["save"] in ("TypeError", "UnicodeEncodeError") else o["save"]
        if ans["save"] != real_save:
            return "save: real %s, model %s" % (o["save"], ans["save"])
        if sorted(ans["names"]) != o["after"]:
            return "entries of the report directory after the save: real %s, model %s" % (o["after"], sorted(ans["names"]))
        if real_save != "saved":
            return None
        m, ld = ans["load"], o["load"]
        if case.get("via") == "load_reports_from_dir":
            # the list form consumes the whole generator
            if (ld["outcome"] == "crash") != (ans["count"] == "crashed"):
                return "listing the directory: real %s, model count %s" % (ld["outcome"], ans["count"])
            if ld["outcome"] == "crash":
                return None
        elif (ld["outcome"] == "crash") != (m["o"] == "crashed"):
            return "real load: %s; model: %s" % (ld["outcome"], m["o"])
        elif ld["outcome"] == "crash":
            return None
        if ld["outcome"] == "no-report":
            return None if m["o"] == "no-report" else "real: no report found in the directory; model: %s" % m["o"]
        if ld.get("none_text") and m["o"] != "loaded":
            return None
        if m["o"] != "loaded":
            return "real load succeeded; model: %s" % m["o"]
        if "count" in o and o["count"] != ans["count"]:
            return "reports listed: real %d, model %d" % (o["count"], ans["count"])
        if ld.get("none_text"):
            return None
        d = first_diff(ld["report"], R.unwire(m["report"]))
        return None if d is None else "loaded report differs from the model's at %s: real %r model %r" % d

    def nontrivial(self, case, obs):
        return obs["dir"]["save"] == "saved" and (bool(case.get("siblings")) or case["dirname"] != "report" or case.get("tmp") != "default")

    def features(self, case, obs):
        import fnmatch
        o = obs["dir"]
        n = case["dirname"]
        f = ["dirname:" + ("plain" if n == "report" else "glob-metachars" if any(c in n for c in "[]*?") else "other-special")]
        if any(fnmatch.fnmatchcase(s, n) for s in case.get("siblings", [])):
            f.append("sibling-matched-by-name-as-pattern")
        f.append("siblings=%d" % len(case.get("siblings", [])))
        f.append("extras=%d" % len(case.get("extras", [])))
        f += ["extra:" + x for x in case.get("extras", [])]
        f.append("backend:" + case["backend"])
        f.append("via:" + case.get("via", ""))
        f.append("how:" + case.get("how", ""))
        f.append("second-filesystem:" + o["second_fs"])
        f.append("tmpdir:%s/report-dir:%s" % (case.get("tmp"), case.get("place")))
        f.append("tmpdir-device-%s-report-dir-device" % ("=" if o["dev"]["tmp"] == o["dev"]["report"] else "!="))
        f.append("outcome:" + o["outcome"])
        return f

    def shrink(self, case):
        sib = case.get("siblings", [])
        for i in range(len(sib)):
            yield dict(case, siblings=sib[:i] + sib[i + 1:])
        if case.get("extras"):
            yield dict(case, extras=[])
        for k, v in (("via", "load_report"), ("how", "backend"), ("tmp", "default"), ("place", "default"), ("backend", "json")):
            if case.get(k) != v:
                yield dict(case, **{k: v})
        for c in R.shrink_desc(case["report"]):
            yield dict(case, report=c)
        for c in R.shrink_desc(case["older"]):
            yield dict(case, older=c)


def _w(title="t", **kw):
    """minimal report description with one test holding one log"""
    log = {"k": "log", "level": "info", "msg": kw.get("msg", "m"), "t": R.T0 + 2}
    entries = [log]
    if "check_details" in kw:
        entries.append({"k": "check", "desc": "c", "ok": True, "details": kw["check_details"], "t": R.T0 + 2})
    step = {"desc": kw.get("step_desc", "s"), "start": R.T0 + 1, "end": R.T0 + 3, "entries": entries}
    md = {"name": "t1", "desc": "d", "tags": [], "props": [], "links": kw.get("links", []), "rank": 0}
    res = {"steps": [step], "start": R.T0 + 1, "end": R.T0 + 4, "status": "passed", "details": kw.get("details")}
    smd = {"name": "s1", "desc": "d", "tags": [], "props": [], "links": [], "rank": 0}
    suite = {"md": smd, "start": R.T0, "end": R.T0 + 5, "setup": None, "teardown": None, "tests": [{"md": md, "res": res}], "suites": []}
    return {"report": {"title": title, "info": [], "nb_threads": 1, "start": R.T0, "end": R.T0 + 6, "saving": None, "setup": None,
                       "teardown": None, "suites": [suite]}}


# minimal witnesses of the open findings (D8), replayed first on every run; JSON must be clean on all of them
WITNESSES = [
    _w(msg=""),                       # C09/xml/empty-text-loads-None
    _w(msg="a\rb"),                   # C09/xml/cr-becomes-lf
    _w(msg="\x01"),                   # C09/xml/non-xml-char-unloadable
    _w(step_desc="￾"),           # C09/xml/non-xml-char-unloadable (attribute position)
    _w(msg="\ud800"),                 # C09/xml/lone-surrogate-save-fails
    _w(details=""),                   # C09/xml/empty-status-details-loads-None
    _w(links=[["http://x", ""]]),     # C09/xml/empty-link-name-loads-None
    _w(check_details=""),             # C09/xml/empty-text-loads-None (optional text)
    _w(title=""),
]


def _odd_witness(end, status):
    """a report holding a result of EVERY kind (session setup / teardown, suite setup / teardown, test) whose end time and
    status are set independently: (end set, no status) = a result being finalised; (no end, status) = a tool's report"""
    d = _w()["report"]
    t = [R.T0 + 10]

    def res():
        t[0] += 10
        st = {"desc": "s", "start": t[0] + 1, "end": t[0] + 2, "entries": [{"k": "log", "level": "info", "msg": "m", "t": t[0] + 1}]}
        return {"steps": [st], "start": t[0], "end": (t[0] + 5) if end else None, "status": status, "details": None}
    d["setup"], d["teardown"] = res(), res()
    su = d["suites"][0]
    su["setup"], su["teardown"] = res(), res()
    su["tests"][0]["res"] = res()
    return {"report": d}


ODD_WITNESSES = [_odd_witness(True, None), _odd_witness(False, "passed"), _odd_witness(False, "failed")]
XmlStream.corpus = WITNESSES + ODD_WITNESSES
JsonStream.corpus = WITNESSES + [
    # a text quoting the JavaScript prefix of report.js, saved WITHOUT the prefix (and with it)
    dict(_w(msg="report.js starts with: var reporting_data = {"), opts={"jc": False, "pretty": False}, via="backend"),
    dict(_w(title="var reporting_data = "), opts={"jc": False, "pretty": True}, via="loader"),
    dict(_w(msg="var reporting_data = var reporting_data = "), opts={"jc": True, "pretty": False}, via="loader"),
    _w(msg="\ud83d\ude00"),           # C09/json/split-surrogate-pair-merged (two code points, not U+1F600)
] + ODD_WITNESSES


def _save(backend="json", path=0, jc=True, pretty=False, reuse=True, how="backend", via="backend"):
    return {"op": "save", "backend": backend, "opts": {"jc": jc, "pretty": pretty}, "via": via, "path": path, "reuse": reuse, "how": how}


_T1 = {"suite": [0], "test": 0}
# a finished test is saved, annotated (what a triage script does), and saved again — same path, same backend instance; another
# path, a fresh instance; XML in between; a later load of the first file must still show the first state
SeqStream.corpus = [
    dict(_w(), ops=[_save(), {"op": "mut", "m": "status", "at": _T1, "status": "failed", "details": "known issue, see #1234"},
                    {"op": "mut", "m": "tag", "at": _T1, "s": "known-issue"}, _save()]),
    dict(_w(), ops=[_save(path=0), {"op": "mut", "m": "link", "at": _T1, "url": "http://bug/1", "name": "#1"},
                    {"op": "mut", "m": "add-step", "at": _T1, "step": {"desc": "triage", "start": R.T0 + 20_000, "end": R.T0 + 21_000,
                     "entries": [{"k": "log", "level": "warn", "msg": "tracked", "t": R.T0 + 20_500}]}},
                    _save(path=1, reuse=False, jc=False, how="report.save"), _save(backend="xml", path=2),
                    {"op": "load", "path": 0, "via": "loader"}]),
]


def _dircase(dirname, siblings, backend="json", via="load_report", tmp="default", place="default", extras=()):
    older = _w(title="OLDER REPORT of the neighbour directory")["report"]
    return {"report": _w(title="the report saved here")["report"], "older": older, "dirname": dirname, "siblings": list(siblings),
            "extras": list(extras), "backend": backend, "opts": {"jc": True, "pretty": False}, "how": "backend", "via": via, "tmp": tmp, "place": place}


DirStream.corpus = [
    # the directory's name read as a pattern matches a sibling that holds an older report (seeded C09-12)
    _dircase("report[1]", ["report1"]), _dircase("report-*", ["report-old"], backend="xml"),
    _dircase("what?", ["whats"], via="load_reports_from_dir"), _dircase("nightly [x86] run", ["nightly 8 run"], via="load_report/"),
    _dircase("[", []), _dircase("report", ["report1", "reports"], extras=["attachments", "report.html", "report.js.4242.tmp"]),
    # $TMPDIR on another file system than the report directory, and the other way round (seeded C09-11)
    _dircase("report", [], tmp="other-fs"), _dircase("report", [], backend="xml", tmp="other-fs"),
    _dircase("report", [], tmp="other-fs", place="other-fs"), _dircase("report", [], tmp="elsewhere"),
    # open finding: a pid file / a binary file beside the report makes the directory load raise
    _dircase("report", [], via="load_reports_from_dir", extras=["run.pid"]), _dircase("report", [], via="load_reports_from_dir", extras=["core"], backend="xml"),
]


def streams(ctx):
    return [JsonStream(), XmlStream(), SeqStream(), DirStream(), EtNorm(), JsonText(), TimeLayer()]

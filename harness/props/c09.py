"""C09 — saved reports load back unchanged (JSON and XML) (models M10 `Serial`, accessors of M4)."""
import copy
import datetime
import os
import shutil
import tempfile

import common as C
from gen import reports as R

PROPERTY = "C09"
LEAN_MODULES = ["LccModel.Props.C09"]
PROPS_FILES = ["LccModel/Props/C09.lean"]
NAMESPACES = {"LccModel/Props/C09.lean": "LccModel.C09"}
DRIVER = "drivers/C09.lean"
TRUSTED_BASE = [
    "Lean 4.33.0 kernel; axioms of the property theorems ⊆ {propext, Classical.choice, Quot.sound}",
    "hand-written model LccModel/Model/Serial.lean of reporting/backends/json_.py and xml.py (serialize/unserialize pairs, field by field) "
    "and the accessors of report.py in LccModel/Model/Writer.lean (get_tests/get_suites: stable sort by rank)",
    "text layers are parameters of the model, each validated by its own stream and not proved: json.dumps/json.loads = identity on JSON "
    "values (C09.json), ET.tostring/ET.parse = etNorm (C09.etnorm), float→ms rounding and ISO-8601 text (C09.time)",
    "correspondence harness harness/props/c09.py + harness/gen/reports.py (generator, builder to real objects, canonical form)",
    "Lean String holds scalar values only: a lone surrogate U+D800+k travels as U+10F800+k; genuine characters of U+10F800..U+10FFFF "
    "are never generated",
]
ASSUMPTIONS = [
    "times of a report are non-negative and below 2**33 s (year 2242, see TMAX_MS); the model's times are integers of milliseconds (floats that are exact ms "
    "multiples on the real side); rounding of arbitrary floats to ms is the trusted parameter checked by C09.time",
    "statuses are the four of Result.STATUSES or None, log levels the four of Log.LEVEL_*; test names are unique within a suite and "
    "property keys within a node (Python dicts)",
    "reports without a start time on some item (not producible by the reporting API) are outside the property: the XML serializer "
    "raises TypeError on them; the model predicts it, the oracle does not count it",
    "the locale encoding used by open(path, 'w') is UTF-8",
]
RULE = ("a generated report tree saved and loaded with the real backend; non-trivial = at least 2 results and (a string from a "
        "non-plain class or an unfinished item); distinct = hash of the report description")
EXPLANATION = ("Round-trip theorems for every report (JSON: unconditional on representable reports; XML: under the decidable guard "
               "xmlSafe, with refutation theorems for each D8 class) proved in Lean; the models are tied to json_.py / xml.py by saving "
               "and loading generated reports with the real backends and comparing the loaded object graph (or the failure class) with "
               "the model's prediction; etNorm and the time text layer have their own differential streams.")

# Times are taken below 2**33 s (year 2242): up to there the spacing of doubles is below 1 µs, so `utcfromtimestamp`'s rounding to
# microseconds recovers the exact millisecond before `isoformat(timespec="milliseconds")` TRUNCATES; beyond, a millisecond can be
# lost (253402300799.999 s is rendered …59.998Z).  Out of the property's practical domain; recorded in design.d/C09.md.
TMAX_MS = 2 ** 33 * 1000


def count_results(d):
    return sum(1 for _ in R.iter_results(d))


def has_unfinished(d):
    if d["end"] is None:
        return True
    for res in R.iter_results(d):
        if res["end"] is None or any(st["end"] is None for st in res["steps"]):
            return True
    return any(s["end"] is None for s in R.iter_suites(d["suites"]))


def none_text_positions(c):
    """mandatory text fields that hold None in a canonical report"""
    out = []
    if c["title"] is None:
        out.append("title")
    out += ["info value" for k, v in c["info"] if v is None]

    def md(m):
        out.extend("tag" for t in m["tags"] if t is None)
        out.extend("property value" for k, v in m["props"] if v is None)
        out.extend("link url" for u, n in m["links"] if u is None)

    def res(r):
        if r is None:
            return
        for st in r["steps"]:
            for e in st["entries"]:
                if e["k"] == "log" and e["msg"] is None:
                    out.append("log message")
                if e["k"] == "att" and e["file"] is None:
                    out.append("attachment filename")
                if e["k"] == "url" and e["url"] is None:
                    out.append("url")
    res(c["setup"])
    res(c["teardown"])
    for s in R.iter_suites(c["suites"]):
        md(s["md"])
        res(s["setup"])
        res(s["teardown"])
        for t in s["tests"]:
            md(t["md"])
            res(t["res"])
    return out


def first_diff(a, b, path=""):
    """first differing leaf of two normal forms: (path, a_leaf, b_leaf)"""
    if type(a) != type(b) or isinstance(a, (str, int, float, bool, type(None))):
        return None if a == b else (path, a, b)
    if isinstance(a, dict):
        for k in sorted(set(a) | set(b)):
            if k not in a or k not in b:
                return (path + "/" + k, a.get(k, "<absent>"), b.get(k, "<absent>"))
            d = first_diff(a[k], b[k], path + "/" + k)
            if d:
                return d
        return None
    if isinstance(a, list):
        if len(a) != len(b):
            return (path + "/len", len(a), len(b))
        for i, (x, y) in enumerate(zip(a, b)):
            d = first_diff(x, y, path + "/%d" % i)
            if d:
                return d
    return None


def all_diffs(a, b, path="", out=None, limit=50):
    out = [] if out is None else out
    if len(out) >= limit:
        return out
    if type(a) != type(b) or isinstance(a, (str, int, float, bool, type(None))):
        if a != b:
            out.append((path, a, b))
        return out
    if isinstance(a, dict):
        for k in sorted(set(a) | set(b)):
            if k not in a or k not in b:
                out.append((path + "/" + k, a.get(k, "<absent>"), b.get(k, "<absent>")))
            else:
                all_diffs(a[k], b[k], path + "/" + k, out, limit)
        return out
    if len(a) != len(b):
        out.append((path + "/len", len(a), len(b)))
        return out
    for i, (x, y) in enumerate(zip(a, b)):
        all_diffs(x, y, path + "/%d" % i, out, limit)
    return out


def classify_xml_diff(path, orig, got):
    """the D8 class of one differing leaf (original vs XML-loaded)"""
    last = path.rsplit("/", 1)[-1]
    if orig == "" and got is None:
        if last == "details" and "/entries/" not in path:
            return "C09/xml/empty-status-details-loads-None"
        if "/links/" in path and last == "1":
            return "C09/xml/empty-link-name-loads-None"
        return "C09/xml/empty-text-loads-None"
    if isinstance(orig, str) and isinstance(got, str) and "\r" in orig and got == orig.replace("\r\n", "\n").replace("\r", "\n"):
        return "C09/xml/cr-becomes-lf"
    return "C09/xml/field-changed"


class _SaveLoad(C.Stream):
    backend = None
    fname = None
    chunk = 40

    def setup(self, ctx):
        self.dir = tempfile.mkdtemp(prefix="lccverif-c09-")

    def teardown(self, ctx):
        shutil.rmtree(self.dir, ignore_errors=True)

    def save_load(self, backend, fname, report):
        """-> {"outcome": ok|save-error|load-error, ...} observed on the real backend"""
        from lemoncheesecake.exceptions import ReportLoadingError
        path = os.path.join(getattr(self, "dir", None) or tempfile.gettempdir(), fname)
        if not getattr(self, "dir", None):
            self.dir = tempfile.mkdtemp(prefix="lccverif-c09-")
            path = os.path.join(self.dir, fname)
        try:
            backend.save_report(path, report)
        except (TypeError, UnicodeEncodeError, ValueError) as e:
            return {"outcome": "save-error", "class": type(e).__name__}
        try:
            loaded = backend.load_report(path)
        except ReportLoadingError as e:
            return {"outcome": "parse-error", "message": str(e)[:80]}
        return {"outcome": "ok", "report": R.canon_report(loaded), "nf": R.nf_report(loaded)}

    def nontrivial(self, case, obs):
        d = case["report"]
        return count_results(d) >= 2 and (bool(d.get("_classes")) or has_unfinished(d) or
                                          any(k != "plain" for k in self._classes(d)))

    @staticmethod
    def _classes(d):
        out = set()
        for pos, s in R.all_strings(d):
            if s == "":
                out.add("empty")
            elif "\r" in s:
                out.add("cr")
            elif any(ord(c) < 0x20 and c not in "\t\n\r" for c in s) or "￾" in s or "￿" in s:
                out.add("nonxml")
            elif any(0xD800 <= ord(c) <= 0xDFFF for c in s):
                out.add("surrogate")
            elif any(ord(c) > 0xFFFF for c in s):
                out.add("astral")
            elif any(ord(c) > 0x7F for c in s):
                out.add("non-ascii")
            elif s != s.strip() or "\n" in s:
                out.add("blanks")
            elif any(c in s for c in "<>&\"'"):
                out.add("markup")
        return out

    def features(self, case, obs):
        d = case["report"]
        f = ["str:" + c for c in sorted(self._classes(d))]
        f.append("unfinished" if has_unfinished(d) else "finished")
        f.append("outcome:" + obs[self.key]["outcome"])
        depth = max([len(p) for p in self._suite_paths(d)] or [0])
        f.append("depth=%d" % depth)
        sts = {t["res"]["status"] for t in R.iter_tests(d)}
        f += ["status:%s" % s for s in sorted(map(str, sts))]
        return f

    @staticmethod
    def _suite_paths(d):
        def go(ss, pre):
            for s in ss:
                p = pre + [s["md"]["name"]]
                yield p
                yield from go(s["suites"], p)
        return list(go(d["suites"], []))

    def shrink(self, case):
        for c in R.shrink_desc(case["report"]):
            yield {"report": c}


class JsonStream(_SaveLoad):
    name = "C09.json"
    key = "json"
    quick_cases = 260
    thorough_cases = 6000
    quick_seconds = 22
    thorough_seconds = 300
    corpus = []     # filled below

    def gen(self, rng, i):
        mode = rng.choice(["wild", "wild", "safe", "plain"])
        odd = rng.random() < 0.35
        return {"report": R.gen_report(rng, mode, odd=odd, none_times=0.02 if odd else 0, zero_times=0.02 if odd else 0)}

    def impl(self, case):
        from lemoncheesecake.reporting import JsonBackend
        rep = R.build_report(R.strip_private(case["report"]))
        return {"json": self.save_load(JsonBackend(), "report.js", rep)}

    def oracle(self, case, obs):
        o = obs["json"]
        if o["outcome"] != "ok":
            return [C.Failure("C09/json/" + o["outcome"], f"JSON save/load failed: {o}")]
        exp = R.nf_of_desc(case["report"])
        d = first_diff(exp, o["nf"])
        if d:
            return [C.Failure("C09/json/field-changed", f"JSON round trip changed {d[0]}: {d[1]!r} -> {d[2]!r}")]
        return []

    def request(self, case, obs):
        o = obs["json"]
        g = o["report"]["saving"] if o["outcome"] == "ok" else 0
        return {"op": "json", "report": R.wire(case["report"]), "g": g or 0}

    def compare(self, case, obs, ans):
        o = obs["json"]
        if "error" in ans:
            return "model error: " + ans["error"]
        if "err" in ans:
            return None if o["outcome"] != "ok" else f"model predicts load error {ans['err']}, real load succeeded"
        if o["outcome"] != "ok":
            return f"real outcome {o}, model loads a report"
        m = R.unwire(ans["ok"])
        d = first_diff(o["report"], m)
        return None if d is None else f"loaded report differs from the model's at {d[0]}: real {d[1]!r} model {d[2]!r}"


class XmlStream(_SaveLoad):
    name = "C09.xml"
    key = "xml"
    quick_cases = 260
    thorough_cases = 6000
    quick_seconds = 25
    thorough_seconds = 300
    corpus = []

    def gen(self, rng, i):
        mode = rng.choice(["wild", "safe", "safe", "plain"])
        if mode == "wild" and rng.random() < 0.5:
            # one hostile string in an otherwise preserved report: isolates the D8 classes
            d = R.gen_report(rng, "safe", odd=False)
            self._plant(rng, d)
            return {"report": d}
        odd = rng.random() < 0.3
        return {"report": R.gen_report(rng, mode, odd=odd, none_times=0.01 if odd else 0, zero_times=0.02 if odd else 0)}

    @staticmethod
    def _plant(rng, d):
        cls = rng.choice(sorted(R.XML_HOSTILE))
        s = R.gen_string(rng, cls)
        spots = []
        for res in R.iter_results(d):
            for st in res["steps"]:
                spots.append((st, "desc"))
                for e in st["entries"]:
                    for k in ("msg", "desc", "details", "file", "url"):
                        if k in e:
                            spots.append((e, k))
            spots.append((res, "details"))
        for s_ in R.iter_suites(d["suites"]):
            spots.append((s_["md"], "desc"))
            for t in s_["tests"]:
                spots.append((t["md"], "desc"))
        spots.append((d, "title"))
        holder, k = rng.choice(spots)
        holder[k] = s
        d["_planted"] = cls

    def impl(self, case):
        from lemoncheesecake.reporting import JsonBackend, XmlBackend
        desc = R.strip_private(case["report"])
        x = self.save_load(XmlBackend(), "report.xml", R.build_report(desc))
        j = self.save_load(JsonBackend(), "report.js", R.build_report(desc))
        if x["outcome"] == "ok":
            x["none_text"] = none_text_positions(x["report"])
        return {"xml": x, "json_nf": j.get("nf"), "json_outcome": j["outcome"]}

    def oracle(self, case, obs):
        o = obs["xml"]
        d = case["report"]
        fails = []
        missing_start = d["start"] is None or any(s["start"] is None for s in R.iter_suites(d["suites"])) or any(
            r["start"] is None or any(st["start"] is None for st in r["steps"]) for r in R.iter_results(d))
        if o["outcome"] == "save-error":
            if o["class"] == "UnicodeEncodeError":
                fails.append(C.Failure("C09/xml/lone-surrogate-save-fails", "XML save raised UnicodeEncodeError"))
            elif o["class"] == "TypeError" and missing_start:
                pass    # not producible by the reporting API (see ASSUMPTIONS)
            else:
                fails.append(C.Failure("C09/xml/save-raised-" + o["class"], f"XML save raised {o['class']}"))
            return fails
        if o["outcome"] == "parse-error":
            return [C.Failure("C09/xml/non-xml-char-unloadable", "the saved XML report cannot be loaded: " + o.get("message", ""))]
        exp = R.nf_of_desc(d)
        diffs = all_diffs(exp, o["nf"])
        sigs = []
        for p, a, b in diffs:
            s = classify_xml_diff(p, a, b)
            if s not in sigs:
                sigs.append(s)
                fails.append(C.Failure(s, f"XML round trip changed {p}: {a!r} -> {b!r}"))
        if not diffs and obs["json_outcome"] == "ok":
            dj = first_diff(obs["json_nf"], o["nf"])
            if dj:
                fails.append(C.Failure("C09/backends-disagree", f"JSON-loaded and XML-loaded reports differ at {dj[0]}: {dj[1]!r} vs {dj[2]!r}"))
        return fails

    def request(self, case, obs):
        o = obs["xml"]
        g = o["report"]["saving"] if o["outcome"] == "ok" else 0
        return {"op": "xml", "report": R.wire(case["report"]), "g": g or 0}

    def compare(self, case, obs, ans):
        o = obs["xml"]
        if "error" in ans:
            return "model error: " + ans["error"]
        mo = ans["outcome"]
        if o["outcome"] == "save-error":
            return None if (mo == "save-error" and ans["class"] == o["class"]) else f"real: save raised {o['class']}; model: {ans}"
        if o["outcome"] == "parse-error":
            return None if mo == "parse-error" else f"real: unloadable file; model: {mo}"
        if o["none_text"]:
            if mo == "none-text":
                return None if ans["what"] in o["none_text"] else f"None text at {o['none_text']}, model says {ans['what']}"
            return f"real load has None at {o['none_text']}; model: {mo}"
        if mo != "ok":
            return f"real load succeeded; model: {ans}"
        m = R.unwire(ans["report"])
        d = first_diff(o["report"], m)
        if d is not None:
            return f"loaded report differs from the model's at {d[0]}: real {d[1]!r} model {d[2]!r}"
        # the guard: xmlSafe (and representable) must imply an unchanged report on the real code too
        if ans["safe"] and ans["repr"]:
            dd = first_diff(R.nf_of_desc(case["report"]), o["nf"])
            if dd is not None:
                return f"guard xmlSafe holds but the real round trip changed {dd[0]}"
        return None

    def features(self, case, obs):
        f = super().features(case, obs)
        if case["report"].get("_planted"):
            f.append("planted:" + case["report"]["_planted"])
        return f


# ---- etNorm ------------------------------------------------------------------------------------

def gen_elem(rng, depth=0):
    tag = rng.choice(["a", "b", "log", "step"])
    classes = R.STRING_CLASSES
    attrs = []
    for k in rng.sample(["k", "description", "name"], rng.choice([0, 1, 2])):
        attrs.append([k, R.gen_string(rng, rng.choice(classes))])
    n = 0 if depth >= 2 else rng.choice([0, 0, 1, 2, 3])
    if n == 0:
        text = rng.choice([None, R.gen_string(rng, rng.choice(classes)), R.gen_string(rng, rng.choice(classes))])
        return {"tag": tag, "attrs": attrs, "text": text, "children": []}
    return {"tag": tag, "attrs": attrs, "text": None, "children": [gen_elem(rng, depth + 1) for _ in range(n)]}


def build_elem(d):
    import xml.etree.ElementTree as ET
    e = ET.Element(d["tag"])
    for k, v in d["attrs"]:
        e.attrib[k] = v
    e.text = d["text"]
    for c in d["children"]:
        e.append(build_elem(c))
    return e


def canon_elem(e):
    kids = [canon_elem(c) for c in e]
    return {"tag": e.tag, "attrs": [[k, v] for k, v in e.attrib.items()], "text": None if kids else e.text, "children": kids}


def wire_elem(d):
    return {"tag": d["tag"], "attrs": [[k, R.wire_str(v)] for k, v in d["attrs"]], "text": R.wire_str(d["text"]),
            "children": [wire_elem(c) for c in d["children"]]}


def unwire_elem(d):
    return {"tag": d["tag"], "attrs": [[k, R.unwire_str(v)] for k, v in d["attrs"]], "text": R.unwire_str(d["text"]),
            "children": [unwire_elem(c) for c in d["children"]]}


class EtNorm(_SaveLoad):
    """validates the parameter `Serial.etNorm` against xml.etree (same pipeline as xml.py: indent, tostring, text file, parse)"""
    name = "C09.etnorm"
    quick_cases = 700
    thorough_cases = 20000
    quick_seconds = 8
    thorough_seconds = 120
    chunk = 100
    corpus = [{"elem": {"tag": "a", "attrs": [["k", "x\ry\r\nz\t\n"]], "text": "x\ry\r\nz\r", "children": []}},
              {"elem": {"tag": "a", "attrs": [], "text": "", "children": []}},
              {"elem": {"tag": "a", "attrs": [["k", ""]], "text": " ", "children": []}},
              {"elem": {"tag": "a", "attrs": [["k", "\x01"]], "text": "\ud800", "children": []}}]

    def gen(self, rng, i):
        return {"elem": gen_elem(rng)}

    def impl(self, case):
        import xml.etree.ElementTree as ET
        from lemoncheesecake.reporting.backends.xml import indent_xml
        e = build_elem(case["elem"])
        indent_xml(e)
        content = ET.tostring(e, encoding="unicode", xml_declaration=True)
        path = os.path.join(self.dir, "e.xml")
        try:
            with open(path, "w") as fh:
                fh.write(content)
        except UnicodeEncodeError:
            return {"err": "encode"}
        try:
            with open(path, "r") as fh:
                root = ET.parse(fh).getroot()
        except ET.ParseError:
            return {"err": "parse"}
        return {"ok": canon_elem(root)}

    def request(self, case, obs):
        return {"op": "etnorm", "elem": wire_elem(case["elem"])}

    def compare(self, case, obs, ans):
        if "error" in ans:
            return "model error: " + ans["error"]
        if "err" in ans or "err" in obs:
            return None if ans.get("err") == obs.get("err") else f"real {obs.get('err', 'ok')} vs model {ans.get('err', 'ok')}"
        m = unwire_elem(ans["ok"])
        d = first_diff(obs["ok"], m)
        return None if d is None else f"etNorm differs at {d[0]}: real {d[1]!r} model {d[2]!r}"

    def nontrivial(self, case, obs):
        return bool(case["elem"]["children"]) or bool(case["elem"]["attrs"])

    def features(self, case, obs):
        return ["err:" + obs["err"]] if "err" in obs else ["ok"]

    def shrink(self, case):
        for c in R.shrink_desc(case["elem"]):
            yield {"elem": c}


# ---- time text layer ---------------------------------------------------------------------------

class TimeLayer(C.Stream):
    """validates the time parameter: an exact-ms float survives format → parse unchanged and its ISO text is the
    calendar rendering of the integer ms; an arbitrary float comes back as the ms multiple nearest to it"""
    name = "C09.time"
    quick_cases = 3000
    thorough_cases = 200000
    quick_seconds = 5
    thorough_seconds = 60
    chunk = 500
    corpus = [{"ms": 0}, {"ms": 1}, {"ms": 999}, {"ms": 1000}, {"ms": R.T0}, {"ms": TMAX_MS - 1}, {"x": 1600000000.0005},
              {"x": 0.0015}, {"x": 1.0004999}, {"x": 1600000000.9995}, {"x": 4253578702.2205}]

    def gen(self, rng, i):
        if rng.random() < 0.5:
            return {"ms": rng.choice([rng.randrange(0, TMAX_MS), R.T0 + rng.randrange(0, 10**9), rng.randrange(0, 10**6),
                                      TMAX_MS - 1 - rng.randrange(0, 10**6)])}
        x = rng.choice([rng.uniform(0, TMAX_MS / 1000), R.T0 / 1000 + rng.uniform(0, 10**5), rng.randrange(0, 10**9) / 1000 + 0.0005])
        return {"x": x}

    def impl(self, case):
        from lemoncheesecake.reporting.report import format_time_as_iso8601, parse_iso8601_time
        x = case["ms"] / 1000.0 if "ms" in case else case["x"]
        text = format_time_as_iso8601(x)
        back = parse_iso8601_time(text)
        return {"text": text, "back": repr(back), "back_ms": repr(back * 1000), "x": repr(x)}

    def oracle(self, case, obs):
        back = float(obs["back"])
        if "ms" in case:
            ms = case["ms"]
            exp_text = (datetime.datetime(1970, 1, 1) + datetime.timedelta(milliseconds=ms)).strftime("%Y-%m-%dT%H:%M:%S.") + "%03dZ" % (ms % 1000)
            if obs["text"] != exp_text:
                return [C.Failure("C09/time/iso-text", f"{ms} ms formatted as {obs['text']}, expected {exp_text}")]
            if back != ms / 1000.0:
                return [C.Failure("C09/time/ms-not-preserved", f"{ms} ms came back as {obs['back']}")]
            return []
        x = case["x"]
        k = round(back * 1000)
        # exact arithmetic on the value of the double x (a float subtraction near 4e9 is itself off by ~5e-7):
        # the millisecond count k that came back must be a nearest integer to 1000·x (either one on a tie)
        from decimal import Decimal
        if back != k / 1000.0 or abs(Decimal(x) * 1000 - k) > Decimal("0.5"):
            return [C.Failure("C09/time/not-nearest-ms", f"{x!r} came back as {obs['back']}")]
        return []

    def nontrivial(self, case, obs):
        return True

    def features(self, case, obs):
        return ["exact-ms" if "ms" in case else "float"]


def _w(title="t", **kw):
    """minimal report description with one test holding one log"""
    log = {"k": "log", "level": "info", "msg": kw.get("msg", "m"), "t": R.T0 + 2}
    entries = [log]
    if "check_details" in kw:
        entries.append({"k": "check", "desc": "c", "ok": True, "details": kw["check_details"], "t": R.T0 + 2})
    step = {"desc": kw.get("step_desc", "s"), "start": R.T0 + 1, "end": R.T0 + 3, "entries": entries}
    md = {"name": "t1", "desc": "d", "tags": [], "props": [], "links": kw.get("links", []), "rank": 0}
    res = {"steps": [step], "start": R.T0 + 1, "end": R.T0 + 4, "status": "passed", "details": kw.get("details")}
    smd = {"name": "s1", "desc": "d", "tags": [], "props": [], "links": [], "rank": 0}
    suite = {"md": smd, "start": R.T0, "end": R.T0 + 5, "setup": None, "teardown": None, "tests": [{"md": md, "res": res}], "suites": []}
    return {"report": {"title": title, "info": [], "nb_threads": 1, "start": R.T0, "end": R.T0 + 6, "saving": None, "setup": None,
                       "teardown": None, "suites": [suite]}}


# minimal witnesses of the open findings (D8), replayed first on every run; JSON must be clean on all of them
WITNESSES = [
    _w(msg=""),                       # C09/xml/empty-text-loads-None
    _w(msg="a\rb"),                   # C09/xml/cr-becomes-lf
    _w(msg="\x01"),                   # C09/xml/non-xml-char-unloadable
    _w(step_desc="￾"),           # C09/xml/non-xml-char-unloadable (attribute position)
    _w(msg="\ud800"),                 # C09/xml/lone-surrogate-save-fails
    _w(details=""),                   # C09/xml/empty-status-details-loads-None
    _w(links=[["http://x", ""]]),     # C09/xml/empty-link-name-loads-None
    _w(check_details=""),             # C09/xml/empty-text-loads-None (optional text)
    _w(title=""),
]
XmlStream.corpus = WITNESSES
JsonStream.corpus = WITNESSES


def streams(ctx):
    return [JsonStream(), XmlStream(), EtNorm(), TimeLayer()]

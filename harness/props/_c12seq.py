"""
C12.rereport — report-based selection SEVERAL TIMES in one process on the SAME report path, the report replaced in between.

Property C12: "… including report-based selection": `--from-report DIR` / the implicit `./report` with `--passed`, `--failed`,
`--skipped`, `--non-passed`, `--grep` select the tests whose results in THE REPORT are accepted.  The report is the one that
is at that path when the selection is made: run → `lcc show/run --failed` → fix → run again (report directory rotation keeps
the path) → `lcc show/run --failed` again, from a wrapper script, a CI helper, a test harness calling `lemoncheesecake.cli.main`.

A case: one project tree + rounds; round k saves report R_k (JSON or XML backend) at the one report path of the case (the
previous report directory is removed first, as the rotation does), then
    via  filter : the real parser + `make_test_filter` + `load_suites_from_project`     (as C12.report)
         main   : `lemoncheesecake.cli.main(["show", …])` on a project designated by $LCC_PROJECT, the selection read from the output
and, every round, `lemoncheesecake.reporting.load_report(path)` directly (the loader).
Oracle: round k is judged by C12.report's oracle (reference selection) on R_k; a failure that disappears when an EARLIER
report of the case is put in R_k's place is reported as `C12/report/stale-report`.
Model: `Model/ReportStore.lean` (`run`), driver op `reportseq`; theorems `Props/C12Store.lean`.
"""
import contextlib
import io
import json
import os
import re
import shutil
import sys
import tempfile
import warnings

import common as C
from props import c12 as K

_ANSI = re.compile(r"\x1b\[[0-9;]*m")
TREES = {}          # key -> project tree of the case being observed (read by the generated project.py)


def project_for(key, directory):
    return K.make_project([K.build_suite(t) for t in TREES[key]], directory)


def _round_case(case, k, report=None):
    r = case["rounds"][k]
    return {"mode": "cli", "how": "built", "backend": case["backend"], "cli": r["cli"], "suites": case["suites"],
            "report": r["report"] if report is None else report}


def _save(case, report, rdir):
    shutil.rmtree(rdir, ignore_errors=True)          # report directory rotation: a new directory under the same path
    os.makedirs(rdir)
    rep = K.build_report(report)
    if case["backend"] == "json":
        from lemoncheesecake.reporting.backends.json_ import JsonBackend
        JsonBackend().save_report(os.path.join(rdir, "report.js"), rep)
    else:
        from lemoncheesecake.reporting.backends.xml import XmlBackend
        XmlBackend().save_report(os.path.join(rdir, "report.xml"), rep)


def _via_main(case, argv, top, key):
    from lemoncheesecake.cli import main
    with open(os.path.join(top, "project.py"), "w") as f:
        f.write("from props import _c12seq\nproject = _c12seq.project_for(%r, %r)\n" % (key, top))
    saved = {k: os.environ.get(k) for k in ("LCC_PROJECT", "LCC_PROJECT_FILE")}
    os.environ["LCC_PROJECT"] = top
    os.environ.pop("LCC_PROJECT_FILE", None)
    out = io.StringIO()
    try:
        with contextlib.redirect_stdout(out), contextlib.redirect_stderr(io.StringIO()):
            try:
                ret = main(["show"] + argv)
            except SystemExit:
                return {"outcome": "cli-rejected"}
            except Exception as e:
                return {"outcome": "raised:" + type(e).__name__}
    finally:
        for k, v in saved.items():
            if v is None:
                os.environ.pop(k, None)
            else:
                os.environ[k] = v
    if isinstance(ret, str):
        return {"outcome": K.classify_user_error(ret)}
    tests, suites = [], []
    for line in _ANSI.sub("", out.getvalue()).splitlines():
        s = line.strip()
        if s.startswith("- "):
            tests.append(s[2:].split(" ")[0])
        elif s.startswith("* "):
            suites.append(s[2:].split(" ")[0])
    return {"outcome": "ok", "tests": tests, "suites": suites, "empty_suites": []}


def observe(case, base):
    F, T, SC, U, Project, UserError, R = K._lcc()
    top = tempfile.mkdtemp(prefix="c-", dir=base)          # a path this process has never seen; the same for every round
    rdir = os.path.join(top, "report")
    key = top
    TREES[key] = case["suites"]
    cwd = os.getcwd()
    old = sys.dont_write_bytecode
    sys.dont_write_bytecode = True
    rounds = []
    try:
        with warnings.catch_warnings():
            warnings.simplefilter("ignore")
            for k, r in enumerate(case["rounds"]):
                _save(case, r["report"], rdir)
                o = {}
                rounds.append(o)
                try:
                    o["report"] = K.canon_report(R.load_report(rdir))
                except Exception as e:
                    o["outcome"] = "raised:" + type(e).__name__
                    continue
                argv = K.cli_argv(r["cli"], rdir)
                if argv is None:
                    o["outcome"] = "cli-cannot-express"
                    continue
                if not r["cli"].get("from_report"):
                    os.chdir(top)               # the implicit ./report of the current directory
                try:
                    if r["via"] == "main":
                        o.update(_via_main(case, argv, top, key))
                        continue
                    args = K.parse_cli(argv)
                    if args is None:
                        o["outcome"] = "cli-rejected"
                        continue
                    try:
                        flt = F.make_test_filter(args)
                    except UserError as e:
                        o["outcome"] = K.classify_user_error(e)
                        continue
                    except Exception as e:
                        o["outcome"] = "raised:" + type(e).__name__
                        continue
                    finally:
                        os.chdir(cwd)
                    o.update(K.observe_selection(case["suites"], flt, top))
                    o["kind"] = type(flt).__name__
                    o["accepted"] = list(getattr(flt, "_tests", []))
                finally:
                    os.chdir(cwd)
        return {"rounds": rounds}
    finally:
        os.chdir(cwd)
        sys.dont_write_bytecode = old
        TREES.pop(key, None)
        shutil.rmtree(top, ignore_errors=True)
        for name in [n for n in sys.modules if n.startswith(top)]:
            del sys.modules[name]


_RS = None


def _judge(case, k, o, report=None):
    global _RS
    if _RS is None:
        _RS = K.ReportStream()
    c = _round_case(case, k, report)
    if case["rounds"][k]["via"] == "main" and o.get("outcome") not in ("cli-cannot-express", "cli-rejected"):
        fails = K.oracle_selection(c, o, prefix="C12/report")
        if "report" in o:
            a = [(K.hpath(h + (r["node"],)), r["status"]) for h, r in K.walk_tests(c["report"])]
            b = [(K.hpath(h + (r["node"],)), r["status"]) for h, r in K.walk_tests(o["report"])]
            if a != b:
                fails.append(C.Failure("C12/report/load-changed-paths-or-statuses", "saved %s, loaded %s" % (a, b)))
        return fails
    return _RS.oracle(c, o)


def failures(case, obs):
    fails = []
    for k, o in enumerate(obs["rounds"]):
        fs = _judge(case, k, o)
        if not fs:
            continue
        earlier = [j for j in range(k) if case["rounds"][j]["report"] != case["rounds"][k]["report"]
                   and not _judge(case, k, o, report=case["rounds"][j]["report"])]
        if earlier:
            fails.append(C.Failure("C12/report/stale-report",
                                   "round %d (%s, %s): a new report was saved at the report path, but the selection / the loaded report is "
                                   "that of the report saved in round %d: %s" % (k, case["rounds"][k]["via"], K.cli_argv(case["rounds"][k]["cli"], "R"),
                                                                                 earlier[-1], fs[0].message)))
        else:
            for f in fs:
                fails.append(C.Failure(f.signature, "round %d (%s): %s" % (k, case["rounds"][k]["via"], f.message), f.details))
    return fails


def request(case, obs):
    rounds = []
    for r, o in zip(case["rounds"], obs["rounds"]):
        if o.get("outcome") in ("cli-cannot-express", "cli-rejected") or not K.grep_model_ok(r["cli"], r["report"]):
            return None
        rounds.append({"path": "R", "cli": K.enc_cli(r["cli"]), "report": [K.enc_tree(t, K.enc_res) for t in r["report"]]})
    return {"op": "reportseq", "suites": [K.enc_tree(t, K.enc_node) for t in case["suites"]], "rounds": rounds}


def compare(case, obs, ans):
    if "rounds" not in ans:
        return "model error: %s" % (ans,)
    for k, (r, o, a) in enumerate(zip(case["rounds"], obs["rounds"], ans["rounds"])):
        if r["via"] == "main":
            o = {kk: v for kk, v in o.items() if kk in ("outcome", "tests", "suites")}
        d = K.compare_selection(o, a)
        if d:
            return "round %d: %s" % (k, d)
    return None


def gen_cli(rng, trees):
    cli = K.gen_filter(rng, trees, allow_flags=False) if rng.random() < 0.3 else K.empty_cli()
    r = rng.random()
    if r < 0.75:
        bits = rng.randint(1, 15)
        for b, k in enumerate(("passed", "failed", "skipped", "non_passed")):
            if bits >> b & 1:
                cli[k] = True
    elif r < 0.85:
        cli["grep"] = rng.choice(K.GREP_WORDS + ["GOT", "Step"])
    if rng.random() < 0.5 or not K.ref_report_based(cli):
        cli["from_report"] = True
    if K.cli_argv(cli, "R") is None or K.has_colon(cli):
        for k in ("paths", "descs", "tags", "props", "links"):
            cli[k] = []
    return cli


def gen_case(rng, i=0):
    trees = K.gen_forest(rng, big=False)
    backend = "json" if rng.random() < 0.75 else "xml"
    n = rng.choice([2, 2, 3])
    rounds = []
    cli = gen_cli(rng, trees)
    for k in range(n):
        if k and rng.random() < 0.15:
            report = rounds[-1]["report"]                 # the report was not replaced
        else:
            report = K.derive_report(rng, trees)
        if k and rng.random() < 0.3:
            cli = gen_cli(rng, trees)
        rounds.append({"report": report, "cli": dict(cli), "via": rng.choice(["filter", "filter", "main"])})
    case = {"suites": trees, "backend": backend, "rounds": rounds}
    if backend == "xml":
        def fix(nd):
            nd["props"] = [[k, v or "0"] for k, v in nd["props"]]
        for _, s in K.walk_suites(trees):
            fix(s["node"])
            for nd in s["tests"]:
                fix(nd)
        for r in rounds:
            for _, s in K.walk_suites(r["report"]):
                fix(s["node"])
                for x in s["tests"]:
                    fix(x["node"])
    return case


def features(case, obs):
    out = ["rounds=%d" % len(case["rounds"]), "backend=" + case["backend"]]
    for k, (r, o) in enumerate(zip(case["rounds"], obs["rounds"])):
        out.append("via=" + r["via"])
        out.append("outcome=" + str(o.get("outcome")))
        out.append("explicit-from-report" if r["cli"].get("from_report") else "implicit-report-dir")
        if k:
            p = case["rounds"][k - 1]
            if p["report"] == r["report"]:
                out.append("report-unchanged")
            else:
                a = K.ref_expected(_round_case(case, k))
                b = K.ref_expected(_round_case(case, k, report=p["report"]))
                out.append("report-replaced:" + ("selection-changes" if a != b else "same-selection"))
            out.append("same-cli" if p["cli"] == r["cli"] else "other-cli")
    return out


def nontrivial(case, obs):
    for k in range(1, len(case["rounds"])):
        p = case["rounds"][k - 1]
        if p["report"] != case["rounds"][k]["report"] and obs["rounds"][k].get("outcome") == "ok" and \
                K.ref_expected(_round_case(case, k)) != K.ref_expected(_round_case(case, k, report=p["report"])):
            return True
    return False


def shrink(case):
    rounds = case["rounds"]
    for i in range(len(rounds)):
        if len(rounds) > 1:
            yield dict(case, rounds=rounds[:i] + rounds[i + 1:])
    for i, r in enumerate(rounds):
        if r["via"] != "filter":
            yield dict(case, rounds=rounds[:i] + [dict(r, via="filter")] + rounds[i + 1:])


def _demo_rounds(vias=("filter", "filter"), **kw):
    d = K.ReportStream._demo(**kw)
    rep1 = d["report"]
    rep2 = json.loads(json.dumps(rep1))
    # the second run: `b` was fixed (failed -> passed), `a` broke
    rep2[0]["tests"][0]["status"] = "failed"
    rep2[0]["tests"][1]["status"] = "passed"
    return {"suites": d["suites"], "backend": "json",
            "rounds": [{"report": rep1, "cli": d["cli"], "via": vias[0]}, {"report": rep2, "cli": dict(d["cli"]), "via": vias[1]}]}


CORPUS = [_demo_rounds(failed=True, from_report=True), _demo_rounds(passed=True), _demo_rounds(non_passed=True, vias=("main", "main")),
          _demo_rounds(failed=True, vias=("filter", "main")), dict(_demo_rounds(skipped=True, failed=True, from_report=True), backend="xml"),
          _demo_rounds(grep="grepable", vias=("main", "filter"))]


class ReportSeq(C.Stream):
    name = "C12.rereport"
    quick_cases = 220
    thorough_cases = 2500
    quick_seconds = 14
    thorough_seconds = 150
    chunk = 40
    corpus = CORPUS

    def setup(self, ctx):
        self.dir = tempfile.mkdtemp(prefix="lccverif-c12seq-")

    def teardown(self, ctx):
        shutil.rmtree(self.dir, ignore_errors=True)

    def gen(self, rng, i):
        return gen_case(rng, i)

    def impl(self, case):
        base = getattr(self, "dir", None) or tempfile.mkdtemp(prefix="lccverif-c12seq-")
        return observe(case, base)

    def oracle(self, case, obs):
        return failures(case, obs)

    def request(self, case, obs):
        return request(case, obs)

    def compare(self, case, obs, ans):
        return compare(case, obs, ans)

    def nontrivial(self, case, obs):
        return nontrivial(case, obs)

    def features(self, case, obs):
        return features(case, obs)

    def shrink(self, case):
        return shrink(case)

"""C04 — test dependencies: ordering, skip propagation, early rejection of bad graphs."""
import common as C
from props._runcommon import RUN_TRUSTED, RUN_ASSUMPTIONS, PropRunStream
from run import selftest as W

PROPERTY = "C04"
LEAN_MODULES = ["LccModel.Props.C04", "LccModel.Props.C01Graph"]
PROPS_FILES = ["LccModel/Props/C04.lean"]
NAMESPACES = {"LccModel/Props/C04.lean": "LccModel.C04"}
DRIVER = "drivers/Run.lean"
TRUSTED_BASE = RUN_TRUSTED + ["scheduler-only stream: harness/props/_sched.py (drivers/Sched.lean)", "rejection of cyclic / unknown / unscheduled dependencies before anything executes: C14's Model/Deps.lean theorems (resolve_ok_iff) and stream C14.validate"]
ASSUMPTIONS = RUN_ASSUMPTIONS + []
RULE = 'sched stream: random dependency DAG × behaviours × threads × gates; run stream: generated project (harness/run/gen.py) × nb_threads 1..8 × gate strategy (off/fifo/lifo/random) forcing completion orders; non-trivial = ≥ 2 tests, ≥ 1 body entered, ≥ 8 events; distinct = hash of the case (project + schedule parameters); C04 additionally needs ≥ 1 dependency edge'
EXPLANATION = 'Dependency ordering (direct and transitive), run-only-if-dependencies-succeeded and skip propagation are Lean theorems over every task graph and interleaving, instantiated for every valid project through buildTasks (C01Graph.test_starts_after_its_dependencies); real runs are replayed on the model and checked by the oracle. Accepted real traces are provably executions of the scheduler model (C01Accept.accepted_dependencies_finished_before_start, …_test_with_failed_dependency_is_skipped).'


def witness(title_prefix):
    """corpus case built from the hand-written witness table of harness/run/selftest.py"""
    for title, sig, project, cfg in W.WITNESSES:
        if title.startswith(title_prefix):
            return {"project": dict(project, nb_threads=cfg["n"]), "strategy": cfg["strategy"], "gseed": cfg["gseed"],
                    "interrupt": cfg["interrupt"], "fault": cfg["fault"]}
    raise KeyError(title_prefix)


from props._sched import SchedStream


class Sched(SchedStream):
    name = "C04.sched"
    driver = "drivers/Sched.lean"
    quick_cases = 300
    quick_seconds = 30


class Run(PropRunStream):
    name = "C04.run"
    prop = "C04"
    profile = "basic"
    oracles = ("C04", "C08")
    keep_prefixes = ("C04/",)
    quick_cases = 330
    quick_seconds = 50
    corpus = [C.jsonable(c) for c in []]


def _disabled_dep_witness():
    """suite s1's setup fails (failed check in its suite fixture), its DISABLED test t1 is 'skipped' by the scheduler
    (reported disabled); s2.t4 depends on s1.t1 only and is skipped although all its dependencies are passed or disabled"""
    from run.selftest import _f, _p, _s, _t
    return {"project": _p([_s("s1", [_t("t0", ["f3"]), _t("t1", rank=2, disabled=True)]),
                           _s("s2", [_t("t4", deps=[["s1", "t1"]])], rank=2)],
                          [_f("f3", "suite", [{"a": "check", "ok": False}])], n=1),
            "strategy": "off", "gseed": 1, "interrupt": None, "fault": None}


from run import witnesses2 as W2  # noqa: E402

Run.corpus = [_disabled_dep_witness()] + W2.ALL_DISABLED_SUITES + W2.CONTROLS2


# ---- the declaration path: stacked depends_on decorators, predicates, validation of the dependency graph -------------------
from props._decl import DeclStream, DECL_TRUSTED, DEPS_RULE, CORPUS_DEPS
from props._declrun import DeclRunStream, DECLRUN_TRUSTED, DECLRUN_RULE
from props import _declrun_corpus as DC


from props._decl_corpus2 import DeclParamDeps, CORPUS_PARAM_DEPS


class Decl(DeclParamDeps):
    """generated classes with dense dependency graphs (valid and invalid) through the real loader and PreparedProject.create"""
    name = "C04.decl"
    profile = "deps"
    oracles = ("C04",)
    quick_cases = 150
    quick_seconds = 16
    thorough_cases = 1500
    thorough_seconds = 300
    corpus = CORPUS_DEPS + CORPUS_PARAM_DEPS


class DeclRun(DeclRunStream):
    """run-level projects declared with stacked depends_on decorators / predicates / parametrized groups, under the recorder"""
    name = "C04.declrun"
    prop = "C04"
    profile = "basic"
    oracles = ("C04", "C08")
    keep_prefixes = ("C04/",)
    quick_cases = 110
    quick_seconds = 14
    thorough_cases = 1500
    thorough_seconds = 300
    decl_opts = dict(p_stack=0.8, p_pred=0.35, p_group=0.35)
    corpus = DC.C04_CORPUS

    def prepare_project(self, project, rng=None):
        # denser dependency graphs than the run-level generator gives: up to 3 dependencies per test
        from props._declrun import densify_deps, normalise_project
        return densify_deps(rng, normalise_project(project))


LEAN_MODULES = LEAN_MODULES + ["LccModel.Props.C04Decl"]
PROPS_FILES = PROPS_FILES + ["LccModel/Props/C04Decl.lean"]
NAMESPACES = dict(NAMESPACES, **{"LccModel/Props/C04Decl.lean": "LccModel.C04Decl"})
TRUSTED_BASE = TRUSTED_BASE + DECL_TRUSTED + DECLRUN_TRUSTED
RULE = RULE + "; " + DEPS_RULE + "; " + DECLRUN_RULE


LEAN_MODULES = LEAN_MODULES + ["LccModel.Props.C04Setup"]
PROPS_FILES = PROPS_FILES + ["LccModel/Props/C04Setup.lean"]
NAMESPACES = dict(NAMESPACES, **{"LccModel/Props/C04Setup.lean": "LccModel.C04Setup"})
RULE = RULE + ("; run stream also: in 12 % of the projects one suite (nested in 3 of 4 cases where there is one) with a setup phase has ALL its "
               "own tests disabled (each test, or the suite), 65 % of those under --force-disabled")
EXPLANATION = EXPLANATION + (" Suites whose own tests are all disabled (Props/C04Setup): under --force-disabled every suite with a setup phase, "
                             "at any depth, has its setup and teardown tasks and each of its tests waits for the setup task; the oracle "
                             "reports a test body entered while the setup_suite hook of its suite never ran.")


def streams(ctx):
    return [Sched(), Run(), Decl(), DeclRun()]

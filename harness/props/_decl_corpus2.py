"""
C04.decl, second corpus + a feature-counting subclass: a test that is BOTH `@lcc.parametrized` and `@lcc.depends_on`.

Every test a parametrized declaration stands for carries every dependency the declaration names (`C04Decl.expansion_dependencies`:
∀ declarations, ∀ variants; `C01Expand.expansion_inherits`: every variant inherits the declaration's metadata).  The minimised
inputs below are controls (nothing fails on the unchanged tree): one suite, a plain test `login` that fails / passes, and a
`checkout` test with two parameter sets that depends on it — by path, by predicate, in a decorator above / below `parametrized` —
plus the two variants that must be REJECTED BEFORE ANYTHING RUNS: an unknown dependency path, and a dependency the filter leaves
out of the run.  The oracle that decides them is `_decl.oracle_c04` unchanged (`declared-dependency-not-loaded`,
`unknown-dependency-accepted`, `unscheduled-dependency-accepted`, `user-code-ran-before-rejection`, `resolved-dependencies-differ`,
`executed-despite-failed-dependency`, `not-skipped-after-failed-dependency`, `started-before-dependency-finished`): its graph is built
from the DECLARATION of every loaded test (`t["decl"]`), so it already speaks of every variant.
"""
from props._decl import DeclStream, _c, _t, declared_graph, flat_deps, flat_tests, graph_defects, iter_decls, scheduled_paths

_TWO = {"form": "dicts", "names": ["cur"], "sets": [["eu"], ["us"]], "naming": {"k": "default"}}
_CSV = {"form": "csv-str", "names": ["a", "b"], "sets": [[1, "x"], [2, "y"]], "naming": {"k": "custom", "which": "vals"}}

CORPUS_PARAM_DEPS = [
    # the dependency FAILS: both variants must be skipped, neither body runs
    {"classes": [_c("shop", [_t("login", behav="fail"), _t("checkout", dep_groups=[["shop.login"]], param=_TWO)])], "mode": "dag"},
    # the dependency passes and is slow: both variants start after it has finished (every thread count)
    {"classes": [_c("shop", [_t("login", behav="slow"), _t("checkout", dep_groups=[["shop.login"]], param=_TWO, order=9)])], "mode": "dag"},
    # the dependency is declared AFTER the parametrized test, written as a predicate; CSV parameters, callable naming scheme
    {"classes": [_c("shop", [_t("checkout", dep_groups=[[{"pred": "name=login"}]], param=_CSV, order=2), _t("login", behav="fail")])], "mode": "dag"},
    # UNKNOWN dependency path on a parametrized test: rejected before anything runs
    {"classes": [_c("shop", [_t("login"), _t("checkout", dep_groups=[["shop.log_in"]], param=_TWO)])], "mode": "unknown"},
    # the dependency is FILTERED OUT of the run (only the variants are kept): rejected before anything runs
    {"classes": [_c("shop", [_t("login"), _t("checkout", dep_groups=[["shop.login"]], param=_TWO)])], "mode": "dag",
     "filter": {"paths": ["shop.checkout_1", "shop.checkout_2"]}},
    # … also when only ONE variant is kept, and when the dependency sits in another suite
    {"classes": [_c("auth", [_t("login", behav="fail")]),
                 _c("shop", [_t("checkout", dep_groups=[["auth.login"]], param=_TWO), _t("receipt", dep_groups=[["shop.checkout_2"]])])],
     "mode": "dag", "filter": {"paths": ["shop.checkout_2", "shop.receipt"]}},
    # a variant is itself a dependency of a later test, and depends on a failing test (skip propagates through the variant)
    {"classes": [_c("auth", [_t("login", behav="fail")]),
                 _c("shop", [_t("checkout", dep_groups=[["auth.login"]], param=_TWO), _t("receipt", dep_groups=[["shop.checkout_2"]])])], "mode": "dag"},
]


class DeclParamDeps(DeclStream):
    """`C04.decl` with the features of the parametrized + depends_on input class counted"""

    def features(self, case, obs):
        f = list(DeclStream.features(self, case, obs))
        extra = set()
        for d, _, _, vis in iter_decls(case["classes"]):
            if d["param"] is not None and flat_deps(d) and vis:
                extra.add("parametrized+depends_on/sets=%d" % len(d["param"]["sets"]))
                if any(not isinstance(x, str) for x in flat_deps(d)):
                    extra.add("parametrized+depends_on/predicate")
        if "tree" in obs.get("load", {}) and not obs.get("empty") and not obs.get("filter_empty"):
            g = declared_graph(case, obs)
            params = {".".join(p) for p, t, _ in flat_tests(obs["load"]["tree"]) if t["params"]}
            for kind, t, _ in graph_defects(g, scheduled_paths(case, obs)):
                if t in params and kind in ("unknown", "unscheduled"):
                    extra.add("parametrized-test-with-%s-dependency%s" % (kind, "/rejected" if "resolve_error" in obs else "/ACCEPTED"))
            if any(t in params and items for t, items in g.items()) and "resolve_error" not in obs and obs.get("runs"):
                extra.add("parametrized+depends_on/run")
        return sorted(set(f) | extra)

"""C06 — logs never leak between concurrently running tests or threads (models M3, M4, M14).

Streams
  sess         (reused from props/_session.py) Session API calls issued by real threads in lock-step vs. M3; oracle: every
               attachment a fired event references exists on disk with the written content at that moment, names distinct
               (blocks left by an exception — `attachAbort` — must not be referenced at all).
  C06.run      k tests x 0..3 lcc.Threads each through the REAL runner.run_suites, concurrently (nb_threads 2..6) or one at a
               time (1 worker), the REAL console reporting backend attached as `lcc run` does (sequential / parallel flavour,
               its output routed away from the check's stdout); suite trees with NESTING whose names repeat across levels
               (alpha / alpha.beta / beta / beta.alpha, a sub-suite named like its parent) and same-named tests in same-named
               suites — every payload names the FULL PATH of its test; step descriptions and record texts that are empty,
               blank, several lines, very long; self-describing payloads; a turn controller releases the logging calls of the live
               emitters in seeded interleavings (several at once when the line scheduler is on); the final report
               and the attachments directory are decoded by the oracle; the recorded fired-event stream is folded
               by the Lean writer model and the resulting report compared with the real one.
  C06.attach   real threads hammering Session.prepare_attachment under the line-level scheduler (pre-emption
               between any two source lines of session.py); the observed interleaving of atomic steps is replayed
               on the M14 acceptor (with the lock) and the handed-out numbers compared.
  C06.store    histories of what a test does to ITS OWN files (write in place, append, truncate, replace, unlink, symlink,
               relative spellings) interleaved with save_attachment_file / save_image_file / save_attachment_content /
               prepare_attachment calls on a real Session, 1..3 threads in lock-step; oracle: every attachment holds, when
               its event fires AND at the end of the history, the content its source had when it was attached; the
               history is replayed on the file-store model M14c (AttachStore.step, copy mode).
"""
import inspect
import os
import re
import shutil
import sys
import tempfile
import threading
import time
import urllib.parse

import common as C
from gen import reports as R
from props import _session
from sched import linesched as LS

PROPERTY = "C06"
LEAN_MODULES = ["LccModel.Props.C06", "LccModel.Props.C06Store", "LccModel.Props.C06Loc", "LccModel.Props.C06Name", "LccModel.Proto", "LccModel.ProtoReport", "LccModel.ProtoSession"]   # the last three: what drivers/C06.lean imports besides the models
PROPS_FILES = ["LccModel/Props/C06.lean", "LccModel/Props/C06Store.lean", "LccModel/Props/C06Loc.lean", "LccModel/Props/C06Name.lean"]
NAMESPACES = {"LccModel/Props/C06.lean": "LccModel.C06", "LccModel/Props/C06Store.lean": "LccModel.C06Store",
              "LccModel/Props/C06Loc.lean": "LccModel.C06Loc", "LccModel/Props/C06Name.lean": "LccModel.C06Name"}
DRIVER = "drivers/C06.lean"
TRUSTED_BASE = [
    "Lean 4.33.0 kernel; axioms of the property theorems within {propext, Classical.choice, Quot.sound}",
    "hand-written models: Model/Session.lean (M3, session.py cursor protocol), Model/Writer.lean (M4, reporting/writer.py), "
    "Model/Threads.lean namespace Attach (M14, the attachment counter under _attachment_lock), Model/AttachStore.lean (M14c: directory "
    "entries and i-nodes of the test's files and of the attachments directory; save_attachment_file copies)",
    "POSIX file semantics as modelled in M14c: open(p, 'w'/'a') writes the i-node p resolves to (through a symlink too), os.replace "
    "gives the path a new i-node, shutil.copy reads the source now and writes a new file",
    "correspondence harness harness/props/c06.py + harness/props/_session.py + harness/sched/linesched.py "
    "(real threads, real runner, turn controller, sys.settrace line scheduler)",
    "threading.local gives every thread its own cursor; ids of simultaneously live threads differ (CPython/OS, not modelled)",
    "CPython pre-emption finer than a source line (between byte codes of one line, e.g. inside `count += 1`) is modelled "
    "(readInc/writeInc) but cannot be steered by the harness; dict/list/queue operations are atomic under the GIL",
]
ASSUMPTIONS = [
    "a thread id stands for one live thread; an OS thread ident may be reused only after its thread ended",
    "user code logs through the public API (lcc.log_*, check_that/log_check, log_url, save_attachment_*, set_step, lcc.Thread)",
    "a result (test, suite setup/teardown, session setup/teardown) is started once per run (no second TestStart for a path)",
]
RULE = ("C06.run: suite forests are flat (s0, s1) or nested with names from a pool of three at EVERY level (a top-level suite named like "
        "a sub-suite of an earlier / a later top-level suite, a sub-suite named like its parent, the same test name in same-named suites); "
        "1 worker (tests one at a time, console backend sequential) or 2..6; the real console backend attached in 92 % of the cases, "
        "terminal width 1..120; step descriptions blank / multi-line / 200..5000 characters / empty (empty: generated when the tree takes "
        "\"\" for a step, always in the corpus), log / check / url / attachment texts decorated the same way, empty log messages and check "
        "descriptions.  "
        "C06.run / C06.store: the source of save_attachment_file / save_image_file is also a scratch file the emitter REUSES "
        "(rewritten in place, appended to, truncated, replaced, deleted after it was attached; attached again with other contents), "
        "spelled absolute or relative, or reached through a relative / absolute symlink; attachments are compared with the content at "
        "attach time when the event fires and again at the END of the run.  "
        "C06.store: a case counts if a source was modified in place after it had been attached.  "
        "attachment operations include the ones that FAIL before (or after) the file is written — a raising `with prepare_attachment` / "
        "`prepare_image_attachment` body, handled by the test or not, nested in a block that completes, `save_attachment_file` / "
        "`save_image_file` on a missing source — in all three streams.  "
        "C06.run: a case counts if >= 2 emitters (tests or lcc.Threads) were live at once and their log calls interleave in "
        "the fired sequence (pattern A..B..A); C06.attach: >= 2 threads and the recorded line trace switches threads inside "
        "prepare_attachment; sess: >= 2 thread ids or a step change; distinct = hash of the case incl. schedule seed")
EXPLANATION = ("Theorems over all interleavings (LccModel.C06.*): cursor locality and event ownership (M3 invariant), every log "
               "lands in the emitting thread's own step at the event's location and nothing else changes (M3 composed with the "
               "writer M4); a location is resolved by its FULL path from the top level: in every report tree with distinct sibling "
               "names (names free to repeat across levels and parents) result nodes and locations correspond one to one and a record "
               "changes the node at its own location only (LccModel.C06Loc.*, with the refutation of the any-depth lookup); attachment numbers strictly increasing under the lock for any number of threads (M14) with the "
               "lock-free refutation, file written before the event is fired; a stored attachment keeps the content its source had when it was "
               "attached whatever the test does to its files afterwards (LccModel.C06Store: copy semantics over a model of i-nodes and "
               "directory entries, with the refutation of the linking variant); the attachment events of the stream are exactly the "
               "blocks that were left normally (a block left by an exception fires nothing; every fired attachment was prepared by an "
               "attachBegin of the same thread; block numbers pairwise distinct). Tied to the code by three differential streams "
               "against real threads and the real runner, incl. line-level pre-emption inside session.py / writer.py.")

_HARD_TIMEOUT = 90.0


# ------------------------------------------------------------------------------------------------
# turn controller: releases the logging calls of the live emitters in a seeded interleaving
# ------------------------------------------------------------------------------------------------

class Turns:
    def __init__(self, rng, strategy="random", width=1, settle=0.004, grant=0.05):
        self.rng, self.strategy, self.width = rng, strategy, max(1, width)
        self.settle, self.grant = settle, grant
        self.cv = threading.Condition()
        self.waiting = {}          # emitter -> Event (insertion order = arrival order)
        self.live = set()
        self.blocked = set()
        self.running = set()
        self.stop = False
        self.timeouts = 0
        self.released = 0
        self.max_live = 0
        self.rr = 0
        self.thread = threading.Thread(target=self._loop, daemon=True, name="lccverif-turns")

    def start(self):
        if self.strategy != "free":
            self.thread.start()

    def finish(self):
        with self.cv:
            self.stop = True
            for ev in self.waiting.values():
                ev.set()
            self.waiting.clear()
            self.cv.notify_all()

    def register(self, e):
        with self.cv:
            self.live.add(e)
            self.max_live = max(self.max_live, len(self.live))
            self.cv.notify_all()

    def unregister(self, e):
        with self.cv:
            self.live.discard(e)
            self.running.discard(e)
            self.blocked.discard(e)
            self.cv.notify_all()

    def block(self, e, flag):
        with self.cv:
            (self.blocked.add if flag else self.blocked.discard)(e)
            if flag:
                self.running.discard(e)
            self.cv.notify_all()

    def gate(self, e):
        if self.strategy == "free" or self.stop:
            return
        ev = threading.Event()
        with self.cv:
            self.running.discard(e)
            self.waiting[e] = ev
            self.cv.notify_all()
        if not ev.wait(10.0):
            with self.cv:
                self.timeouts += 1
                self.waiting.pop(e, None)

    def _pick(self, keys):
        if self.strategy == "rr":
            self.rr += 1
            return keys[self.rr % len(keys)]
        if self.strategy == "lifo":
            return keys[-1]
        if self.strategy == "fifo":
            return keys[0]
        return keys[self.rng.randrange(len(keys))]

    def _loop(self):
        while True:
            with self.cv:
                if self.stop:
                    return
                if not self.waiting:
                    self.cv.wait(0.05)
                    continue
                deadline = time.time() + self.settle
                while (len(self.waiting) < len(self.live) - len(self.blocked) and not self.stop):
                    left = deadline - time.time()
                    if left <= 0:
                        break
                    self.cv.wait(left)
                if self.stop:
                    return
                picks = []
                for _ in range(self.width):
                    keys = [k for k in self.waiting if k not in picks]
                    if not keys:
                        break
                    picks.append(self._pick(keys))
                for p in picks:
                    ev = self.waiting.pop(p)
                    self.running.add(p)
                    self.released += 1
                    ev.set()
                deadline = time.time() + self.grant
                while self.running & set(picks) and not self.stop:
                    left = deadline - time.time()
                    if left <= 0:
                        break
                    self.cv.wait(left)
                self.running -= set(picks)


# ------------------------------------------------------------------------------------------------
# generated user code: emitters with self-describing payloads
# ------------------------------------------------------------------------------------------------

def _fs(eid):
    """a file-name fragment for an emitter id, injective (two ids that differ only in `.` / `>` stay apart)"""
    return re.sub(r"[^A-Za-z0-9]", lambda m: "_%02x" % ord(m.group()), eid)


# locations are written `top>sub>test` (`>` between the NAMES of the path: a name may itself contain dots)
_SEP = ">"


def payload(eid, inst, step, seq, kind):
    """self-describing text of one record: emitter (= FULL PATH of its test / hook, `~cK` per lcc.Thread), step instance,
    the description of the step current in the emitting thread (percent-encoded: it may be empty, blank, multi-line, long),
    sequence number, kind"""
    return "P;e=%s;i=%d;s=%s;q=%d;k=%s" % (eid, inst, urllib.parse.quote(step, safe=":#./~"), seq, kind)


_PAYLOAD = re.compile(r"P;e=[^;\s]+;i=\d+;s=[^;\s]*;q=\d+;k=[a-z]+")
_EXC_PAYLOAD = re.compile(r"P;e=[^;\s]+;i=\d+;s=[^;\s]*;q=\d+;k=exc")


def parse_payload(s):
    if not isinstance(s, str) or not s.startswith("P;"):
        return None
    d = {}
    for part in s.split(";")[1:]:
        k, _, v = part.partition("=")
        d[k] = v
    try:
        return {"e": d["e"], "i": int(d["i"]), "s": urllib.parse.unquote(d["s"]), "q": int(d["q"]), "k": d["k"]}
    except (KeyError, ValueError):
        return None


def carried_payload(txt):
    """the payload an entry carries: inside the entry's text (which may be decorated: trailing blanks, more lines, a long
    tail), or — for the error log the framework writes when an exception escapes the user code (`Caught unexpected
    exception …: <traceback>`) — the payload in the exception message"""
    if not isinstance(txt, str):
        return None
    if txt.startswith("Caught unexpected exception"):
        m = _EXC_PAYLOAD.search(txt)
        return m.group(0) if m else None
    m = _PAYLOAD.search(txt)
    return m.group(0) if m else None


_DECOS = ["ws-tail", "multiline", "lead-nl", "trail-nl", "long"]


def decorate(p, deco):
    """the text of a record around its payload: messages / descriptions that are not one short line"""
    if deco == "ws-tail":
        return p + "   "
    if deco == "multiline":
        return p + "\nsecond line\n\nfourth line"
    if deco == "lead-nl":
        return "\n" + p
    if deco == "trail-nl":
        return p + "\n"
    if deco == "long":
        return p + " " + "x" * 3000
    return p


class _Abort(Exception):
    """raised by generated user code inside an attachment operation"""


class _Run:
    """everything one real run shares"""

    def __init__(self, turns, srcdir=None):
        self.srcdir = srcdir      # where the source files of save_attachment_file / save_image_file live
        self.turns = turns
        self.emitted = {}         # eid -> list of {payload, kind, ident, att?}
        self.errors = []
        self.lock = threading.Lock()
        self.children = {}        # eid -> thread object


class Emitter:
    def __init__(self, run, eid, step):
        self.run, self.eid = run, eid
        self.step = step          # description of the step current in this thread
        self.inst = 0             # step instance counter of this emitter
        self.seq = 0
        self.stepno = 0
        self.log = []
        run.emitted[eid] = self.log
        self.kids = {}

    def _next(self, kind):
        p = payload(self.eid, self.inst, self.step, self.seq, kind)
        self.seq += 1
        return p

    def _source(self, p):
        path = os.path.join(self.run.srcdir, "src-%s-%d.txt" % (_fs(self.eid), self.seq))
        with open(path, "w") as fh:
            fh.write(p)
        return path

    def _scratch(self, image=False):
        """the emitter's own scratch / capture file, REUSED for every capture (rewritten in place)"""
        return os.path.join(self.run.srcdir, "scratch-%s.%s" % (_fs(self.eid), "png" if image else "txt"))

    def _spell(self, src, via):
        """how the test names its file: absolute, relative to the working directory, through a symbolic link"""
        if via == "rel":
            return os.path.relpath(src)
        if via in ("symlink-rel", "symlink-abs"):
            link = os.path.join(self.run.srcdir, "lnk-%s-%d.txt" % (_fs(self.eid), self.seq))
            os.symlink(os.path.basename(src) if via == "symlink-rel" else src, link)
            return link
        return src

    @staticmethod
    def _after(src, how, p):
        """what the test does to its file once it is attached (it is the test's file, not the report's)"""
        if how == "overwrite":
            with open(src, "w") as fh:
                fh.write("later content, written after " + p)
        elif how == "append":
            with open(src, "a") as fh:
                fh.write("\n+ appended after the capture")
        elif how == "truncate":
            open(src, "w").close()
        elif how == "replace":
            with open(src + ".new", "w") as fh:
                fh.write("replacement of " + p)
            os.replace(src + ".new", src)
        elif how == "unlink":
            os.unlink(src)

    def _rec(self, p, kind, **extra):
        self.log.append(dict({"payload": p, "kind": kind, "ident": threading.get_ident()}, **extra))

    def _text(self, a, at):
        """the text of the record of act `a` around its payload (`a[at]`, when present: a decoration name)"""
        return a[at] if len(a) > at else None

    def _empty_record(self, emit):
        """a record whose text is EMPTY carries no payload: it is identified by the ordinary record its thread emits right
        after it (same act, no gate in between: inside one step object the two are adjacent)"""
        emit("")
        p = self._next("log")
        self._rec(None, "empty", follower=p)
        return p

    def act(self, a, scripts):
        import lemoncheesecake.api as lcc
        k = a[0]
        if k == "log":
            fn = {"debug": lcc.log_debug, "info": lcc.log_info, "warn": lcc.log_warning, "error": lcc.log_error}[a[1]]
            if self._text(a, 2) == "empty":
                p = self._empty_record(fn)                 # log_info("") then an ordinary log
                lcc.log_info(p)
                self._rec(p, "log", text=p)
                return
            p = self._next("log")
            txt = decorate(p, self._text(a, 2))
            fn(txt)
            self._rec(p, "log", text=txt)
        elif k == "check":
            if self._text(a, 2) == "empty":
                p = self._empty_record(lambda d: _S().log_check(d, bool(a[1]), None))
                lcc.log_info(p)
                self._rec(p, "log", text=p)
                return
            p = self._next("check")
            txt = decorate(p, self._text(a, 2))
            _S().log_check(txt, bool(a[1]), None)
            self._rec(p, "check", text=txt)
        elif k == "url":
            p = self._next("url")
            txt = decorate(p, self._text(a, 1))
            lcc.log_url("http://h/" + p, txt)
            self._rec(p, "url", text=txt)
        elif k == "att":
            p0 = self._next("att")
            # the description IS the content written (compared by the oracle); both may be decorated
            opt0 = a[2] if len(a) > 2 and isinstance(a[2], dict) else {}
            p = decorate(p0, opt0.get("text"))
            # the NAME the test gives the attachment (round 5): any characters, any length (`_session.ATT_NAMES_ODD`); one the file
            # system refuses (`ATT_NAMES_REFUSED`) makes the write raise OSError inside the block — the test handles it, nothing
            # may reference the attachment then.  Which of the two happens is OBSERVED, not predicted.
            name = opt0.get("name")
            if name is not None:
                try:
                    if a[1] == "content":
                        lcc.save_attachment_content(p, name, p)
                    elif a[1] == "image-content":
                        lcc.save_image_content(p, name, p)
                    else:
                        with (lcc.prepare_image_attachment if a[1] == "prepare-image" else lcc.prepare_attachment)(name, p) as path:
                            with open(path, "w") as fh:
                                fh.write(p)
                except OSError:
                    self._rec(p0, "abort", written=False, refused=name)
                    return
                self._rec(p0, "att", text=p)
                return
            if a[1] == "content":
                lcc.save_attachment_content(p, "att.txt", p)
            elif a[1] == "image-content":
                lcc.save_image_content(p, "att.png", p)
            elif a[1] in ("file", "image-file"):
                src = self._source(p)
                (lcc.save_attachment_file if a[1] == "file" else lcc.save_image_file)(src, p)
            elif a[1] in ("file-reuse", "image-file-reuse"):
                # the same scratch file for every capture of this emitter: rewritten in place, attached, and then
                # possibly modified again before the next capture
                opt = a[2] if len(a) > 2 else {}
                src = self._scratch(a[1] == "image-file-reuse")
                with open(src, "w") as fh:
                    fh.write(p)
                (lcc.save_attachment_file if a[1] == "file-reuse" else lcc.save_image_file)(self._spell(src, opt.get("via")), p)
                self._after(src, opt.get("after"), p)
            elif a[1] == "nested":
                # a block left by an exception (handled right there) inside a block that completes
                inner = self._next("abort")
                self._rec(inner, "abort", written=False)
                with lcc.prepare_attachment("att.txt", p) as path:
                    try:
                        with lcc.prepare_image_attachment("in.png", inner):
                            raise _Abort(inner)
                    except _Abort:
                        pass
                    with open(path, "w") as fh:
                        fh.write(p)
            else:
                with (lcc.prepare_image_attachment if a[1] == "prepare-image" else lcc.prepare_attachment)("att.txt", p) as path:
                    with open(path, "w") as fh:
                        fh.write(p)
            self._rec(p0, "att", text=p)
        elif k == "abort":
            # an attachment operation that fails: a[1] = how, a[2] = the test code handles the exception
            how, caught = a[1], a[2]
            p = self._next("abort")
            self._rec(p, "abort", written=(how == "prepare-late"))
            try:
                if how in ("file-missing", "image-file-missing"):
                    missing = os.path.join(self.run.srcdir, "never-written-%d.bin" % self.seq)
                    try:
                        (lcc.save_attachment_file if how == "file-missing" else lcc.save_image_file)(missing, p)
                    except (IOError, OSError) as e:
                        raise _Abort(str(e)[:80])
                    raise AssertionError("copying a missing file did not raise")
                with (lcc.prepare_image_attachment if how == "prepare-image" else lcc.prepare_attachment)("att.txt", p) as path:
                    if how == "prepare-late":
                        with open(path, "w") as fh:
                            fh.write(p)
                    raise _Abort("content producer failed")
            except _Abort:
                if not caught:
                    # not handled by the test code: the framework logs the exception in this thread's current step
                    pe = self._next("exc")
                    self._rec(pe, "exc")
                    raise _Abort(pe)
        elif k == "step":
            # ["step"]: a step with a fresh description; ["step", "again"]: set_step with the description of the step
            # that is current in this thread (a polling loop) — a NEW step instance all the same; ["step", "lit", d]: the
            # description is the literal d (empty, blank, several lines …); ["step", "long", n]: a description of n characters
            self.inst += 1
            if len(a) > 2 and a[1] == "lit":
                self.step = a[2]
            elif len(a) > 2 and a[1] == "long":
                self.stepno += 1
                self.step = ("%s#%d " % (self.eid, self.stepno) + "long description " * (a[2] // 17 + 1))[:max(a[2], 1)]
            elif not (len(a) > 1 and a[1] == "again"):
                self.stepno += 1
                self.step = "%s#%d" % (self.eid, self.stepno)
            lcc.set_step(self.step)
        elif k == "spawn":
            j = a[1]
            child = Emitter(self.run, "%s~c%d" % (self.eid, j), self.step)

            th = lcc.Thread(target=child.main, args=(scripts[j], []), name="lccverif-" + child.eid)
            self.kids[j] = th
            th.start()
        elif k == "join":
            th = self.kids.get(a[1])
            if th is not None:
                self.run.turns.block(self.eid, True)
                try:
                    th.join(30)
                finally:
                    self.run.turns.block(self.eid, False)

    def main(self, script, scripts):
        t = self.run.turns
        t.register(self.eid)
        try:
            for a in script:
                t.gate(self.eid)
                self.act(a, scripts)
        except _Abort:              # a generated failure the test code does not handle: the framework's business
            raise
        except BaseException as e:  # noqa — recorded and re-raised into the framework
            with self.run.lock:
                self.run.errors.append("%s: %s: %s" % (self.eid, type(e).__name__, str(e)[:200]))
            raise
        finally:
            t.block(self.eid, True)
            for th in self.kids.values():
                th.join(30)
            t.unregister(self.eid)


def _S():
    import lemoncheesecake.session as S
    return S


def _read_text(path):
    """content of a file, None when there is no readable regular file behind the name (missing, dangling link)"""
    try:
        with open(path, "rb") as fh:
            return fh.read().decode("utf-8", "replace")
    except (IOError, OSError):
        return None


_ATT_MODES = ["content", "prepare", "content", "prepare", "file", "image-file", "prepare-image", "image-content", "nested",
              "file-reuse", "file-reuse", "image-file-reuse"]
_AFTER = [None, None, "overwrite", "append", "truncate", "replace", "unlink"]
_VIA = [None, None, None, "rel", "symlink-rel", "symlink-abs"]
_ABORT_HOWS = ["prepare", "prepare", "prepare-image", "file-missing", "file-missing", "image-file-missing", "prepare-late"]


def gen_att(rng):
    mode = rng.choice(_ATT_MODES)
    if mode.endswith("-reuse"):
        # the emitter's one scratch file, rewritten in place for this capture; what happens to it afterwards; its spelling
        return ["att", mode, {"after": rng.choice(_AFTER), "via": rng.choice(_VIA)}]
    if mode != "nested" and rng.random() < 0.12:
        return ["att", mode, {"text": rng.choice(["multiline", "long", "ws-tail", "trail-nl"])}]
    if mode in ("content", "image-content", "prepare", "prepare-image") and rng.random() < 0.45:
        # the name of the attachment: odd but legitimate, or (one in four) one the file system refuses — mostly THE SAME long name,
        # so that several emitters (threads, tests running at the same time) use it in one run
        r = rng.random()
        name = (_session.ATT_NAMES_REFUSED[0] if r < 0.17 else rng.choice(_session.ATT_NAMES_REFUSED) if r < 0.25
                else rng.choice(_session.ATT_NAMES_ODD))
        return ["att", mode, {"name": name}]
    return ["att", mode]


# step descriptions that are not one short line of text; "" is an untitled step, a step like any other (D39, repaired)
_STEP_BLANK = [" ", "   ", "\t", " \t "]
_STEP_LINES = ["a\nb", "\nleading newline", "trailing newline\n", "\n", "first\n\nthird", "a\r\nb", "one\ntwo\nthree\n"]


def gen_text(rng, empty_ok=True):
    """decoration of a log message / check description: None (most of them), "empty", or one of _DECOS"""
    r = rng.random()
    if r < 0.80:
        return None
    if r < 0.86 and empty_ok:
        return "empty"
    return rng.choice(_DECOS)


def gen_abort(rng):
    """an attachment operation that fails before (mostly) the file is written; one in four is not handled by the test"""
    return ["abort", rng.choice(_ABORT_HOWS), rng.random() < 0.75]


def gen_step(rng):
    """a step change; one in three sets the description of the current step AGAIN (`set_step("poll")` in a loop); one in four
    has a description that is blank, several lines, very long or empty"""
    r = rng.random()
    if r < 0.30:
        return ["step", "again"]
    if r < 0.55:
        q = rng.random()
        if q < 0.25:
            return ["step", "lit", ""]
        if q < 0.50:
            return ["step", "lit", rng.choice(_STEP_BLANK)]
        if q < 0.88:
            return ["step", "lit", rng.choice(_STEP_LINES)]
        return ["step", "long", rng.choice([200, 1000, 5000])]
    return ["step"]


def _with_text(act, deco):
    return act + [deco] if deco else act


def gen_script(rng, nthreads, size, heavy=False):
    acts = []
    spawned = []
    kinds = ["att", "att", "att", "abort", "log", "step"] if heavy else \
        ["log", "log", "log", "check", "url", "att", "att", "abort", "step", "step"]
    for _ in range(size):
        r = rng.random()
        if len(spawned) < nthreads and r < 0.25:
            acts.append(["spawn", len(spawned)])
            spawned.append(len(spawned))
        elif spawned and r < 0.32:
            acts.append(["join", rng.choice(spawned)])
        else:
            k = rng.choice(kinds)
            if k == "log":
                acts.append(_with_text(["log", rng.choice(["debug", "info", "warn", "info", "error" if rng.random() < 0.2 else "info"])], gen_text(rng)))
            elif k == "check":
                acts.append(_with_text(["check", rng.random() < 0.8], gen_text(rng)))
            elif k == "url":
                acts.append(_with_text(["url"], gen_text(rng, empty_ok=False)))
            elif k == "att":
                acts.append(gen_att(rng))
            elif k == "abort":
                acts.append(gen_abort(rng))
            elif k == "step":
                acts.append(gen_step(rng))
            else:
                acts.append([k])
    while len(spawned) < nthreads:
        pos = rng.randrange(len(acts) + 1)
        acts.insert(pos, ["spawn", len(spawned)])
        spawned.append(len(spawned))
    return acts


def gen_child(rng, size, heavy=False):
    kinds = ["att", "att", "abort", "log", "step"] if heavy else ["log", "log", "log", "check", "url", "att", "att", "abort", "step"]
    out = []
    for _ in range(size):
        k = rng.choice(kinds)
        if k == "log":
            out.append(_with_text(["log", rng.choice(["debug", "info", "warn"])], gen_text(rng)))
        elif k == "check":
            out.append(_with_text(["check", rng.random() < 0.8], gen_text(rng)))
        elif k == "url":
            out.append(_with_text(["url"], gen_text(rng, empty_ok=False)))
        elif k == "att":
            out.append(gen_att(rng))
        elif k == "abort":
            out.append(gen_abort(rng))
        elif k == "step":
            out.append(gen_step(rng))
        else:
            out.append([k])
    return out


# ---- suite trees ---------------------------------------------------------------------------------------------------
# a suite description: {"name", "tests": [...], "setup", "teardown", "subs": [suite descriptions]}; sibling names (suites among
# suites, tests among tests) are distinct — the loader guarantees it —, everything else is free: a name may come back at
# another level or under another parent, and tests of different suites may share their name.

_SUITE_NAMES = ["alpha", "beta", "gamma"]
_TEST_NAMES = ["exchange", "probe", "alpha"]          # a test may also be named like a suite


def _sd(name, subs=()):
    return {"name": name, "tests": [], "setup": None, "teardown": None, "subs": list(subs)}


def walk_suites(suites, prefix=()):
    """(path tuple, suite description) of every suite of the forest, parents first (the order flatten_suites uses)"""
    for sd in suites:
        path = tuple(prefix) + (sd["name"],)
        yield path, sd
        yield from walk_suites(sd.get("subs") or [], path)


def prune_suites(suites):
    """drop the suites that hold no test at any depth"""
    out = []
    for sd in suites:
        sd = dict(sd, subs=prune_suites(sd.get("subs") or []))
        if sd["tests"] or sd["subs"]:
            out.append(sd)
    return out


_SHAPES = {
    # the parent of the same-named sub-suite comes first / comes later
    "sub-then-top": lambda: [_sd("alpha", [_sd("beta")]), _sd("beta")],
    "top-then-sub": lambda: [_sd("beta"), _sd("alpha", [_sd("beta")])],
    # symmetric: whichever top-level suite starts first, the other one is named like one of its sub-suites
    "symmetric": lambda: [_sd("alpha", [_sd("beta")]), _sd("beta", [_sd("alpha")])],
    "like-parent": lambda: [_sd("alpha", [_sd("alpha")]), _sd("beta")],
    "deep": lambda: [_sd("alpha", [_sd("beta", [_sd("alpha")])]), _sd("beta", [_sd("gamma")]), _sd("gamma")],
}


def gen_forest(rng):
    """-> (shape name, forest without tests)"""
    r = rng.random()
    if r < 0.45:
        return "flat", [_sd("s%d" % i) for i in range(rng.choice([1, 1, 2]))]
    if r < 0.82:
        shape = rng.choice(sorted(_SHAPES))
        return shape, _SHAPES[shape]()
    # random: names from a pool of three at every level, at most six suites, depth <= 3

    def level(depth, budget):
        out = []
        for name in rng.sample(_SUITE_NAMES, rng.randint(1, 3 if depth == 0 else 2)):
            if budget[0] <= 0:
                break
            budget[0] -= 1
            sd = _sd(name)
            if depth < 2 and rng.random() < (0.7 if depth == 0 else 0.4):
                sd["subs"] = level(depth + 1, budget)
            out.append(sd)
        return out
    return "random", level(0, [6])


def _dotted_names(rng, suites, heavy, p=0.22):
    """names with dots in them (`@lcc.test(name="v2.status")`, `@lcc.suite(name="api.v2")`, parametrized naming schemes fed with
    versions / addresses) whose halves SPELL THE PATH OF A SIBLING: next to a sub-suite `beta` holding a test `probe`, a test
    named `beta.probe`; next to a top-level suite `alpha` holding a sub-suite `beta`, a top-level suite named `alpha.beta`
    holding tests with the same names.  A location is the list of the ancestors' names: the nodes stay apart."""
    for _, sd in list(walk_suites(suites)):
        for sub in sd.get("subs") or []:
            for t in sub["tests"]:
                name = sub["name"] + "." + t["name"]
                if rng.random() < p and name not in [x["name"] for x in sd["tests"]]:
                    sd["tests"].append(_gen_test(rng, name, heavy))
    for sd in list(suites):
        for sub in sd.get("subs") or []:
            name = sd["name"] + "." + sub["name"]
            if sub["tests"] and rng.random() < p / 2 and name not in [x["name"] for x in suites]:
                suites.append(dict(_sd(name), tests=[_gen_test(rng, t["name"], heavy) for t in sub["tests"][:2]]))


def _gen_test(rng, name, heavy):
    nthr = rng.choice([0, 0, 1, 1, 2, 3])
    return {"name": name, "main": gen_script(rng, nthr, rng.randint(2, 7), heavy),
            "threads": [gen_child(rng, rng.randint(1, 5), heavy) for _ in range(nthr)]}


def gen_run_case(rng, line=None):
    k = rng.randint(2, 6)
    # one worker: tests one at a time (the sequential flavour of the console backend); lcc.Threads still run concurrently
    n = 1 if (line is None and rng.random() < 0.22) else rng.randint(2, 6)
    heavy = line is not None and rng.random() < 0.5     # attachment-heavy scripts: pre-emption inside prepare_attachment
    shape, forest = gen_forest(rng)
    nodes = [sd for _, sd in walk_suites(forest)]
    if shape == "flat":
        for i in range(k):
            rng.choice(nodes)["tests"].append(_gen_test(rng, "t%d" % i, heavy))
    else:
        # the same test name in (nearly) every suite, then more tests up to k; sibling test names stay distinct
        common = rng.choice(_TEST_NAMES[:2])
        for sd in nodes:
            if rng.random() < 0.85:
                sd["tests"].append(_gen_test(rng, common, heavy))
        total = sum(len(sd["tests"]) for sd in nodes)
        for i in range(max(0, k - total)):
            sd = rng.choice(nodes)
            free = [x for x in _TEST_NAMES if x not in [t["name"] for t in sd["tests"]]] or ["t%d" % i]
            sd["tests"].append(_gen_test(rng, rng.choice(free), heavy))
    suites = prune_suites(forest)
    if not suites:
        suites = [dict(forest[0], tests=[_gen_test(rng, "exchange", heavy)], subs=[])]
    _dotted_names(rng, suites, heavy)
    nodes = [sd for _, sd in walk_suites(suites)]
    # hooks that log at the suite-setup / suite-teardown locations while tests of other suites run; a setup hook
    # may start an lcc.Thread itself (Thread.__init__ then fires the held SuiteSetupStart event)
    if rng.random() < 0.35:
        sd = rng.choice(nodes)
        nthr = rng.choice([0, 0, 1])
        sd["setup"] = {"main": gen_script(rng, nthr, rng.randint(1, 4), heavy), "threads": [gen_child(rng, rng.randint(1, 3), heavy) for _ in range(nthr)]}
    if rng.random() < 0.25:
        sd = rng.choice(nodes)
        sd["teardown"] = {"main": gen_child(rng, rng.randint(1, 3), heavy), "threads": []}
    width = 1
    if line is not None:
        width = rng.choice([2, 3, 4])
    elif rng.random() < 0.3:
        width = 2
    sched = {"strategy": rng.choice(["random", "random", "rr", "lifo", "fifo"] + (["free"] if rng.random() < 0.5 else [])),
             "width": width, "seed": rng.randrange(1 << 30)}
    # the console reporting backend, attached as `lcc run` does by default (terminal width: an input); now and then none
    console = None if rng.random() < 0.08 else {"width": rng.choice([80, 80, 80, 120, 40, 12, 4, 1])}
    return {"n": n, "suites": suites, "sched": sched, "line": line, "console": console}


# ------------------------------------------------------------------------------------------------
# the real run
# ------------------------------------------------------------------------------------------------

def _traced_files():
    import lemoncheesecake.session as S
    import lemoncheesecake.reporting.writer as W
    return [os.path.abspath(S.__file__), os.path.abspath(W.__file__)]


class _StdoutRouter:
    """stands in for sys.stdout from the first real run on: what the harness itself prints (main thread / the thread that
    called real_run — VIOLATION lines are parsed from stdout) goes through; what any other thread writes — the console
    backend prints from the event-handling thread, progress lines with "\\r" — is counted and dropped"""

    def __init__(self, real):
        self.real, self.owner, self.count = real, None, 0
        self.lock = threading.Lock()

    def _mine(self):
        t = threading.current_thread()
        return t is threading.main_thread() or t is self.owner

    def write(self, text):
        if self._mine():
            return self.real.write(text)
        with self.lock:
            self.count += len(text)
        return len(text)

    def flush(self):
        if self._mine():
            self.real.flush()

    def isatty(self):
        return False

    def taken(self):
        with self.lock:
            n, self.count = self.count, 0
        return n

    def __getattr__(self, name):
        return getattr(self.real, name)


def _route_stdout():
    if not isinstance(sys.stdout, _StdoutRouter):
        sys.stdout = _StdoutRouter(sys.stdout)
    sys.stdout.owner = threading.current_thread()
    sys.stdout.taken()
    return sys.stdout


def real_run(case):
    import random as _random
    import lemoncheesecake.events as E
    import lemoncheesecake.session as S
    from lemoncheesecake import runner
    from lemoncheesecake.fixture import FixtureRegistry
    from lemoncheesecake.suite import resolve_tests_dependencies
    from lemoncheesecake.suite.core import Suite, Test

    fired = []
    at_fire = {}              # attachment path -> content of the file at the moment its event was fired (None: not readable)
    flock = threading.Lock()
    tmp = tempfile.mkdtemp(prefix="lccverif-c06-")

    class RecEM(E.AsyncEventManager):
        def fire(self, event):
            with flock:
                if type(event).__name__ == "LogAttachmentEvent":
                    at_fire[event.attachment_path] = _read_text(os.path.join(tmp, event.attachment_path))
                fired.append((R.canon_event(event), threading.get_ident()))
                E.AsyncEventManager.fire(self, event)

    sc = case["sched"]
    turns = Turns(_random.Random(sc["seed"]), sc["strategy"], sc.get("width", 1))
    srcdir = tempfile.mkdtemp(prefix="lccverif-c06src-")
    run = _Run(turns, srcdir)
    def build(sd, si, prefix):
        spath = _SEP.join(prefix + [sd["name"]])
        suite = Suite(None, sd["name"], "S:" + spath)
        suite.rank = si
        if sd.get("setup"):
            def setup_suite():
                Emitter(run, spath + "/setup", "Setup suite").main(sd["setup"]["main"], sd["setup"]["threads"])
            suite.add_hook("setup_suite", setup_suite)
        if sd.get("teardown"):
            def teardown_suite():
                Emitter(run, spath + "/teardown", "Teardown suite").main(sd["teardown"]["main"], sd["teardown"]["threads"])
            suite.add_hook("teardown_suite", teardown_suite)
        for ti, td in enumerate(sd["tests"]):
            # the emitter's id is the FULL PATH of its test: same-named tests of same-named suites stay apart
            path = spath + _SEP + td["name"]

            def mk_body(td, path):
                def body():
                    Emitter(run, path, "D:" + path).main(td["main"], td["threads"])
                return body
            test = Test(td["name"], "D:" + path, mk_body(td, path))
            test.rank = ti
            suite.add_test(test)
        for xi, sub in enumerate(sd.get("subs") or []):
            suite.add_suite(build(sub, xi, prefix + [sd["name"]]))
        return suite
    suites = [build(sd, si, []) for si, sd in enumerate(case["suites"])]
    ntests = sum(len(sd["tests"]) for _, sd in walk_suites(case["suites"]))
    resolve_tests_dependencies(suites, suites)

    old_inst = S.Session._instance
    sched = None
    linfo = None
    try:
        # reporting backends as `lcc run` attaches them: the console backend (sequential flavour unless tests really run in
        # parallel — Project.run's rule), listening on the same event-handling thread as the ReportWriter
        backends, parallel = [], case["n"] > 1 and ntests > 1
        cons = case.get("console", {"width": 80})
        if cons:
            from lemoncheesecake.reporting.backends.console import ConsoleBackend
            cb = ConsoleBackend()
            cb.terminal_width = cons["width"]
            backends.append(cb)
        sink = _route_stdout()
        session = S.Session.create(RecEM.load(), backends, tmp, None, nb_threads=case["n"], parallelized=parallel)
        if case.get("line"):
            ln = case["line"]
            sched = LS.LineScheduler(_traced_files(), _random.Random(ln["seed"]), strategy=ln["strategy"], p=ln.get("p", 0.35),
                                     depth=ln.get("depth", 3), steal_after=0.05)
            if hasattr(session, "_attachment_lock"):
                session._attachment_lock = LS.SchedLock(sched, session._attachment_lock)
            sched.install()
        outcome = {"raised": None, "result": None}

        def go():
            turns.start()
            try:
                outcome["result"] = runner.run_suites(suites, FixtureRegistry(), session, nb_threads=case["n"])
            except Exception as e:  # classified: part of the observation
                outcome["raised"] = {"cls": type(e).__name__, "msg": str(e)[-600:]}
            finally:
                turns.finish()
        finished, _, exc = LS.run_with_timeout(go, _HARD_TIMEOUT)
        if sched is not None:
            sched.uninstall()
            linfo = {"points": sched.points, "switches": sched.switches, "steals": sched.steals}
        if not finished:
            turns.finish()
            raise C.InfraError("C06.run: hard time-out (%ss) — run did not finish" % _HARD_TIMEOUT)
        if exc is not None:
            raise exc
        report = R.canon_report(session.report)
        # attachments directory
        adir = os.path.join(tmp, "attachments")
        files = {}
        if os.path.isdir(adir):
            for name in sorted(os.listdir(adir)):
                content = _read_text(os.path.join(adir, name))
                if content is not None:         # a directory entry that cannot be read (dangling link) is no file
                    files["attachments/" + name] = content
        with flock:
            snapshot = list(fired)
        # thread idents renamed by first appearance in the fired stream
        ren = {}
        events = []
        for ev, emitter_ident in snapshot:
            if "tid" in ev:
                ev = dict(ev)
                ev["ident_matches"] = (ev["tid"] == emitter_ident)
                ev["tid"] = ren.setdefault(ev["tid"], len(ren) + 1)
            events.append(ev)
        emitted = {eid: [dict(x, ident=ren.get(x["ident"], 0)) for x in lst] for eid, lst in run.emitted.items()}
        return {"report": report, "files": files, "at_fire": dict(at_fire), "fired": events, "emitted": emitted, "errors": run.errors,
                "raised": outcome["raised"], "gate_timeouts": turns.timeouts, "max_live": turns.max_live, "line": linfo,
                "console": ("parallel" if parallel else "sequential") if cons else None, "console_chars": sink.taken()}
    finally:
        if sched is not None and sched.enabled:
            sched.uninstall()
        S.Session._instance = old_inst
        shutil.rmtree(tmp, ignore_errors=True)
        shutil.rmtree(srcdir, ignore_errors=True)


# ------------------------------------------------------------------------------------------------
# decoding the report
# ------------------------------------------------------------------------------------------------

def entry_text(e):
    return e["msg"] if e["k"] == "log" else e["desc"]


def iter_results(report):
    """(location string, result dict) of every result object in the report"""
    if report.get("setup"):
        yield "<session-setup>", report["setup"]
    if report.get("teardown"):
        yield "<session-teardown>", report["teardown"]

    def walk(s, prefix):
        path = prefix + [s["md"]["name"]]
        if s.get("setup"):
            yield _SEP.join(path) + "/setup", s["setup"]
        for t in s["tests"]:
            yield _SEP.join(path + [t["md"]["name"]]), t["res"]
        if s.get("teardown"):
            yield _SEP.join(path) + "/teardown", s["teardown"]
        for x in s["suites"]:
            yield from walk(x, path)
    for s in report["suites"]:
        yield from walk(s, [])


def landing(report):
    """payload -> list of (location, step index, position) ; plus the entries without payload"""
    where, alien = {}, []
    for loc, res in iter_results(report):
        for si, st in enumerate(res["steps"]):
            for pi, e in enumerate(st["entries"]):
                txt = entry_text(e)
                cp = carried_payload(txt)
                if cp is None:
                    alien.append((loc, si, pi, txt))
                else:
                    where.setdefault(cp, []).append((loc, si, pi))
    return where, alien


def entry_payload(e):
    cp = carried_payload(entry_text(e))
    return (cp, parse_payload(cp)) if cp is not None else (None, None)


def owner_location(eid):
    """the result an emitter's output belongs to, by its FULL path: 'alpha.beta.t1~c0~…' -> 'alpha.beta.t1';
    's0/setup' -> 's0/setup'"""
    return eid.split("~")[0]


def expected_results(case, obs):
    """locations (full paths) of the results the project can have; with an observation: of the results it MUST have — every
    test whose body ran, every suite hook that ran (an emitter registered under that path)"""
    out = set()
    for path, sd in walk_suites(case["suites"]):
        sp = _SEP.join(path)
        for t in sd["tests"]:
            out.add(sp + _SEP + t["name"])
        for hook in ("setup", "teardown"):
            if sd.get(hook):
                out.add(sp + "/" + hook)
    if obs is not None:
        # a test whose body ran has a result; a hook has one once something was recorded in it (a hook that records nothing
        # leaves no result: its start event is discarded)
        ran = set()
        for eid, lst in obs["emitted"].items():
            loc = owner_location(eid)
            if "/" not in loc or any(x["kind"] != "abort" for x in lst):
                ran.add(loc)
        out &= ran
    return out


def oracle_run(case, obs):
    F = C.Failure
    fails = []
    if obs["raised"]:
        fails.append(F("C06/run-raised/" + obs["raised"]["cls"], "run_suites raised: " + obs["raised"]["msg"][-300:]))
    for err in obs["errors"]:
        fails.append(F("C06/logging-call-raised", "a logging call raised inside user code: " + err))
    report = obs["report"]
    where, alien = landing(report)
    emitted_all, followers = {}, {}
    for eid, lst in obs["emitted"].items():
        for x in lst:
            if x["kind"] == "empty":
                followers[x["follower"]] = eid      # a record with EMPTY text, emitted right before this ordinary one
            else:
                emitted_all[x["payload"]] = (eid, x)
    # 0. the results of the report are the results of the project: every test (and every suite hook that logged) has its own
    #    result at its own FULL path, nothing else is there (a result filed under another suite of the same name, or replaced
    #    by the same-named test of another suite, shows here and as foreign / lost payloads below)
    have = {loc for loc, _ in iter_results(report)}
    if not obs["raised"]:
        for loc in sorted(expected_results(case, obs) - have):
            fails.append(F("C06/result-missing", f"{loc} ran but the report has no result at that path (results: {sorted(have)})"))
    for loc in sorted(have - expected_results(case, None)):
        fails.append(F("C06/result-unexpected", f"the report has a result at {loc}: the project has no test / hook there"))
    # an entry without payload is legitimate only as the EMPTY record an emitter placed right before an ordinary one
    by_pos = {}
    for loc, res in iter_results(report):
        for si, st in enumerate(res["steps"]):
            for pi, e in enumerate(st["entries"]):
                by_pos[(loc, si, pi)] = e
    for loc, si, pi, txt in alien:
        nxt = by_pos.get((loc, si, pi + 1))
        if txt == "" and nxt is not None and entry_payload(nxt)[0] in followers:
            continue
        fails.append(F("C06/unexpected-entry", f"entry without payload at {loc} step {si}: {str(txt)[:120]!r}"))
    for p, eid in followers.items():
        for loc, si, pi in where.get(p, []):
            prev = by_pos.get((loc, si, pi - 1))
            if prev is None or entry_text(prev) != "":
                fails.append(F("C06/payload-lost", f"the record with empty text {eid} emitted right before {p} is not in front of it "
                                                  f"in step {si} of {loc}"))
    # 1. every emitted payload is recorded exactly once, in its own result
    for p, (eid, x) in emitted_all.items():
        places = where.get(p, [])
        if x["kind"] == "abort":
            # an attachment operation that failed (its `with` body / the copy raised): nothing may reference it
            if places:
                fails.append(F("C06/aborted-attachment-recorded",
                               f"{p}: the attachment operation raised before completing (file written: {x.get('written')}) "
                               f"but the report references it at {places}"))
            continue
        if not places:
            fails.append(F("C06/payload-lost", f"{p} was emitted (call returned) but is not in the report"))
            continue
        if len(places) > 1:
            fails.append(F("C06/payload-duplicated", f"{p} recorded {len(places)} times: {places}"))
        for loc, si, pi in places:
            if loc != owner_location(eid):
                fails.append(F("C06/payload-in-foreign-result", f"{p} emitted by {eid} is recorded in {loc}"))
            got = entry_text(by_pos[(loc, si, pi)])
            if x.get("text") is not None and got != x["text"] and not got.startswith("Caught unexpected exception"):
                fails.append(F("C06/record-text-altered", f"{p}: emitted text {x['text'][:120]!r}, recorded {got[:120]!r}"))
    for p in where:
        if p not in emitted_all:
            pp = parse_payload(p)
            # a call that raised after firing is reported above; anything else was never emitted
            fails.append(F("C06/payload-not-emitted", f"report contains {p} (emitter {pp['e']}) whose call never returned"))
    # 2. step: a step object holds entries of exactly one emitter and one of its step instances, its description
    #    is the step that was current in the emitting thread; one step instance = one step object
    inst_home = {}
    for loc, res in iter_results(report):
        for si, st in enumerate(res["steps"]):
            keys = set()
            for e in st["entries"]:
                cp, pp = entry_payload(e)
                if pp is None:
                    continue
                keys.add((pp["e"], pp["i"]))
                if pp["s"] != st["desc"]:
                    fails.append(F("C06/payload-in-foreign-step",
                                   f"{cp} (current step {pp['s']!r}) recorded in step {st['desc']!r} of {loc}"))
            if len(keys) > 1:
                fails.append(F("C06/payload-in-foreign-step", f"step {si} ({st['desc']!r}) of {loc} mixes emitters/steps {sorted(keys)}"))
            for key in keys:
                if key in inst_home and inst_home[key] != (loc, si):
                    fails.append(F("C06/step-split", f"step instance {key} is spread over {inst_home[key]} and {(loc, si)}"))
                inst_home.setdefault(key, (loc, si))
    # 3. per-thread emission order: reading an emitter's entries in report order gives seq 0,1,2,…
    per = {}
    for loc, res in iter_results(report):
        for si, st in enumerate(res["steps"]):
            for pi, e in enumerate(st["entries"]):
                _, pp = entry_payload(e)
                if pp is not None:
                    per.setdefault(pp["e"], []).append(pp["q"])
    for eid, seqs in per.items():
        if seqs != sorted(seqs):
            fails.append(F("C06/per-thread-order", f"entries of {eid} appear in order {seqs}"))
    # 4. attachments: distinct names, files exist with the written bytes
    names = []
    for loc, res in iter_results(report):
        for st in res["steps"]:
            for e in st["entries"]:
                if e["k"] == "att":
                    names.append(e["file"])
                    content = obs["files"].get(e["file"])       # at the END of the run
                    if content is None:
                        fails.append(F("C06/attachment-file-missing", f"{e['file']} referenced by {e['desc']} does not exist"))
                    elif content != e["desc"]:
                        if (obs.get("at_fire") or {}).get(e["file"]) == e["desc"]:
                            # it held the attached content when the event was fired; what the test did to ITS file
                            # afterwards reached the report's file
                            fails.append(F("C06/attachment-changed-after-attach",
                                           f"{e['file']} held the attached content {e['desc'][:80]!r} when its event was fired, at the "
                                           f"end of the run it holds {content[:80]!r}"))
                        else:
                            fails.append(F("C06/attachment-content", f"{e['file']} holds {content[:80]!r}, written was {e['desc'][:80]!r}"))
    if len(names) != len(set(names)):
        dup = sorted({n for n in names if names.count(n) > 1})
        fails.append(F("C06/attachment-name-duplicate", f"attachment names used more than once: {dup}"))
    # … and the same for what the fired stream references (what every reporting backend is told)
    for ev in obs["fired"]:
        if ev["e"] == "att" and obs["files"].get(ev["file"]) is None:
            fails.append(F("C06/attachment-file-missing", f"{ev['file']} referenced by the fired event of {ev['desc']} does not exist"))
        elif ev["e"] == "att" and "at_fire" in obs and obs["at_fire"].get(ev["file"]) is None:
            fails.append(F("C06/attachment-file-missing", f"{ev['file']} did not exist (as a readable file) when the event of {ev['desc']} was fired"))
    # 5. session side: a fired step-level event carries the emitting thread's id and its own location
    for ev in obs["fired"]:
        if ev.get("ident_matches") is False:
            fails.append(F("C06/event-foreign-thread-id", f"event {ev['e']} carries a thread id that is not the firing thread's"))
        txt = ev.get("msg") if ev["e"] == "log" else ev.get("desc") if ev["e"] in ("check", "att", "url") else None
        txt = carried_payload(txt) if txt else None
        pp = parse_payload(txt) if txt else None
        if pp is not None:
            loc = ev["loc"]
            here = _SEP.join(loc["path"]) + ("/setup" if loc["k"] == "setup" else "/teardown" if loc["k"] == "teardown" else "") \
                if "path" in loc else "<%s>" % loc["k"]
            if here != owner_location(pp["e"]):
                fails.append(F("C06/event-foreign-location", f"{txt} fired with location {here}"))
            if ev.get("step") != pp["s"]:
                fails.append(F("C06/event-foreign-step", f"{txt} fired with step {ev.get('step')!r}"))
    # one failure per signature is enough
    seen, out = set(), []
    for f in fails:
        if f.signature not in seen:
            seen.add(f.signature)
            out.append(f)
    return out


def interleaves(fired):
    seq = []
    for ev in fired:
        txt = ev.get("msg") if ev["e"] == "log" else ev.get("desc") if ev["e"] in ("check", "att", "url") else None
        txt = carried_payload(txt) if txt else None
        pp = parse_payload(txt) if txt else None
        if pp is not None and (not seq or seq[-1] != pp["e"]):
            seq.append(pp["e"])
    seen_then_left = set()
    last = None
    for e in seq:
        if e in seen_then_left:
            return True
        if last is not None and last != e:
            seen_then_left.add(last)
        last = e
    return False


_EXCHANGE = {"name": "exchange",
             "main": [["log", "info"], ["spawn", 0], ["step"], ["check", True], ["att", "content"], ["join", 0], ["url"]],
             "threads": [[["log", "info"], ["step"], ["att", "prepare"], ["log", "warn"]]]}
_ODD_TEXTS = {"name": "t",
              "main": [["step", "lit", "   "], ["log", "info", "empty"], ["spawn", 0], ["step", "lit", "a\nb"], ["check", True, "multiline"],
                       ["step", "lit", "\nleading newline"], ["log", "warn", "lead-nl"], ["step", "long", 5000], ["url", "long"],
                       ["step", "lit", "trailing newline\n"], ["check", False, "empty"], ["att", "content", {"text": "multiline"}],
                       ["join", 0], ["step", "lit", "\t"], ["log", "info", "ws-tail"]],
              "threads": [[["log", "info", "trail-nl"], ["step", "lit", "first\n\nthird"], ["log", "info", "empty"], ["step", "lit", " "],
                           ["att", "prepare", {"text": "long"}], ["step", "long", 1000], ["check", True, "long"]]]}


class RunStream(C.Stream):
    name = "C06.run"
    quick_cases = 220
    thorough_cases = 2500
    quick_seconds = 40
    thorough_seconds = 420
    chunk = 10
    line_share_quick = 0.15
    line_share_thorough = 0.5
    corpus = [
        # a test named `v2.status` in suite `api` next to the sub-suite `v2` holding a test `status` (the halves of the dotted
        # name spell the sibling's path), both running at the same time, each with an lcc.Thread, over two steps
        {"n": 2, "line": None, "sched": {"strategy": "rr", "width": 2, "seed": 4}, "console": {"width": 80},
         "suites": [{"name": "api", "setup": None, "teardown": None, "tests": [
             {"name": "v2.status", "main": [["log", "info"], ["spawn", 0], ["step"], ["log", "info"], ["att", "content"], ["join", 0], ["check", True]],
              "threads": [[["log", "info"], ["step"], ["att", "content"], ["log", "warn"]]]},
             {"name": "ping", "main": [["log", "info"]], "threads": []}],
             "subs": [{"name": "v2", "setup": None, "teardown": None, "subs": [], "tests": [
                 {"name": "status", "main": [["log", "info"], ["spawn", 0], ["step"], ["check", True], ["join", 0], ["log", "info"]],
                  "threads": [[["log", "info"], ["att", "content"]]]}]}]}]},
        # ... and a top-level suite named `api.v2` (same test name) next to them, four workers
        {"n": 4, "line": None, "sched": {"strategy": "random", "width": 2, "seed": 9}, "console": None,
         "suites": [{"name": "api", "setup": None, "teardown": None, "tests": [
             {"name": "v2.status", "main": [["log", "info"], ["step"], ["log", "info"]], "threads": []}],
             "subs": [{"name": "v2", "setup": None, "teardown": None, "subs": [], "tests": [
                 {"name": "status", "main": [["log", "info"], ["step"], ["att", "content"]], "threads": []}]}]},
            {"name": "api.v2", "setup": None, "teardown": None, "subs": [], "tests": [
                {"name": "status", "main": [["log", "info"], ["spawn", 0], ["log", "info"], ["join", 0]], "threads": [[["log", "info"]]]}]}]},
        # two tests at once, each with an lcc.Thread whose first log comes while the parent's step is current
        {"n": 2, "line": None, "sched": {"strategy": "rr", "width": 1, "seed": 1},
         "suites": [{"name": "s0", "setup": None, "tests": [
             {"name": "t0", "main": [["log", "info"], ["spawn", 0], ["log", "info"], ["step"], ["log", "warn"], ["join", 0], ["att", "content"]],
              "threads": [[["log", "info"], ["att", "prepare"], ["step"], ["log", "debug"]]]},
             {"name": "t1", "main": [["att", "content"], ["spawn", 0], ["check", True], ["log", "info"], ["att", "prepare"]],
              "threads": [[["att", "content"], ["log", "info"]]]}]}]},
        # more tests than workers, free running
        {"n": 2, "line": None, "sched": {"strategy": "free", "width": 1, "seed": 2},
         "suites": [{"name": "s0", "setup": {"main": [["log", "info"], ["spawn", 0], ["att", "content"]], "threads": [[["log", "info"]]]},
                     "teardown": {"main": [["log", "info"]], "threads": []}, "tests": [
             {"name": "t%d" % i, "main": [["log", "info"], ["att", "content"], ["step"], ["url"], ["log", "info"]], "threads": []}
             for i in range(5)]}]},
        # attachment operations that fail before the file is written, handled by the test code: a missing source file,
        # a raising `with` body (also inside an outer block that completes), in the test thread and in a lcc.Thread,
        # two tests at once; then one that is NOT handled (the framework logs the exception, the test fails)
        {"n": 2, "line": None, "sched": {"strategy": "rr", "width": 1, "seed": 3},
         "suites": [{"name": "s0", "setup": None, "teardown": None, "tests": [
             {"name": "t%d" % i,
              "main": [["att", "content"], ["spawn", 0], ["abort", "file-missing", True], ["att", "file"], ["abort", "prepare", True],
                       ["att", "nested"], ["step"], ["abort", "prepare-image", True], ["att", "prepare"], ["join", 0],
                       ["abort", "image-file-missing", False], ["log", "info"]],
              "threads": [[["att", "image-file"], ["abort", "prepare", True], ["abort", "prepare-late", True], ["log", "info"],
                           ["abort", "file-missing", False], ["log", "info"]]]}
             for i in range(2)]}]},
        # round 5: the NAMES of the attachments — two tests at once, each from its own thread and from an lcc.Thread, saving
        # attachments whose names hold `#`, `?`, `%`, blanks, non-ASCII letters (seeded C06-11: the event referenced a
        # percent-escaped name), and the same name of 304 characters again and again (seeded C06-12: cut to its last 255
        # characters the name loses its counter; on the unchanged tree the file system refuses it: nothing is referenced)
        {"n": 2, "line": None, "sched": {"strategy": "rr", "width": 2, "seed": 5},
         "suites": [{"name": "s0", "setup": None, "teardown": None, "tests": [
             {"name": "t%d" % i,
              "main": [["att", "content", {"name": "core #1.txt"}], ["spawn", 0], ["att", "prepare", {"name": "w" * 300 + ".txt"}],
                       ["att", "content", {"name": "100%.txt"}], ["att", "content", {"name": "w" * 300 + ".txt"}], ["step"],
                       ["att", "prepare", {"name": "what?.log"}], ["join", 0], ["att", "image-content", {"name": "a%20b.png"}], ["log", "info"]],
              "threads": [[["att", "content", {"name": "w" * 300 + ".txt"}], ["att", "prepare-image", {"name": "\u00fcn\u00ef c\u00f8d\u00e9 #2.png"}],
                           ["att", "content", {"name": "sub/dir.txt"}], ["att", "content", {"name": "w" * 300 + ".txt"}], ["log", "info"]]]}
             for i in range(2)]}]},
        # minimised failing inputs of the seeded change C06-2 (LogAttachmentEvent fired in a `finally:`)
        {"n": 4, "line": None, "sched": {"strategy": "fifo", "width": 1, "seed": 637710979},
         "suites": [{"name": "s0", "setup": None, "teardown": None, "tests": [
             {"name": "t3", "main": [["spawn", 0]], "threads": [[["abort", "prepare-late", True]]]}]}]},
        {"n": 4, "line": None, "sched": {"strategy": "random", "width": 1, "seed": 970222460},
         "suites": [{"name": "s0", "setup": None, "teardown": None, "tests": [
             {"name": "t5", "main": [["spawn", 0], ["join", 0]], "threads": [[["att", "nested"]]]}]}]},
        {"n": 2, "line": None, "sched": {"strategy": "fifo", "width": 1, "seed": 5},
         "suites": [{"name": "s0", "setup": None, "teardown": None, "tests": [
             {"name": "t0", "main": [["abort", "file-missing", True]], "threads": []}]}]},
        # one scratch file per emitter, reused for every capture (rewritten in place, attached, modified afterwards), two tests
        # and a lcc.Thread at once; spelled absolute, relative, through symbolic links
        {"n": 2, "line": None, "sched": {"strategy": "rr", "width": 1, "seed": 6},
         "suites": [{"name": "s0", "setup": None, "teardown": None, "tests": [
             {"name": "t%d" % i,
              "main": [["att", "file-reuse", {"after": None, "via": None}], ["spawn", 0], ["att", "file-reuse", {"after": "append", "via": "rel"}],
                       ["att", "image-file-reuse", {"after": "truncate", "via": "symlink-rel"}], ["step"],
                       ["att", "file-reuse", {"after": "replace", "via": "symlink-abs"}], ["join", 0],
                       ["att", "file-reuse", {"after": "unlink", "via": None}], ["att", "image-file-reuse", {"after": "overwrite", "via": None}]],
              "threads": [[["att", "file-reuse", {"after": None, "via": None}], ["att", "file-reuse", {"after": "overwrite", "via": None}],
                           ["att", "file-reuse", {"after": None, "via": "rel"}]]]}
             for i in range(2)]}]},
        # minimised failing inputs of the seeded change C06-4 (save_attachment_file hard-links the source into the report)
        {"n": 2, "line": None, "sched": {"strategy": "fifo", "width": 1, "seed": 7},
         "suites": [{"name": "s0", "setup": None, "teardown": None, "tests": [
             {"name": "t0", "main": [["att", "file-reuse", {"after": None, "via": None}], ["att", "file-reuse", {"after": None, "via": None}]],
              "threads": []}]}]},
        {"n": 4, "line": None, "sched": {"strategy": "random", "width": 2, "seed": 507504216},
         "suites": [{"name": "s0", "setup": None, "teardown": None, "tests": [
             {"name": "t5", "main": [["att", "file-reuse", {"after": "append", "via": "symlink-rel"}]], "threads": []}]}]},
        # polling loops: the step that is current is set AGAIN (same description), records after each call; in the test
        # thread (also right after the runner's own step), in an lcc.Thread (right after its default step), two tests
        # at once
        {"n": 2, "line": None, "sched": {"strategy": "rr", "width": 1, "seed": 7},
         "suites": [{"name": "s0", "setup": None, "teardown": None, "tests": [
             {"name": "t%d" % i,
              "main": [["log", "info"], ["step", "again"], ["log", "info"], ["spawn", 0], ["step"], ["att", "content"], ["step", "again"],
                       ["check", True], ["step", "again"], ["url"], ["join", 0]],
              "threads": [[["log", "info"], ["step", "again"], ["log", "info"], ["step", "again"], ["att", "prepare"]]]}
             for i in range(2)]}]},
        # ---- round 3 ----
        # names that repeat ACROSS LEVELS: alpha / alpha.beta / beta / beta.alpha, a test `exchange` (with an lcc.Thread) in each
        # of them, all four at once; then the same project one test at a time; a sub-suite named like its parent
        {"n": 4, "line": None, "console": {"width": 80}, "sched": {"strategy": "rr", "width": 1, "seed": 8},
         "suites": [{"name": a, "setup": None, "teardown": None, "tests": [dict(_EXCHANGE)],
                     "subs": [{"name": b, "setup": None, "teardown": None, "tests": [dict(_EXCHANGE)], "subs": []}]}
                    for a, b in (("alpha", "beta"), ("beta", "alpha"))]},
        {"n": 1, "line": None, "console": {"width": 80}, "sched": {"strategy": "fifo", "width": 1, "seed": 9},
         "suites": [{"name": a, "setup": None, "teardown": None, "tests": [dict(_EXCHANGE)],
                     "subs": [{"name": b, "setup": {"main": [["log", "info"]], "threads": []}, "teardown": None,
                               "tests": [dict(_EXCHANGE)], "subs": []}]}
                    for a, b in (("alpha", "beta"), ("beta", "alpha"))]},
        {"n": 2, "line": None, "console": {"width": 80}, "sched": {"strategy": "random", "width": 1, "seed": 10},
         "suites": [{"name": "alpha", "setup": None, "teardown": {"main": [["log", "info"]], "threads": []}, "tests": [dict(_EXCHANGE)],
                     "subs": [{"name": "alpha", "setup": None, "teardown": None, "tests": [dict(_EXCHANGE), dict(_EXCHANGE, name="alpha")],
                               "subs": [{"name": "alpha", "setup": None, "teardown": None, "tests": [dict(_EXCHANGE)], "subs": []}]}]}]},
        # minimised failing inputs of the seeded change C06-7 (a location's first element looked up among the suites of ANY depth)
        {"n": 1, "line": None, "console": None, "sched": {"strategy": "fifo", "width": 1, "seed": 11},
         "suites": [{"name": "alpha", "setup": None, "teardown": None, "tests": [],
                     "subs": [{"name": "beta", "setup": None, "teardown": None, "subs": [],
                               "tests": [{"name": "exchange", "main": [["log", "info"]], "threads": []}]}]},
                    {"name": "beta", "setup": None, "teardown": None, "subs": [],
                     "tests": [{"name": "exchange", "main": [["log", "info"]], "threads": []}]}]},
        # an UNTITLED step (`set_step("")`) followed by records, the console backend in its sequential flavour (one worker): in
        # the test thread, then in an lcc.Thread (which goes on to a titled step before it ends), more tests afterwards
        {"n": 1, "line": None, "console": {"width": 80}, "sched": {"strategy": "fifo", "width": 1, "seed": 12},
         "suites": [{"name": "s0", "setup": None, "teardown": None, "subs": [], "tests": [
             {"name": "t0", "main": [["log", "info"], ["step", "lit", ""], ["log", "info"], ["check", True], ["step"], ["att", "content"]],
              "threads": []},
             {"name": "t1", "main": [["spawn", 0], ["log", "info"], ["join", 0], ["log", "info"]],
              "threads": [[["log", "info"], ["step", "lit", ""], ["log", "warn"], ["url"], ["step"], ["log", "info"]]]},
             {"name": "t2", "main": [["log", "info"], ["att", "prepare"]], "threads": []}]}]},
        # minimised failing input of the seeded change C06-8 (the console backend's step handler raising on an empty description)
        {"n": 1, "line": None, "console": {"width": 80}, "sched": {"strategy": "fifo", "width": 1, "seed": 13},
         "suites": [{"name": "s0", "setup": None, "teardown": None, "subs": [], "tests": [
             {"name": "t0", "main": [["step", "lit", ""], ["log", "info"]], "threads": []}]}]},
        # descriptions and messages that are blank, several lines, very long, or (messages) empty — one worker / three workers,
        # a narrow terminal
        {"n": 1, "line": None, "console": {"width": 12}, "sched": {"strategy": "rr", "width": 1, "seed": 14},
         "suites": [{"name": "s0", "setup": {"main": [["step", "lit", "\n"], ["log", "info", "multiline"]], "threads": []}, "teardown": None,
                     "subs": [], "tests": [dict(_ODD_TEXTS, name="t%d" % i) for i in range(2)]}]},
        {"n": 3, "line": None, "console": {"width": 80}, "sched": {"strategy": "random", "width": 2, "seed": 15},
         "suites": [{"name": "s0", "setup": None, "teardown": None, "subs": [], "tests": [dict(_ODD_TEXTS, name="t%d" % i) for i in range(3)]}]},
    ]

    def __init__(self, ctx):
        self.ctx = ctx

    def gen(self, rng, i):
        share = self.line_share_quick if self.ctx.quick() else self.line_share_thorough
        line = None
        if rng.random() < share:
            line = {"strategy": rng.choice(["random", "random", "priority"]), "p": rng.choice([0.2, 0.35, 0.6]),
                    "depth": rng.randint(1, 5), "seed": rng.randrange(1 << 30)}
        return gen_run_case(rng, line)

    def impl(self, case):
        return real_run(case)

    def oracle(self, case, obs):
        return oracle_run(case, obs)

    def request(self, case, obs):
        evs = []
        for ev in obs["fired"]:
            ev = {k: v for k, v in ev.items() if k != "ident_matches"}
            evs.append(R.wire(ev))
        return {"events": evs}

    def compare(self, case, obs, ans):
        if "error" in ans and "report" not in ans:
            return "model error: " + str(ans["error"])
        if obs["raised"]:
            # the real writer raised inside the handler thread: the model must raise too (same class) or the run
            # failed for a reason outside the writer — reported by the oracle
            return None
        if ans["error"] is not None:
            return f"model writer raises {ans['error']} at event {ans['handled']}, the real writer did not"
        if ans.get("uniq") is False:
            return ("sibling names of the report are not distinct (Writer.uniqNames, the hypothesis of LccModel.C06Loc.* — the "
                    "generator keeps sibling names distinct)")
        m = R.unwire(ans["report"])
        real = obs["report"]
        for key in ("setup", "teardown", "suites", "start", "end"):
            if m.get(key) != real.get(key):
                mw, _ = landing(m)
                rw, _ = landing(real)
                for p in sorted(set(mw) | set(rw)):
                    if mw.get(p) != rw.get(p):
                        return f"payload {p}: model lands at {mw.get(p)}, real report at {rw.get(p)}"
                return f"report field {key!r} differs between the model fold and the real report"
        return None

    def nontrivial(self, case, obs):
        return obs["max_live"] >= 2 and interleaves(obs["fired"])

    def features(self, case, obs):
        nodes = list(walk_suites(case["suites"]))
        ntests = sum(len(sd["tests"]) for _, sd in nodes)
        nthr = sum(len(t["threads"]) for _, sd in nodes for t in sd["tests"])
        f = ["workers=%d" % case["n"], "tests=%d" % ntests, "lccthreads=%d" % min(nthr, 6), "sched=" + case["sched"]["strategy"],
             "width=%d" % case["sched"].get("width", 1), "max_live=%d" % min(obs["max_live"], 8)]
        f.append("console-backend=%s" % (obs.get("console") or "none"))
        if obs.get("console_chars"):
            f.append("console-backend-printed")
        if case.get("console") and case["console"]["width"] < 40:
            f.append("console-narrow-terminal")
        f += tree_features(case["suites"])
        if case.get("line"):
            f.append("line=" + case["line"]["strategy"])
            if obs.get("line") and obs["line"]["switches"] > 0:
                f.append("line-switched")
        if any(sd.get("setup") for _, sd in nodes):
            f.append("suite-setup-logs")
        if any(sd.get("setup") and sd["setup"]["threads"] for _, sd in nodes):
            f.append("suite-setup-lccthread")
        if any(sd.get("teardown") for _, sd in nodes):
            f.append("suite-teardown-logs")
        if any(e["k"] == "att" for _, r in iter_results(obs["report"]) for st in r["steps"] for e in st["entries"]):
            f.append("attachments")
        for lst in obs["emitted"].values():
            for x in lst:
                if x["kind"] == "abort":
                    f.append("attachment-aborted" + ("-after-write" if x.get("written") else ""))
                elif x["kind"] == "exc":
                    f.append("attachment-abort-not-handled-by-test")
        for _, s_ in nodes:
            for t in s_["tests"] + [h for h in (s_.get("setup"), s_.get("teardown")) if h]:
                for where, script in [("main", t["main"])] + [("lccthread", ch) for ch in t["threads"]]:
                    for a in script:
                        f += act_features(a, where)
        f = sorted(set(f))
        if interleaves(obs["fired"]):
            f.append("interleaved")
        if obs["gate_timeouts"]:
            f.append("gate-timeout")
        return f

    def shrink(self, case):
        import copy

        def nodes_of(c):
            return [sd for _, sd in walk_suites(c["suites"])]
        nodes = nodes_of(case)
        for ni, s in enumerate(nodes):
            for ti in range(len(s["tests"])):
                if sum(len(x["tests"]) for x in nodes) > 1:
                    c = copy.deepcopy(case)
                    del nodes_of(c)[ni]["tests"][ti]
                    c["suites"] = prune_suites(c["suites"])
                    yield c
            for hook in ("setup", "teardown"):
                if s.get(hook):
                    c = copy.deepcopy(case)
                    nodes_of(c)[ni][hook] = None
                    yield c
        if case["n"] > 2:
            yield dict(copy.deepcopy(case), n=2)
        for ni, s in enumerate(nodes):
            for ti, t in enumerate(s["tests"]):
                for ai, a in enumerate(t["main"]):
                    if a[0] in ("spawn", "join"):
                        continue
                    c = copy.deepcopy(case)
                    del nodes_of(c)[ni]["tests"][ti]["main"][ai]
                    yield c
                for ci, ch in enumerate(t["threads"]):
                    for ai in range(len(ch)):
                        c = copy.deepcopy(case)
                        del nodes_of(c)[ni]["tests"][ti]["threads"][ci][ai]
                        yield c
        if case.get("line"):
            c = copy.deepcopy(case)
            c["line"] = None
            yield c


def tree_features(suites):
    """how names repeat in the suite forest"""
    f = []
    nodes = list(walk_suites(suites))
    depth = max(len(p) for p, _ in nodes)
    if depth > 1:
        f.append("nesting-depth=%d" % depth)
    levels = {}
    for p, _ in nodes:
        levels.setdefault(p[-1], set()).add(len(p))
    if any(len(v) > 1 for v in levels.values()):
        f.append("suite-name-across-levels")
    if any(len(p) > 1 and p[-1] == p[-2] for p, _ in nodes):
        f.append("sub-suite-named-like-its-parent")
    tops = [sd["name"] for sd in suites]
    for j, sd in enumerate(suites):
        for i, other in enumerate(suites):
            if i == j:
                continue
            if any(p[-1] == sd["name"] for p, _ in walk_suites(other.get("subs") or [])):
                f.append("top-level-named-like-earlier-sub-suite" if i < j else "top-level-named-like-later-sub-suite")
    seen = {}
    for p, sd in nodes:
        for t in sd["tests"]:
            seen.setdefault((p[-1], t["name"]), set()).add(p)
    if any(len(v) > 1 for v in seen.values()):
        f.append("same-named-tests-in-same-named-suites")
    names = [t["name"] for _, sd in nodes for t in sd["tests"]]
    if len(names) != len(set(names)):
        f.append("same-named-tests")
    if any(t["name"] in tops or t["name"] in levels for _, sd in nodes for t in sd["tests"]):
        f.append("test-named-like-a-suite")
    dotted_tests = {".".join(p + (t["name"],)): 0 for p, sd in nodes for t in sd["tests"]}
    for p, sd in nodes:
        for t in sd["tests"]:
            dotted_tests[".".join(p + (t["name"],))] += 1
            if "." in t["name"]:
                f.append("test-name-dotted")
    if any("." in p[-1] for p, _ in nodes):
        f.append("suite-name-dotted")
    if any(v > 1 for v in dotted_tests.values()):
        f.append("dotted-name-spells-the-path-of-another-test")
    return f


def act_features(a, where):
    f = []
    if a[0] == "step" and len(a) > 1:
        if a[1] == "again":
            f.append("step:same-description-again")
        elif a[1] == "long":
            f.append("step-desc-long")
        elif a[1] == "lit":
            d = a[2]
            if d == "":
                f += ["step-desc-empty", "step-desc-empty:" + where]
            elif d.strip() == "":
                f.append("step-desc-whitespace")
            if "\n" in d:
                f += ["step-desc-multiline", "step-desc-multiline:" + where]
    if a[0] in ("log", "check") and len(a) > 2:
        f.append("%s-text-%s" % (a[0], a[2]))
    if a[0] == "url" and len(a) > 1:
        f.append("url-text-" + a[1])
    if a[0] == "att" and len(a) > 2 and a[2].get("text"):
        f.append("att-text-" + a[2]["text"])
    if a[0] == "att" and len(a) > 2 and a[2].get("name") is not None:
        nm = a[2]["name"]
        f.append("att-name:refused-by-fs" if not _session.stored_name_fits(1, nm) else "att-name:odd")
        if any(ch in nm for ch in "%#?"):
            f.append("att-name:url-special(%#?)")
        if any(ord(ch) > 127 for ch in nm):
            f.append("att-name:non-ascii")
        if len(nm) > 250:
            f.append("att-name:longer-than-250")
    if a[0] == "att" and a[1] not in ("content", "prepare"):
        f.append("att:" + a[1])
        if len(a) > 2:
            if a[2].get("after"):
                f.append("source-after-attach:" + a[2]["after"])
            if a[2].get("via"):
                f.append("source-spelled:" + a[2]["via"])
    elif a[0] == "abort":
        f.append("abort:" + a[1])
    return f


# ------------------------------------------------------------------------------------------------
# C06.attach — prepare_attachment under the line scheduler vs. the M14 acceptor
# ------------------------------------------------------------------------------------------------

def _attach_line_map():
    """line number -> act for the source lines of Session.prepare_attachment (found by their text)"""
    import lemoncheesecake.session as S
    fn = S.Session.prepare_attachment
    fn = getattr(fn, "__wrapped__", fn)
    lines, start = inspect.getsourcelines(fn)
    m = {}
    for off, text in enumerate(lines):
        t = text.strip()
        if t.startswith("attachment_filename ="):
            m[start + off] = "readName"
        elif t.startswith("self._attachment_count += 1") or t.startswith("self._attachment_count = "):
            m[start + off] = "inc"
    return m, fn.__code__.co_name


def real_attach(case):
    import random as _random
    import lemoncheesecake.events as E
    import lemoncheesecake.session as S
    from lemoncheesecake.reporting import Report
    from lemoncheesecake.testtree import BaseTest

    tmp = tempfile.mkdtemp(prefix="lccverif-c06a-")
    old_inst = S.Session._instance
    record = []
    problems = []
    tags = {}

    def tag_of(th):
        return tags.get(th, -1)

    class RecEM(E.EventManager):
        def fire(self, event):
            if type(event).__name__ == "LogAttachmentEvent":
                path = os.path.join(tmp, event.attachment_path)
                ok = os.path.exists(path)
                content = open(path).read() if ok else None
                record.append((tag_of(threading.current_thread()), "<fire>", event.attachment_path, content))
                if not ok:
                    problems.append("missing:" + event.attachment_path)

    ln = case["line"]
    sched = LS.LineScheduler([_traced_files()[0]], _random.Random(ln["seed"]), strategy=ln["strategy"], p=ln.get("p", 0.5),
                             depth=ln.get("depth", 3), steal_after=1.0, record=record, tag_of=tag_of)
    linemap, fname = _attach_line_map()
    try:
        session = S.Session(RecEM.load(), tmp, Report())
        S.Session._instance = session
        has_lock = hasattr(session, "_attachment_lock")
        if has_lock:
            session._attachment_lock = LS.SchedLock(
                sched, session._attachment_lock,
                on_acquire=lambda: record.append((tag_of(threading.current_thread()), "<acquire>", 0, None)),
                on_release=lambda: record.append((tag_of(threading.current_thread()), "<release>", 0, None)))
        got = {}
        start = threading.Barrier(case["threads"], timeout=10)

        def worker(t):
            tags[threading.current_thread()] = t
            node = R._node_chain(["s", "t%d" % t], _session.md_of("t%d" % t, t), BaseTest)
            session.start_test(node)
            session.set_step("step")
            try:
                start.wait()
            except threading.BrokenBarrierError:
                pass
            mine = []
            plan = (case.get("plan") or [])
            for k in range(case["per"]):
                content = "T%d-%d" % (t, k)
                # "ok" | "abort" (the body raises before writing the file) | "abort-late" (… after writing it)
                kind = plan[t - 1][k] if t - 1 < len(plan) and k < len(plan[t - 1]) else "ok"
                try:
                    with session.prepare_attachment(case.get("name", "a.txt"), content) as path:
                        mine.append([os.path.basename(path), kind, k])
                        if kind == "abort":
                            record.append((t, "<abort>", os.path.basename(path), None))
                            raise _Abort(content)
                        with open(path, "w") as fh:
                            fh.write(content)
                        record.append((t, "<write>", os.path.basename(path), content))
                        if kind == "abort-late":
                            record.append((t, "<abort>", os.path.basename(path), None))
                            raise _Abort(content)
                except _Abort:
                    pass
            got[t] = mine

        def go():
            sched.install()
            ths = [threading.Thread(target=worker, args=(t,), name="lccverif-att%d" % t) for t in range(1, case["threads"] + 1)]
            for th in ths:
                th.start()
            for th in ths:
                th.join(60)
        finished, _, exc = LS.run_with_timeout(go, _HARD_TIMEOUT)
        sched.uninstall()
        if not finished:
            raise C.InfraError("C06.attach: hard time-out")
        if exc is not None:
            raise exc
        # atomic-step trace
        trace, switches, last = [], 0, None
        names_by_thread = {}
        fired = []
        for tag, kind, a, b in list(record):
            if kind == "<acquire>":
                trace.append([tag, "acquire"])
            elif kind == "<release>":
                trace.append([tag, "release"])
            elif kind == "<write>":
                trace.append([tag, "writeFile"])
                names_by_thread.setdefault(tag, []).append(a)
            elif kind == "<abort>":
                trace.append([tag, "abort"])
            elif kind == "<fire>":
                trace.append([tag, "fireEvent"])
                fired.append({"thread": tag, "path": a, "content": b})
            elif kind == "<resume>":
                continue
            elif b == fname and a in linemap:
                if linemap[a] == "readName":
                    trace.append([tag, "readName"])
                else:
                    trace.append([tag, "readInc"])
                    trace.append([tag, "writeInc"])
            if b == fname and isinstance(a, int):
                if last is not None and last != tag:
                    switches += 1
                last = tag
        files = {}
        adir = os.path.join(tmp, "attachments")
        if os.path.isdir(adir):
            for nm in sorted(os.listdir(adir)):
                files[nm] = open(os.path.join(adir, nm)).read()
        return {"trace": trace, "names": {str(k): v for k, v in sorted(got.items())}, "fired": fired, "files": files,
                "has_lock": has_lock, "switches_inside": switches, "steals": sched.steals, "problems": problems,
                "count": getattr(session, "_attachment_count", None)}
    finally:
        if sched.enabled:
            sched.uninstall()
        S.Session._instance = old_inst
        shutil.rmtree(tmp, ignore_errors=True)


class AttachStream(C.Stream):
    name = "C06.attach"
    quick_cases = 100
    thorough_cases = 1500
    quick_seconds = 14
    thorough_seconds = 200
    chunk = 10
    corpus = [
        {"threads": 2, "per": 2, "line": {"strategy": "random", "p": 0.5, "seed": 7}},
        {"threads": 4, "per": 3, "line": {"strategy": "priority", "depth": 4, "seed": 11}},
        # blocks left by an exception before / after the file is written, next to blocks that complete
        {"threads": 3, "per": 3, "line": {"strategy": "random", "p": 0.5, "seed": 13},
         "plan": [["abort", "ok", "abort-late"], ["ok", "abort", "ok"], ["abort", "abort", "ok"]]},
    ]

    def gen(self, rng, i):
        threads, per = rng.randint(2, 6), rng.randint(1, 4)
        case = {"threads": threads, "per": per,
                "line": {"strategy": rng.choice(["random", "random", "priority"]), "p": rng.choice([0.3, 0.5, 0.8]),
                         "depth": rng.randint(1, 6), "seed": rng.randrange(1 << 30)}}
        if rng.random() < 0.5:
            # some blocks are left by an exception raised by the body, before or after it wrote the file
            case["plan"] = [[rng.choice(["ok", "ok", "abort", "abort", "abort-late"]) for _ in range(per)] for _ in range(threads)]
        if rng.random() < 0.4:
            # every thread gives its attachments the SAME odd (legitimate) name: `%`, `#`, `?`, other scripts, the longest that fits …
            case["name"] = rng.choice(_session.ATT_NAMES_ODD)
        return case

    def impl(self, case):
        return real_attach(case)

    def oracle(self, case, obs):
        F = C.Failure
        fails = []
        allnames = [n for lst in obs["names"].values() for n, _, _ in lst]
        if len(allnames) != len(set(allnames)):
            dup = sorted({n for n in allnames if allnames.count(n) > 1})
            fails.append(F("C06/attachment-name-duplicate", f"prepare_attachment handed out the same file name twice: {dup}"))
        for ev in obs["fired"]:
            if ev["content"] is None:
                fails.append(F("C06/attachment-file-missing", f"LogAttachmentEvent fired for {ev['path']} before the file exists"))
        expect, aborted = {}, set()
        for t, lst in obs["names"].items():
            for nm, kind, k in lst:
                if kind == "abort":
                    aborted.add(nm)
                else:
                    expect[nm] = "T%s-%d" % (t, k)
                    if kind != "ok":
                        aborted.add(nm)
        for nm, content in expect.items():
            if allnames.count(nm) == 1 and obs["files"].get(nm) != content:
                fails.append(F("C06/attachment-content", f"{nm} holds {obs['files'].get(nm)!r}, written was {content!r}"))
        referenced = [os.path.basename(ev["path"]) for ev in obs["fired"]]
        for nm in sorted(aborted & set(referenced)):
            fails.append(F("C06/aborted-attachment-recorded", f"the block that was handed {nm} was left by an exception but a "
                                                              f"LogAttachmentEvent references it"))
        n_ok = len(allnames) - len(aborted)
        if len(obs["fired"]) != n_ok:
            fails.append(F("C06/attachment-event-count", f"{len(obs['fired'])} attachment events for {n_ok} completed attachments"))
        seen, out = set(), []
        for f in fails:
            if f.signature not in seen:
                seen.add(f.signature)
                out.append(f)
        return out

    def request(self, case, obs):
        return {"attach": {"lock": True, "trace": obs["trace"]}}

    def compare(self, case, obs, ans):
        if "error" in ans and "ok" not in ans:
            return "model error: " + str(ans["error"])
        if obs["steals"]:
            return None         # two threads ran traced code at once: the recorded order is not a linearisation
        if not ans["ok"]:
            step = obs["trace"][ans["accepted"]] if ans["accepted"] < len(obs["trace"]) else None
            return f"M14 acceptor (with lock) rejects the observed interleaving at step {ans['accepted']}: {step}"
        model = {}
        for t, n in ans["numbers"]:
            model.setdefault(str(t), []).append(n)
        real = {t: [int(nm.split("_")[0]) for nm, _, _ in lst] for t, lst in obs["names"].items()}
        if model != real:
            return f"numbers handed out differ: model {model} real {real}"
        if obs["count"] is not None and ans["count"] != obs["count"]:
            return f"counter differs: model {ans['count']} real {obs['count']}"
        return None

    def nontrivial(self, case, obs):
        return case["threads"] >= 2 and obs["switches_inside"] > 0

    def features(self, case, obs):
        f = ["threads=%d" % case["threads"], "line=" + case["line"]["strategy"]]
        if case.get("name") is not None:
            f.append("att-name:odd")
            if any(ch in case["name"] for ch in "%#?"):
                f.append("att-name:url-special(%#?)")
        if obs["switches_inside"] > 0:
            f.append("preempted-inside-prepare_attachment")
        if obs["steals"]:
            f.append("steal")
        if not obs["has_lock"]:
            f.append("no-lock-attribute")
        kinds = {kind for lst in obs["names"].values() for _, kind, _ in lst}
        f += sorted("block-" + k for k in kinds if k != "ok")
        return f

    def shrink(self, case):
        if case["threads"] > 2:
            yield dict(case, threads=case["threads"] - 1)
        if case["per"] > 1:
            yield dict(case, per=case["per"] - 1)
        plan = case.get("plan")
        if plan:
            for t in range(len(plan)):
                for k in range(len(plan[t])):
                    if plan[t][k] != "ok":
                        c = dict(case, plan=[list(r) for r in plan])
                        c["plan"][t][k] = "ok"
                        yield c


# ------------------------------------------------------------------------------------------------
# C06.store — what the attachments hold at the END: histories of file operations and attachment calls vs. M14c
# ------------------------------------------------------------------------------------------------

_REG_PATHS = [0, 1, 2, 3]        # regular files of the test: f0.txt …
_LINK_PATHS = [4, 5]             # names only ever used for symbolic links (one level, as in the model)
_SAVE_KINDS = ["file", "image"]
_CONTENT_KINDS = ["content", "image-content", "prepare", "prepare-image"]


def _tok_text(toks):
    return "".join("<%d>;" % t for t in toks)


def _tok_parse(text):
    """content of a file back into chunk tokens; anything else is kept as a string (never equal to a token list)"""
    if text is None:
        return None
    parts = text.split(";")
    if parts[-1] != "":
        return "?" + text[:60]
    out = []
    for part in parts[:-1]:
        if not (part.startswith("<") and part.endswith(">") and part[1:-1].isdigit()):
            return "?" + text[:60]
        out.append(int(part[1:-1]))
    return out


def gen_store_case(rng):
    threads = rng.choice([1, 1, 2, 3])
    ops, tok = [], [0]
    exists, links = set(), {}

    def fresh():
        tok[0] += 1
        return tok[0]
    saved = []          # paths that were attached (favoured by the later operations: that is the point)
    for _ in range(rng.randint(3, 14)):
        t = rng.randint(1, threads)
        r = rng.random()
        pool = _REG_PATHS + [p for p in _LINK_PATHS if p in links]
        if saved and rng.random() < 0.6:
            pool = [p for p in pool if p in saved or links.get(p) in saved] or pool
        p = rng.choice(pool)
        if r < 0.30:
            cand = [q for q in pool if q in exists or links.get(q) in exists] or [p]
            q = rng.choice(cand) if rng.random() < 0.85 else p          # mostly existing sources, sometimes a missing one
            ops.append([t, "save", q, rng.choice(_SAVE_KINDS), rng.choice(["abs", "abs", "rel"])])
            saved.append(q)
        elif r < 0.40:
            ops.append([t, "content", [fresh()], rng.choice(_CONTENT_KINDS)])
        elif r < 0.62:
            ops.append([t, "write", p, [fresh()]])
            exists.add(links.get(p, p))
        elif r < 0.74:
            ops.append([t, "append", p, [fresh()]])
            exists.add(links.get(p, p))
        elif r < 0.80:
            ops.append([t, "write", p, []])                 # truncate
            exists.add(links.get(p, p))
        elif r < 0.87:
            q = rng.choice(_REG_PATHS)
            ops.append([t, "replace", q, [fresh()]])
            exists.add(q)
        elif r < 0.92:
            ops.append([t, "unlink", p])
            if p in links:
                del links[p]
            else:
                exists.discard(p)
        else:
            free = [q for q in _LINK_PATHS if q not in links]
            if free:
                lp, target = rng.choice(free), rng.choice(_REG_PATHS)
                ops.append([t, "symlink", lp, target, rng.choice(["rel", "abs"])])
                links[lp] = target
    case = {"threads": threads, "ops": ops}
    if rng.random() < 0.4:
        # the attachments get odd (legitimate) names — `%`, `#`, `?`, blanks, other scripts, names that look like a stored
        # name … (`_session.ATT_NAMES_ODD`), a different one per call — instead of c.txt / c.png
        case["names"] = rng.randrange(len(_session.ATT_NAMES_ODD))
    return case


def real_store(case):
    """the history on a real Session: the operations are executed ONE AT A TIME, in the listed order, each by its thread"""
    import queue
    import lemoncheesecake.api as lcc
    import lemoncheesecake.events as E
    import lemoncheesecake.session as S
    from lemoncheesecake.reporting import Report
    from lemoncheesecake.testtree import BaseTest

    root = tempfile.mkdtemp(prefix="lccverif-c06s-")     # report directory and the test's files: same file system
    report_dir, work = os.path.join(root, "report"), os.path.join(root, "work")
    os.mkdir(report_dir)
    os.mkdir(work)
    old_inst = S.Session._instance
    fired = []          # (attachment path, content at the moment of the event)

    class RecEM(E.EventManager):
        def fire(self, event):
            if type(event).__name__ == "LogAttachmentEvent":
                fired.append((event.attachment_path, _read_text(os.path.join(report_dir, event.attachment_path))))

    def path_of(p):
        return os.path.join(work, ("f%d.txt" if p in _REG_PATHS else "l%d.txt") % p)

    calls, outcomes = [], []
    n_att = [0]

    def do(op):
        """-> outcome of one operation: "done" | "missing" | "skipped" (outside the model's calls) | "raised:<class>" """
        k = op[1]
        if k in ("write", "append"):
            with open(path_of(op[2]), "w" if k == "write" else "a") as fh:
                fh.write(_tok_text(op[3]))
            return "done"
        if k == "replace":
            with open(path_of(op[2]) + ".new", "w") as fh:
                fh.write(_tok_text(op[3]))
            os.replace(path_of(op[2]) + ".new", path_of(op[2]))
            return "done"
        if k == "unlink":
            try:
                os.unlink(path_of(op[2]))
            except FileNotFoundError:
                return "missing"
            return "done"
        if k == "symlink":
            lp, target = path_of(op[2]), path_of(op[3])
            if os.path.lexists(lp) or os.path.islink(target) or op[2] == op[3]:
                return "skipped"
            os.symlink(os.path.basename(target) if op[4] == "rel" else target, lp)
            return "done"
        # the two attachment calls
        n_att[0] += 1

        def att_name(tame):
            if case.get("names") is None:
                return tame
            odd = _session.ATT_NAMES_ODD
            return odd[(case["names"] + 5 * n_att[0]) % len(odd)]
        before = len(fired)
        call = {"n": n_att[0], "op": k}
        try:
            if k == "save":
                src = path_of(op[2])
                call["expected"] = _tok_parse(_read_text(src))      # what the source holds NOW
                arg = os.path.relpath(src) if op[4] == "rel" else src
                (lcc.save_attachment_file if op[3] == "file" else lcc.save_image_file)(arg, "attachment %d" % n_att[0])
            else:
                call["expected"] = list(op[2])
                text = _tok_text(op[2])
                if op[3] == "content":
                    lcc.save_attachment_content(text, att_name("c.txt"), "attachment %d" % n_att[0])
                elif op[3] == "image-content":
                    lcc.save_image_content(text, att_name("c.png"), "attachment %d" % n_att[0])
                else:
                    with (lcc.prepare_attachment if op[3] == "prepare" else lcc.prepare_image_attachment)(att_name("c.txt"), "attachment %d" % n_att[0]) as path:
                        with open(path, "w") as fh:
                            fh.write(text)
            call["outcome"] = "done"
        except (IOError, OSError) as e:
            call["outcome"] = "missing" if isinstance(e, FileNotFoundError) else "raised:" + type(e).__name__
        new = fired[before:]
        call["events"] = len(new)
        if new:
            call["path"], call["at_fire"] = new[0][0], _tok_parse(new[0][1])
            call["at_fire_missing"] = new[0][1] is None
        calls.append(call)
        return call["outcome"]

    try:
        session = S.Session(RecEM.load(), report_dir, Report())
        S.Session._instance = session
        inbox = {t: queue.Queue() for t in range(1, case["threads"] + 1)}
        done = queue.Queue()

        def worker(t):
            node = R._node_chain(["s", "t%d" % t], _session.md_of("t%d" % t, t), BaseTest)
            session.start_test(node)
            session.set_step("step")
            while True:
                op = inbox[t].get()
                if op is None:
                    return
                try:
                    done.put(do(op))
                except BaseException as e:  # noqa — classified
                    done.put("raised:" + type(e).__name__)

        ths = [threading.Thread(target=worker, args=(t,), name="lccverif-store%d" % t, daemon=True) for t in inbox]
        for th in ths:
            th.start()
        for op in case["ops"]:
            inbox[op[0]].put(op)
            try:
                outcomes.append(done.get(timeout=30))
            except queue.Empty:
                raise C.InfraError("C06.store: an operation did not return within 30 s")
        for q in inbox.values():
            q.put(None)
        for th in ths:
            th.join(10)
        # the END of the history: what every attachment and every source path holds now
        for call in calls:
            if call.get("path"):
                full = os.path.join(report_dir, call["path"])
                call["final"] = _tok_parse(_read_text(full))
                call["final_missing"] = _read_text(full) is None
                call["entry_is_link"] = os.path.islink(full)
        src = {str(p): _tok_parse(_read_text(path_of(p))) for p in _REG_PATHS + _LINK_PATHS}
        listing = sorted(os.listdir(os.path.join(report_dir, "attachments"))) if os.path.isdir(os.path.join(report_dir, "attachments")) else []
        return {"outcomes": outcomes, "calls": calls, "src": src, "listing": listing}
    finally:
        S.Session._instance = old_inst
        shutil.rmtree(root, ignore_errors=True)


def _store_modified_after_attach(case):
    """was a source modified IN PLACE after it had been attached? (path ids; a link counts for its target)"""
    links, attached = {}, set()
    for op in case["ops"]:
        k = op[1]
        if k == "symlink":
            links[op[2]] = op[3]
        elif k == "save":
            attached.add(links.get(op[2], op[2]))
        elif k in ("write", "append") and links.get(op[2], op[2]) in attached:
            return True
        elif k == "unlink":
            links.pop(op[2], None)
    return False


class StoreStream(C.Stream):
    name = "C06.store"
    quick_cases = 250
    thorough_cases = 4000
    quick_seconds = 10
    thorough_seconds = 120
    chunk = 50
    corpus = [
        # one scratch file attached three times with different contents (rewritten in place in between), then appended to
        {"threads": 1, "ops": [[1, "write", 0, [1]], [1, "save", 0, "file", "abs"], [1, "write", 0, [2]], [1, "save", 0, "file", "abs"],
                               [1, "write", 0, [3]], [1, "save", 0, "image", "rel"], [1, "append", 0, [4]]]},
        # two threads sharing a log file that grows; truncation; replacement; deletion after the attach
        {"threads": 2, "ops": [[1, "write", 1, [1]], [2, "append", 1, [2]], [1, "save", 1, "file", "abs"], [2, "append", 1, [3]],
                               [2, "save", 1, "file", "rel"], [1, "write", 1, []], [2, "save", 1, "image", "abs"], [1, "replace", 1, [4]],
                               [1, "save", 1, "file", "abs"], [2, "unlink", 1], [1, "save", 1, "file", "abs"]]},
        # sources reached through a relative / an absolute symbolic link, written through the link afterwards
        {"threads": 1, "ops": [[1, "write", 2, [1]], [1, "symlink", 4, 2, "rel"], [1, "symlink", 5, 2, "abs"], [1, "save", 4, "file", "abs"],
                               [1, "save", 5, "image", "abs"], [1, "write", 4, [2]], [1, "save", 4, "file", "rel"], [1, "append", 5, [3]],
                               [1, "content", [7], "prepare"], [1, "unlink", 4], [1, "save", 4, "file", "abs"]]},
        # minimised failing inputs of the seeded change C06-4 (the source hard-linked into the report)
        {"threads": 1, "ops": [[1, "write", 0, [1]], [1, "save", 0, "file", "abs"], [1, "write", 0, [2]]]},
        {"threads": 1, "ops": [[1, "write", 0, [1]], [1, "symlink", 4, 0, "rel"], [1, "save", 4, "file", "abs"]]},
    ]

    def gen(self, rng, i):
        return gen_store_case(rng)

    def impl(self, case):
        return real_store(case)

    def oracle(self, case, obs):
        F = C.Failure
        fails = []
        paths = [c["path"] for c in obs["calls"] if c.get("path")]
        if len(paths) != len(set(paths)):
            fails.append(F("C06/attachment-name-duplicate", f"attachment names used more than once: {sorted(p for p in set(paths) if paths.count(p) > 1)}"))
        for c in obs["calls"]:
            what = f"attachment call #{c['n']} ({c['op']})"
            if c["outcome"] != "done":
                if c["events"]:
                    fails.append(F("C06/aborted-attachment-recorded", f"{what} raised ({c['outcome']}) but a LogAttachmentEvent references {c.get('path')}"))
                continue
            if c["events"] != 1:
                fails.append(F("C06/attachment-event-count", f"{what} returned and fired {c['events']} attachment events"))
                continue
            exp = c["expected"]
            if c.get("at_fire_missing"):
                fails.append(F("C06/attachment-file-missing", f"{what}: {c['path']} is not a readable file when its event is fired"
                                                              + (" (the directory entry is a symbolic link)" if c.get("entry_is_link") else "")))
            elif c["at_fire"] != exp:
                fails.append(F("C06/attachment-content", f"{what}: {c['path']} holds {c['at_fire']} when its event is fired, attached was {exp}"))
            elif c.get("final_missing"):
                fails.append(F("C06/attachment-file-missing", f"{what}: {c['path']} does not exist at the end of the history"))
            elif c["final"] != exp:
                fails.append(F("C06/attachment-changed-after-attach",
                               f"{what}: {c['path']} held the attached content {exp} when its event was fired; after the test went on "
                               f"using its own file it holds {c['final']}"))
        seen, out = set(), []
        for f in fails:
            if f.signature not in seen:
                seen.add(f.signature)
                out.append(f)
        return out

    # ---- the model: M14c in copy mode ----------------------------------------------------------------------
    def _model_ops(self, case, obs):
        ops, n, idx = [], 0, []
        for i, (op, out) in enumerate(zip(case["ops"], obs["outcomes"])):
            k = op[1]
            if k in ("save", "content"):
                n += 1
            if out == "skipped":
                continue
            idx.append(i)
            if k in ("write", "append", "replace"):
                ops.append([k, op[2], op[3]])
            elif k == "unlink":
                ops.append(["unlink", op[2]])
            elif k == "symlink":
                ops.append(["symlink", op[2], op[3]])
            elif k == "save":
                ops.append(["save", n, op[2]])
            else:
                ops.append(["content", n, op[2]])
        return ops, idx, n

    def request(self, case, obs):
        ops, _, n = self._model_ops(case, obs)
        return {"store": {"mode": "copy", "ops": ops, "numbers": list(range(1, n + 1)), "paths": _REG_PATHS + _LINK_PATHS}}

    def compare(self, case, obs, ans):
        if "error" in ans and "ok" not in ans:
            return "model error: " + str(ans["error"])
        ops, idx, n = self._model_ops(case, obs)
        if not ans["ok"]:
            return f"M14c does not cover call {ans['accepted']} of the history: {ops[ans['accepted']] if ans['accepted'] < len(ops) else None}"
        real_out = [obs["outcomes"][i] for i in idx]
        if ans["outcomes"] != real_out:
            return f"outcomes differ: model {ans['outcomes']} real {real_out}"
        real_att = {c["n"]: (c.get("final") if c["outcome"] == "done" else None) for c in obs["calls"]}
        model_att = {k: v for k, v in ans["att"]}
        for k in range(1, n + 1):
            if model_att.get(k) != real_att.get(k):
                return f"final content of attachment #{k}: model {model_att.get(k)} real {real_att.get(k)}"
        for c in obs["calls"]:
            if c["outcome"] == "done" and c.get("path") and int(os.path.basename(c["path"]).split("_")[0]) != c["n"]:
                return f"attachment call #{c['n']} was handed the name {c['path']}"
        model_src = {str(k): v for k, v in ans["src"]}
        if model_src != obs["src"]:
            return f"final content of the test's own files: model {model_src} real {obs['src']}"
        return None

    def nontrivial(self, case, obs):
        return _store_modified_after_attach(case) and any(c["outcome"] == "done" for c in obs["calls"])

    def features(self, case, obs):
        f = ["threads=%d" % case["threads"]] + (["att-names:odd"] if case.get("names") is not None else [])
        links, attached, count = {}, {}, {}
        for op, out in zip(case["ops"], obs["outcomes"]):
            k = op[1]
            tgt = links.get(op[2], op[2]) if k in ("save", "write", "append", "replace", "unlink") else None
            if k == "symlink" and out == "done":
                links[op[2]] = op[3]
                f.append("symlink-" + op[4])
            elif k == "save":
                f.append("save-" + out.split(":")[0])
                if out == "done":
                    if op[2] in links:
                        f.append("source-through-symlink")
                    if op[4] == "rel":
                        f.append("source-spelled-relative")
                    count[tgt] = count.get(tgt, 0) + 1
                    if count[tgt] >= 2:
                        f.append("same-source-attached-again")
                    attached[tgt] = True
            elif k == "content":
                f.append("content:" + op[3])
            elif k in ("write", "append") and attached.get(tgt):
                f.append("source-%s-in-place-after-attach" % ("truncated" if (k == "write" and not op[3]) else "rewritten" if k == "write" else "appended"))
                if op[2] in links:
                    f.append("source-modified-through-symlink-after-attach")
            elif k == "replace" and attached.get(tgt):
                f.append("source-replaced-after-attach")
            elif k == "unlink" and out == "done":
                if op[2] in links:
                    del links[op[2]]
                elif attached.get(tgt):
                    f.append("source-deleted-after-attach")
        if case["threads"] >= 2 and len({op[0] for op in case["ops"] if op[1] in ("save", "write", "append")}) >= 2:
            f.append("several-threads-on-the-files")
        return sorted(set(f))

    def shrink(self, case):
        ops = case["ops"]
        for i in range(len(ops)):
            yield {"threads": case["threads"], "ops": ops[:i] + ops[i + 1:]}
        if case["threads"] > 1:
            yield {"threads": 1, "ops": [[1] + op[1:] for op in ops]}
        for i, op in enumerate(ops):
            if op[1] == "save" and op[4] == "rel":
                yield {"threads": case["threads"], "ops": ops[:i] + [op[:4] + ["abs"]] + ops[i + 1:]}


class SessStream(_session.SessionStream):
    name = "sess"
    quick_cases = 150
    quick_seconds = 12
    thorough_cases = 1500
    thorough_seconds = 150

    def oracle(self, case, obs):
        # C06, last sentence, on the observation only: a referenced attachment exists with the written content
        # (blocks left by an exception included: they must not be referenced at all)
        out = _session.attachment_failures("C06", obs)
        # ... "never in the result of another test": an event is fired by a thread that owns a cursor on its location (a thread
        # without any cursor — a plain threading.Thread — must not write into the result another thread is working on)
        out += _session.ownership_failures("C06", case["ops"], obs["fired"])
        # ... and "inside the step that was current in the emitting thread", for every step change (also one to a
        # step with the same description), on the streams of call sequences a run can issue
        if obs["error"] is None and _session.protocol_following(case["ops"]):
            out += _session.step_change_failures("C06", case["ops"], obs["fired"], [r["i"] for r in obs.get("refused", [])])
        return out


def attach_name_table():
    """Decision table of the REAL `Session.prepare_attachment` as a function of (counter, given name): executed with the
    counter set to n - 1 on every name of `_session.ATT_NAMES_ODD` / `ATT_NAMES_REFUSED` (n = 1) and on a few names for counters
    of 1 to 6 digits.  Read back: did the write inside the block raise OSError (the file system refuses the name); the ONE
    directory entry that appeared under <report dir>/attachments; the path the fired LogAttachmentEvent carries."""
    import lemoncheesecake.events as E
    import lemoncheesecake.session as S
    from lemoncheesecake.reporting import Report
    from lemoncheesecake.testtree import BaseTest

    def lean_list(text):
        return "[" + ", ".join(str(ord(ch)) for ch in text) + "]"
    names = list(_session.ATT_NAMES_ODD) + list(_session.ATT_NAMES_REFUSED)
    pairs = [(1, nm) for nm in names]
    for n in (9, 10, 42, 999, 1000, 9999, 10000, 123456):
        pairs += [(n, nm) for nm in ("f.txt", "core #1.txt", "a%20b?.txt", "0002_f.txt", "v" * 250, "v" * 249, "\u00e9" * 125, "w" * 300 + ".txt")]
    rows = []
    for n, nm in pairs:
        tmp = tempfile.mkdtemp(prefix="lccverif-c06name-")
        fired = []

        class RecEM(E.EventManager):
            def fire(self, event):
                fired.append(event)
        old_inst = S.Session._instance
        try:
            session = S.Session(RecEM.load(), tmp, Report())
            S.Session._instance = session
            session.start_test(R._node_chain(["s", "t"], _session.md_of("t", 1), BaseTest))
            session.set_step("step")
            session._attachment_count = n - 1
            refused = False
            try:
                with session.prepare_attachment(nm, "d") as path:
                    with open(path, "w") as fh:
                        fh.write("x")
            except OSError:
                refused = True
            adir = os.path.join(tmp, "attachments")
            entries = sorted(os.listdir(adir)) if os.path.isdir(adir) else []
            paths = [e.attachment_path for e in fired if isinstance(e, E.LogAttachmentEvent)]
            if refused:
                out = ("true", "[]", "[]") if not entries and not paths else ("true", lean_list("?unexpected"), lean_list(repr((entries, paths))))
            elif len(entries) == 1 and len(paths) == 1:
                out = ("false", lean_list(entries[0]), lean_list(paths[0]))
            else:
                out = ("false", lean_list("?unexpected"), lean_list(repr((entries, paths))))
        finally:
            S.Session._instance = old_inst
            shutil.rmtree(tmp, ignore_errors=True)
        human = "n=%d name=%r -> %s" % (n, nm[:40], "refused" if refused else "%r / %r" % (entries[0][:40] if entries else None, paths[0][:52] if paths else None))
        rows.append(("(%d, %s)" % (n, lean_list(nm)), "(%s, %s, %s)" % out, human))
    return C.Table("attachNameTable", "List ((Nat × List Nat) × (Bool × List Nat × List Nat))", rows)


def tables(ctx):
    # the stored name and the referenced path as a function of (counter, given name), and which names the file system refuses:
    # obligation Generated/C06TablesCheck.lean (`AttachName.stored`, `AttachName.storable`, `Session.attachName`)
    return [attach_name_table()]


def streams(ctx):
    return [SessStream(), RunStream(ctx), AttachStream(), StoreStream()]

"""
Stream `decl` (property C01): the decorator / loader path that EXPANDS declared tests.

A case is a description of suite CLASSES with decorated test methods (`@lcc.test`, `@lcc.disabled`, `@lcc.tags`,
`@lcc.prop`, `@lcc.link`, `@lcc.hidden`, `@lcc.depends_on`, `@lcc.parametrized` in dict / CSV-string / CSV-tuple form
with the default, a format-string or a callable naming scheme; nested, disabled and hidden classes).  It is rendered to
real Python source, `exec`-ed, the classes are loaded by the real `load_suites_from_classes` (→ `load_suite_from_class`,
`_load_tests`, `_load_parametrized_tests`), dependencies are resolved by the real `resolve_tests_dependencies` and the
tree is run by the real `run_suites` for nb_threads ∈ {1, 2, 4} × force_disabled ∈ {False, True}.

Observation: the loaded tree (names, descriptions, disabled value, tags, properties, links, rank order, dependency
paths, parameters, the declaring function), or the exception the loader raised; per run: the report's tests with their
statuses and the multiset of executed bodies with the arguments they received.

Oracle (C01's sentences on the observation only, never the model): every test a declaration stands for (one per
parameter set) is in the report exactly once, at its path, with one terminal status; a test whose declaration or an
enclosing class is disabled is reported disabled and not executed unless force_disabled; no body runs twice; a body
receives exactly its own parameter set.  Model side: `drivers/Expand.lean` (`Model/Expand.lean`).
"""
import json
import random
import shutil
import tempfile
import threading

import common as C

import lemoncheesecake.api as lcc
import lemoncheesecake.suite.builder as LB
from lemoncheesecake.events import AsyncEventManager
from lemoncheesecake.fixture import FixtureRegistry
from lemoncheesecake.reporting.backend import ReportingBackend, ReportingSession, ReportingSessionBuilderMixin
from lemoncheesecake.runner import run_suites
from lemoncheesecake.session import Session
from lemoncheesecake.suite import load_suites_from_classes
from lemoncheesecake.suite.core import resolve_tests_dependencies

STATUSES = ("passed", "failed", "skipped", "disabled")
THREADS = (1, 2, 4)
WORDS = ["zeta", "alpha", "mid", "beta", "omega", "kilo", "delta", "yak", "echo", "nu"]
VALUES = [1, 2, 3, 7, 10, -4, 0, 42, "x", "y", "eu", "us", "gbp", "A1"]
DECL_TRUSTED = [
    "decl stream: harness/props/_decl.py renders generated class descriptions to Python source, loads them with the real "
    "load_suites_from_classes and runs them with the real run_suites; hand-written model Model/Expand.lean (decorators + loader.py expansion, "
    "bridge to the run-level project syntax) evaluated by drivers/Expand.lean; the callable naming schemes are a family of three functions "
    "written once in Python and once in Lean (drivers/Expand.lean customNaming)",
]
DECL_RULE = ("decl stream: generated suite classes (nesting <= 3, disabled / hidden classes, disabled(+reason) / hidden / tagged / linked tests, "
             "depends_on, parametrized in dict / CSV forms with 0..4 sets and default / format / callable naming, name clashes) x nb_threads {1,2,4} x "
             "force_disabled; non-trivial = loaded, >= 2 tests, >= 1 parametrized declaration, >= 1 body executed")

CUSTOM_NAMING = {
    "idx_rev": 'lambda name, description, parameters, nb: ("%s_r%d" % (name, 100 - nb), "%s (r%d)" % (description, 100 - nb))',
    "vals": 'lambda name, description, parameters, nb: (name + "".join("_%s" % v for v in parameters.values()), '
            'description + " with " + ", ".join("%s=%s" % kv for kv in parameters.items()))',
    "const": "lambda name, description, parameters, nb: (name, description)",
}


# ------------------------------------------------------------------------------------------------
# generation
# ------------------------------------------------------------------------------------------------

def _md(rng, p=0.3):
    tags = rng.sample(["slow", "net", "db", "ui"], rng.choice([1, 1, 2])) if rng.random() < p else []
    props = [[k, rng.choice(["high", "low", "p1"])] for k in rng.sample(["prio", "area", "owner"], rng.choice([1, 2]))] \
        if rng.random() < p else []
    links = [[u, rng.choice([None, "ticket", "spec"])] for u in rng.sample(["http://t/1", "http://t/2", "http://s/x"], rng.choice([1, 2]))] \
        if rng.random() < p else []
    return tags, props, links


def _disabled(rng, p):
    r = rng.random()
    if r >= p:
        return False
    return True if r < p * 0.55 else "because %s" % rng.choice(["sandbox is down", "flaky", "not ready"])


def _expected_names(decl):
    """names the expansions of a declaration are EXPECTED to get — only used to choose resolvable depends_on targets
    (a wrong guess surfaces as a ValidationError of the real resolver and is classified, never trusted)"""
    base = decl["name"] or decl["attr"]
    if decl["hidden"]:
        return []
    p = decl["param"]
    if p is None:
        return [base]
    out = []
    for i, vals in enumerate(p["sets"]):
        kw = dict(zip(p["names"], vals))
        n = p["naming"]
        if n["k"] == "default":
            out.append("%s_%d" % (base, i + 1))
        elif n["k"] == "format":
            try:
                out.append(_fmt(n["name"]).format(**kw))
            except KeyError:
                return []
        elif n["which"] == "idx_rev":
            out.append("%s_r%d" % (base, 100 - (i + 1)))
        else:
            return []
    return out


def _fmt(segs):
    return "".join(s["lit"] if "lit" in s else "{%s}" % s["field"] for s in segs)


def gen_case(rng):
    ctr = {"n": 0}
    targets = []            # dotted paths of tests declared so far in visible places (depends_on candidates)

    def ident(prefix):
        ctr["n"] += 1
        return "%s%s_%d" % (prefix, rng.choice(WORDS), ctr["n"])

    def mk_param(attr, base):
        names = rng.sample(["a", "b", "cur"], rng.choice([1, 1, 2, 2, 3]))
        if rng.random() < 0.05:
            names = []
        nsets = rng.choice([0, 1, 2, 2, 3, 3, 4])
        sets = [[rng.choice(VALUES) for _ in names] for _ in range(nsets)]
        if names:
            firsts = rng.sample(VALUES, nsets)              # distinct first column: the sets differ unless one is repeated below
            for vals, v in zip(sets, firsts):
                vals[0] = v
        if len(sets) > 1 and rng.random() < 0.03:
            sets.append(list(sets[0]))                      # a repeated parameter set
        form = rng.choice(["dicts", "dicts", "csv-str", "csv-str-spaced", "csv-tuple", "csv-list"]) if names else "dicts"
        r = rng.random()
        if r < 0.55:
            naming = {"k": "default"}
        elif r < 0.85:
            keys = list(names)
            rng.shuffle(keys)
            nm = [{"lit": base + "_"}]
            for i, k in enumerate(keys):
                nm += ([{"lit": "_"}] if i else []) + [{"field": k}]
            ds = [{"lit": "Check " + base}] + [x for k in names for x in ({"lit": " %s=" % k}, {"field": k})]
            if rng.random() < 0.08 and len(keys) > 1:
                nm = nm[:2]                                   # the name only shows the first key: clashes when it repeats
            if rng.random() < 0.04:
                (nm if rng.random() < 0.5 else ds).append({"field": "nokey"})     # KeyError out of str.format
            naming = {"k": "format", "name": nm, "desc": ds, "as": rng.choice(["tuple", "list"])}
        else:
            naming = {"k": "custom", "which": rng.choice(["idx_rev", "idx_rev", "idx_rev", "vals", "vals", "vals", "vals", "const"])}
            if naming["which"] == "const" and rng.random() < 0.85:
                sets = sets[:1]                               # a constant naming scheme only works for a single set
        if not names and naming["k"] != "default" and rng.random() < 0.8:
            sets = sets[:1]                                   # several empty parameter sets only differ by their index
        return {"form": form, "names": names, "sets": sets, "naming": naming}

    def mk_test(path, visible):
        attr = ident("t_")
        tags, props, links = _md(rng)
        d = {"attr": attr, "name": ident("n_") if rng.random() < 0.15 else None,
             "desc": "Desc of %s" % attr if rng.random() < 0.7 else None,
             "disabled": _disabled(rng, 0.30), "empty_reason": False, "tags": tags, "props": props, "links": links,
             "hidden": rng.random() < 0.05, "deps": [], "param": None, "order": rng.randrange(1 << 16)}
        if d["disabled"] is True and rng.random() < 0.15:
            d["empty_reason"] = True                         # @lcc.disabled(""): an empty reason is no reason
        if rng.random() < 0.55:
            d["param"] = mk_param(attr, d["name"] or attr)
        if targets and rng.random() < 0.2:
            d["deps"] = rng.sample(targets, min(len(targets), rng.choice([1, 1, 2])))
        if visible:
            for n in _expected_names(d):
                if "." not in n:
                    targets.append(".".join(path + [n]))
        return d

    def mk_cls(path, depth, visible):
        attr = ident("S_")
        name = ident("sn_") if rng.random() < 0.15 else None
        tags, props, links = _md(rng, 0.15)
        hidden = depth > 1 and rng.random() < 0.06
        me = path + [name or attr]
        c = {"attr": attr, "name": name, "desc": "Suite %s" % attr if rng.random() < 0.5 else None,
             "disabled": _disabled(rng, 0.15), "tags": tags, "props": props, "links": links, "hidden": hidden,
             "rank": None, "subs_first": rng.random() < 0.3, "order": rng.randrange(1 << 16), "tests": [], "subs": []}
        nt = rng.choice([0, 1, 1, 2, 2, 3, 4]) if depth > 1 else rng.choice([1, 2, 2, 3, 4])
        nsub = 0 if depth >= 3 else rng.choice([0, 0, 0, 1, 1, 2])
        if c["subs_first"]:
            c["subs"] = [mk_cls(me, depth + 1, visible and not hidden) for _ in range(nsub)]
            c["tests"] = [mk_test(me, visible and not hidden) for _ in range(nt)]
        else:
            c["tests"] = [mk_test(me, visible and not hidden) for _ in range(nt)]
            c["subs"] = [mk_cls(me, depth + 1, visible and not hidden) for _ in range(nsub)]
        if c["subs"] and rng.random() < 0.12:
            for s in c["subs"]:
                s["rank"] = rng.choice([1, 2, 2, 3])          # explicit @lcc.suite(rank=…), ties allowed
        # rare deliberate clashes inside one class
        if len(c["tests"]) >= 2 and rng.random() < 0.03:
            a, b = rng.sample(c["tests"], 2)
            if rng.random() < 0.5:
                b["desc"] = a["desc"] = "Same description"
            else:
                b["name"] = (a["name"] or a["attr"]) + "_1"    # the name the first default expansion of `a` gets
        return c

    classes = [mk_cls([], 1, True) for _ in range(rng.choice([1, 1, 2, 2, 3]))]
    return {"classes": classes}


def iter_decls(classes, path=(), inh_disabled=False, visible=True):
    """yields (decl, class path (attr chain), effectively disabled by declaration, visible)"""
    for c in classes:
        p = path + (c["attr"],)
        dis = inh_disabled or bool(c["disabled"])
        vis = visible and not c["hidden"]
        for d in c["tests"]:
            yield d, p, dis or bool(d["disabled"]), vis and not d["hidden"]
        yield from iter_decls(c["subs"], p, dis, vis)


# ------------------------------------------------------------------------------------------------
# rendering to Python source
# ------------------------------------------------------------------------------------------------

def _py(v):
    return repr(v)


def _render_param(p):
    names, sets, form = p["names"], p["sets"], p["form"]
    if form == "dicts":
        src = "[%s]" % ", ".join("{%s}" % ", ".join("%r: %s" % (k, _py(v)) for k, v in zip(names, vals)) for vals in sets)
    else:
        if form == "csv-str":
            head = _py(",".join(names))
        elif form == "csv-str-spaced":
            head = _py(" , ".join(names))
        elif form == "csv-tuple":
            head = "(%s,)" % ", ".join(_py(n) for n in names)
        else:
            head = "[%s]" % ", ".join(_py(n) for n in names)
        rows = ["(%s,)" % ", ".join(_py(v) for v in vals) for vals in sets]
        src = "[%s]" % ", ".join([head] + rows)
    n = p["naming"]
    if n["k"] == "default":
        return "@lcc.parametrized(%s)" % src
    if n["k"] == "format":
        pair = "%s, %s" % (_py(_fmt(n["name"])), _py(_fmt(n["desc"])))
        return "@lcc.parametrized(%s, %s)" % (src, "(%s)" % pair if n.get("as") != "list" else "[%s]" % pair)
    return "@lcc.parametrized(%s, naming_scheme=%s)" % (src, CUSTOM_NAMING[n["which"]])


def _decorators(x, is_test, rng_order):
    decs = []
    if x["disabled"]:
        if x["disabled"] is True:
            decs.append('@lcc.disabled("")' if x.get("empty_reason") else "@lcc.disabled()")
        else:
            decs.append("@lcc.disabled(%s)" % _py(x["disabled"]))
    if x["tags"]:
        decs.append("@lcc.tags(%s)" % ", ".join(_py(t) for t in x["tags"]))
    if x["hidden"]:
        decs.append("@lcc.hidden()")
    if is_test:
        if x["deps"]:
            decs.append("@lcc.depends_on(%s)" % ", ".join(_py(d) for d in x["deps"]))
        if x["param"] is not None:
            decs.append(_render_param(x["param"]))
    random.Random(rng_order).shuffle(decs)
    # decorators apply bottom-up: links and properties are written in reverse (as blocks) so that md.links / md.properties
    # have the described order
    links = ["@lcc.link(%s)" % (_py(u) if n is None else "%s, %s" % (_py(u), _py(n))) for u, n in reversed(x["links"])]
    props = ["@lcc.prop(%s, %s)" % (_py(k), _py(v)) for k, v in reversed(x["props"])]
    r = random.Random(rng_order + 1)
    k = r.randint(0, len(decs))
    decs = decs[:k] + links + decs[k:]
    k = r.choice([i for i in range(len(decs) + 1) if not (0 < i < len(decs) and decs[i - 1].startswith("@lcc.link") and decs[i].startswith("@lcc.link"))])
    return decs[:k] + props + decs[k:]


def render(classes):
    out = ["import lemoncheesecake.api as lcc", ""]

    def cls(c, ind):
        pad = "    " * ind
        args = []
        if c["desc"] is not None:
            args.append(_py(c["desc"]))
        if c["name"] is not None:
            args.append("name=%s" % _py(c["name"]))
        if c["rank"] is not None:
            args.append("rank=%d" % c["rank"])
        decs = _decorators(c, False, c["order"])
        k = len(decs) // 2
        for d in decs[:k] + ["@lcc.suite(%s)" % ", ".join(args)] + decs[k:]:
            out.append(pad + d)
        out.append(pad + "class %s:" % c["attr"])
        body = []
        tests = [("t", t) for t in c["tests"]]
        subs = [("s", s) for s in c["subs"]]
        for kind, x in (subs + tests if c["subs_first"] else tests + subs):
            body.append((kind, x))
        if not body:
            out.append(pad + "    pass")
        for kind, x in body:
            if kind == "s":
                cls(x, ind + 1)
            else:
                test(x, ind + 1)
            out.append("")

    def test(t, ind):
        pad = "    " * ind
        args = []
        if t["desc"] is not None:
            args.append(_py(t["desc"]))
        if t["name"] is not None:
            args.append("name=%s" % _py(t["name"]))
        decs = _decorators(t, True, t["order"])
        k = (t["order"] >> 3) % (len(decs) + 1)
        for d in decs[:k] + ["@lcc.test(%s)" % ", ".join(args)] + decs[k:]:
            out.append(pad + d)
        names = t["param"]["names"] if t["param"] is not None else []
        out.append(pad + "def %s(%s):" % (t["attr"], ", ".join(["self"] + names)))
        out.append(pad + "    _rec(%r, {%s})" % (t["attr"], ", ".join("%r: %s" % (n, n) for n in names)))

    for c in classes:
        cls(c, 0)
        out.append("")
    return "\n".join(out)


# ------------------------------------------------------------------------------------------------
# the real loader and runner
# ------------------------------------------------------------------------------------------------

class _Backend(ReportingBackend, ReportingSessionBuilderMixin):
    def get_name(self):
        return "lccverif-null"

    def create_reporting_session(self, report_dir, report, parallel, report_saving_strategy):
        return ReportingSession()


def _dis(v):
    return v if isinstance(v, str) else bool(v)


def canon_tree(suites):
    """the loaded tree as the model prints it; ranks become dense ranks among the siblings (only their ORDER is compared)"""
    def dense(nodes):
        order = sorted({n.rank for n in nodes})
        return {r: i + 1 for i, r in enumerate(order)}

    def test(t, dr):
        return {"name": t.name, "desc": t.description, "rank": dr[t.rank], "disabled": _dis(t.disabled),
                "tags": list(t.tags), "props": [[k, v] for k, v in t.properties.items()],
                "links": [[l[0], l[1]] for l in t.links],
                "deps": [d.split(".") if isinstance(d, str) else ["<callable>"] for d in t.dependencies],
                "params": [[k, v] for k, v in t.parameters.items()], "decl": getattr(t.callback, "__name__", None)}

    def suite(s, dr):
        tests = s.get_tests()
        subs = s.get_suites()
        dt, ds = dense(tests), dense(subs)
        return {"name": s.name, "desc": s.description, "rank": dr[s.rank], "disabled": _dis(s.disabled), "tags": list(s.tags),
                "props": [[k, v] for k, v in s.properties.items()], "links": [[l[0], l[1]] for l in s.links],
                "tests": [test(t, dt) for t in tests], "suites": [suite(x, ds) for x in subs]}
    dr = dense(suites)
    return [suite(s, dr) for s in suites]


def model_tree(tree):
    """the model's tree with dense sibling ranks and without what the model does not print"""
    def dense(nodes):
        order = sorted({n["rank"] for n in nodes})
        return {r: i + 1 for i, r in enumerate(order)}

    def suite(s, dr):
        dt, ds = dense(s["tests"]), dense(s["suites"])
        return dict(s, rank=dr[s["rank"]], tests=[dict(t, rank=dt[t["rank"]]) for t in s["tests"]],
                    suites=[suite(x, ds) for x in s["suites"]])
    dr = dense(tree)
    return [suite(s, dr) for s in tree]


def strip_decl(tree):
    def suite(s):
        return dict(s, tests=[{k: v for k, v in t.items() if k != "decl"} for t in s["tests"]], suites=[suite(x) for x in s["suites"]])
    return [suite(s) for s in tree]


def flat_tests(tree, prefix=(), inh=False):
    """[(path, test dict, disabled by the loaded tree)]"""
    for s in tree:
        p = prefix + (s["name"],)
        d = inh or bool(s["disabled"])
        for t in s["tests"]:
            yield list(p + (t["name"],)), t, d or bool(t["disabled"])
        yield from flat_tests(s["suites"], p, d)


def _report_tests(report):
    out = []

    def walk(s, prefix):
        p = prefix + [s.name]
        for t in s.get_tests():
            out.append([p + [t.name], t.status, t.status_details])
        for x in s.get_suites():
            walk(x, p)
    for s in report.get_suites():
        walk(s, [])
    return out


def _report_suites(report):
    out = []

    def walk(s, prefix):
        p = prefix + [s.name]
        out.append([p, s.start_time is not None, s.end_time is not None])
        for x in s.get_suites():
            walk(x, p)
    for s in report.get_suites():
        walk(s, [])
    return out


def run_case(case, watchdog=30.0):
    src = render(case["classes"])
    executed = []
    lock = threading.Lock()

    def _rec(decl, kwargs):
        with lock:
            executed.append([decl, sorted([k, v] for k, v in kwargs.items())])

    obs = {"source": src, "runs": []}
    keep = len(LB._objects_with_metadata)
    ns = {"_rec": _rec}
    try:
        exec(compile(src, "<lccverif-decl>", "exec"), ns)
    except Exception as e:        # decorator-time rejection (assertion of a decorator)
        obs["load"] = {"error": [type(e).__name__, str(e)[:300]], "at": "import"}
        return obs
    finally:
        # builder.get_metadata keeps every decorated object in a module-global list and scans it linearly
        del LB._objects_with_metadata[keep:]
    tops = [ns[c["attr"]] for c in case["classes"]]

    def load():
        return load_suites_from_classes(tops)

    try:
        suites = load()
    except Exception as e:
        obs["load"] = {"error": [type(e).__name__, str(e)[:300]], "at": "load"}
        return obs
    obs["load"] = {"tree": canon_tree(suites)}
    if all(s.is_empty() for s in suites):
        obs["empty"] = True          # "No test is defined": nothing to run
        return obs
    try:
        resolve_tests_dependencies(suites, suites)
    except Exception as e:
        obs["resolve_error"] = [type(e).__name__, str(e)[:300]]
        return obs
    for n in THREADS:
        for force in (False, True):
            del executed[:]
            run = {"n": n, "force": force}
            tmp = tempfile.mkdtemp(prefix="lccverif-decl-")
            old = Session._instance
            side = {}

            def body():
                try:
                    ss = load()
                    resolve_tests_dependencies(ss, ss)
                    session = Session.create(AsyncEventManager.load(), [_Backend()], tmp, None, nb_threads=n)
                    side["session"] = session
                    side["returned"] = bool(run_suites(ss, FixtureRegistry(), session, force_disabled=force, nb_threads=n))
                except BaseException as e:
                    side["raised"] = [type(e).__name__, str(e)[:300]]
            try:
                th = threading.Thread(target=body, daemon=True, name="lccverif-decl")
                th.start()
                th.join(watchdog)
                if th.is_alive():
                    run["outcome"] = {"hang": True}
                elif "raised" in side:
                    run["outcome"] = {"raised": side["raised"][0], "text": side["raised"][1]}
                else:
                    run["outcome"] = {"returned": side["returned"]}
                session = side.get("session")
                if session is not None and not th.is_alive():
                    run["tests"] = _report_tests(session.report)
                    run["suites"] = _report_suites(session.report)
                with lock:
                    run["executed"] = sorted(executed, key=lambda x: json.dumps(x))
            finally:
                Session._instance = old
                shutil.rmtree(tmp, ignore_errors=True)
            obs["runs"].append(run)
    return obs


# ------------------------------------------------------------------------------------------------
# C01 on the observation
# ------------------------------------------------------------------------------------------------

def oracle(case, obs):
    out = []
    load = obs.get("load", {})
    if "tree" not in load or obs.get("empty") or "resolve_error" in obs:
        return out
    tree = load["tree"]
    decls = {}
    for d, cpath, dis, vis in iter_decls(case["classes"]):
        decls[d["attr"]] = (d, dis, vis)
    loaded = list(flat_tests(tree))
    # one scheduled test per parameter set of every visible declaration (one when not parametrized)
    by_decl = {}
    for path, t, _ in loaded:
        by_decl.setdefault(t["decl"], []).append((path, t))
    for attr, (d, dis, vis) in decls.items():
        want = 0 if not vis else (1 if d["param"] is None else len(d["param"]["sets"]))
        got = by_decl.get(attr, [])
        if len(got) != want:
            out.append(C.Failure("C01/decl/expansion-count", "declaration %s stands for %d tests, the loaded tree has %d: %r" % (
                attr, want, len(got), [".".join(p) for p, _ in got])))
            continue
        if vis and d["param"] is not None:
            sets = [[[k, v] for k, v in zip(d["param"]["names"], vals)] for vals in d["param"]["sets"]]
            if [t["params"] for _, t in got] != sets:
                out.append(C.Failure("C01/decl/expansion-parameters", "declaration %s: parameter sets %r, loaded tests carry %r" % (
                    attr, sets, [t["params"] for _, t in got])))
    paths = [".".join(p) for p, _, _ in loaded]
    for run in obs["runs"]:
        tag = "n=%d force=%s" % (run["n"], run["force"])
        if "returned" not in run["outcome"]:
            out.append(C.Failure("C01/decl/run-" + sorted(run["outcome"])[0], "%s: %r" % (tag, run["outcome"])))
            continue
        rep = {}
        for p, st, _ in run["tests"]:
            rep.setdefault(".".join(p), []).append(st)
        for p in paths:
            sts = rep.get(p, [])
            if len(sts) != 1:
                out.append(C.Failure("C01/decl/test-%s" % ("missing-from-report" if not sts else "reported-twice"), "%s: %s has %d results" % (tag, p, len(sts))))
            elif sts[0] not in STATUSES:
                out.append(C.Failure("C01/decl/test-without-terminal-status", "%s: %s has status %r" % (tag, p, sts[0])))
        for p in rep:
            if p not in paths:
                out.append(C.Failure("C01/decl/unscheduled-test-in-report", "%s: %s" % (tag, p)))
        for p, started, ended in run["suites"]:
            if not (started and ended):
                out.append(C.Failure("C01/decl/suite-not-closed", "%s: suite %s started=%s ended=%s" % (tag, ".".join(p), started, ended)))
        execs = [json.dumps(e) for e in run["executed"]]
        remaining = list(execs)
        for path, t, _ in loaded:
            d, declared_disabled, _ = decls[t["decl"]]
            key = json.dumps([t["decl"], sorted(t["params"])])
            n_exec = 0
            if key in remaining:
                remaining.remove(key)
                n_exec = 1
            st = (rep.get(".".join(path)) or [None])[0]
            p = ".".join(path)
            if declared_disabled and not run["force"]:
                if n_exec or st != "disabled":
                    out.append(C.Failure("C01/decl/disabled-test-executed" if n_exec else "C01/decl/disabled-test-not-reported-disabled",
                                         "%s: %s is declared disabled (%r) — status %r, body executed: %s" % (tag, p, d["disabled"], st, bool(n_exec))))
            elif st == "passed" and not n_exec:
                out.append(C.Failure("C01/decl/passed-without-its-own-parameters",
                                     "%s: %s passed but no body of %s ran with %r (executed: %r)" % (tag, p, t["decl"], t["params"], run["executed"])))
            elif st in ("skipped", "disabled") and n_exec:
                out.append(C.Failure("C01/decl/body-executed-but-" + st, "%s: %s" % (tag, p)))
        if remaining:
            out.append(C.Failure("C01/decl/body-executed-more-than-once-or-with-foreign-parameters",
                                 "%s: executions without a scheduled test of their own: %r" % (tag, remaining[:5])))
    return out


# ------------------------------------------------------------------------------------------------
# model request
# ------------------------------------------------------------------------------------------------

def model_classes(classes):
    """description → what drivers/Expand.lean parses: rank = position in the class body (the decoration order of the
    global counter), or the explicit rank= of a suite"""
    def decl(t, rank):
        p = None
        if t["param"] is not None:
            n = t["param"]["naming"]
            p = {"sets": [[[k, v] for k, v in zip(t["param"]["names"], vals)] for vals in t["param"]["sets"]],
                 "naming": {"k": n["k"], "name": n.get("name"), "desc": n.get("desc"), "which": n.get("which")}}
        return {"attr": t["attr"], "name": t["name"], "desc": t["desc"], "rank": rank, "tags": t["tags"], "props": t["props"],
                "links": t["links"], "disabled": t["disabled"], "hidden": t["hidden"], "deps": [d.split(".") for d in t["deps"]],
                "param": p}

    def cls(c, rank):
        # members in textual order get increasing ranks; nested classes are decorated when the body runs, tests too
        order = ([("s", s) for s in c["subs"]] + [("t", t) for t in c["tests"]]) if c["subs_first"] else \
            ([("t", t) for t in c["tests"]] + [("s", s) for s in c["subs"]])
        tests, subs = [], []
        for i, (k, x) in enumerate(order):
            if k == "t":
                tests.append(decl(x, i + 1))
            else:
                subs.append(cls(x, x["rank"] if x["rank"] is not None else i + 1))
        return {"attr": c["attr"], "name": c["name"], "desc": c["desc"], "rank": rank, "tags": c["tags"], "props": c["props"],
                "links": c["links"], "disabled": c["disabled"], "hidden": c["hidden"], "tests": tests, "subs": subs}
    return [cls(c, i + 1) for i, c in enumerate(classes)]


def _t(attr, **kw):
    d = {"attr": attr, "name": None, "desc": None, "disabled": False, "empty_reason": False, "tags": [], "props": [], "links": [],
         "hidden": False, "deps": [], "param": None, "order": 5}
    d.update(kw)
    return d


def _c(attr, tests, subs=(), **kw):
    c = {"attr": attr, "name": None, "desc": None, "disabled": False, "tags": [], "props": [], "links": [], "hidden": False,
         "rank": None, "subs_first": False, "order": 3, "tests": list(tests), "subs": list(subs)}
    c.update(kw)
    return c


# hand-written witnesses replayed first on every run: a disabled declaration that is also parametrized (every naming scheme,
# dict and CSV form), alone and inside a disabled class, next to plain disabled / enabled tests and a dependent test
CORPUS = [
    {"classes": [_c("payments", [
        _t("regular", desc="Regular test"),
        _t("plain_disabled", desc="Plain disabled test", disabled=True),
        _t("pay", desc="Pay with currency", disabled="sandbox of the payment provider is down", tags=["net"],
           param={"form": "dicts", "names": ["currency"], "sets": [["EUR"], ["USD"], ["GBP"]], "naming": {"k": "default"}}),
        _t("after", deps=["payments.regular"], param={"form": "csv-str", "names": ["a", "b"], "sets": [[1, "x"], [2, "y"]],
                                                        "naming": {"k": "custom", "which": "vals"}}),
    ])]},
    {"classes": [_c("outer", [
        _t("conv", disabled=True, order=11, links=[["http://t/1", "ticket"]], props=[["prio", "high"]],
           param={"form": "csv-tuple", "names": ["a", "b"], "sets": [[1, "x"], [-4, "y"]],
                  "naming": {"k": "format", "name": [{"lit": "conv_"}, {"field": "a"}, {"lit": "_"}, {"field": "b"}],
                             "desc": [{"lit": "Convert "}, {"field": "a"}, {"lit": " to "}, {"field": "b"}], "as": "tuple"}}),
        _t("plain"),
    ], subs=[_c("inner", [
        _t("deep", param={"form": "dicts", "names": ["n"], "sets": [[1], [2]], "naming": {"k": "custom", "which": "idx_rev"}}),
        _t("ghost", hidden=True, param={"form": "dicts", "names": ["n"], "sets": [[1]], "naming": {"k": "default"}}),
    ], disabled="whole class off")])]},
]

ERR_MAP = {"KeyError": ("KeyError",), "dupTestDesc": ("SuiteLoadingError", "A test with description"),
           "dupTestName": ("SuiteLoadingError", "A test with name"), "dupSuiteDesc": ("SuiteLoadingError", "A sub test suite with description"),
           "dupSuiteName": ("SuiteLoadingError", "A sub test suite with name")}


class DeclStream(C.Stream):
    name = "decl"
    driver = "drivers/Expand.lean"
    quick_cases = 220
    quick_seconds = 18
    thorough_cases = 2200
    thorough_seconds = 300
    chunk = 20
    corpus = CORPUS

    def gen(self, rng, i):
        return gen_case(rng)

    def impl(self, case):
        return run_case(case)

    def oracle(self, case, obs):
        return oracle(case, obs)

    def request(self, case, obs):
        return {"classes": model_classes(case["classes"]), "nb_threads": 2, "force": False}

    def compare(self, case, obs, ans):
        if "error" in ans:
            return "model error: " + str(ans["error"])
        load = obs["load"]
        if not ans["agree"]:
            return "the loader model succeeded with another tree than the specification `expandSuites`"
        if "err" in ans["load"]:
            kind, arg = ans["load"]["err"]
            want = ERR_MAP[kind]
            if "error" not in load:
                return "model: loader raises %s(%r); the real loader returned a tree" % (kind, arg)
            cls, text = load["error"]
            if cls != want[0] or (len(want) > 1 and not text.startswith(want[1])) or arg not in text:
                return "model: loader raises %s(%r); real: %s(%s)" % (kind, arg, cls, text[:200])
            return None
        if "error" in load:
            return "real loader raised %r; the model loads a tree" % (load["error"],)
        real = strip_decl(load["tree"])
        model = model_tree(ans["load"]["ok"])
        if real != model:
            return "loaded tree differs from the model's: " + _first_diff(real, model)
        # the run-level graph of the expanded tree has one test task per loaded test, in order
        paths = [p for p, _, _ in flat_tests(load["tree"])]
        if ans["tasks"] != paths:
            return "test tasks of the expanded project %r differ from the loaded tests %r" % (ans["tasks"], paths)
        if ans["count"] != len(paths):
            return "declCount %d differs from the number of loaded tests %d" % (ans["count"], len(paths))
        # the model's `testDisabledNow` (no force) agrees with what the run without --force-disabled reported
        for run in obs["runs"]:
            if run["force"] or "tests" not in run:
                continue
            st = {".".join(p): s for p, s, _ in run["tests"]}
            for p, dn in ans["tests"]:
                if (st.get(".".join(p)) == "disabled") != dn:
                    return "n=%d: %s reported %r, model testDisabledNow=%s" % (run["n"], ".".join(p), st.get(".".join(p)), dn)
        return None

    def nontrivial(self, case, obs):
        if "tree" not in obs.get("load", {}) or not obs["runs"]:
            return False
        tests = list(flat_tests(obs["load"]["tree"]))
        return len(tests) >= 2 and any(t["params"] for _, t, _ in tests) and any(r.get("executed") for r in obs["runs"])

    def features(self, case, obs):
        f = []
        load = obs.get("load", {})
        if "error" in load:
            f.append("load-error=" + load["error"][0] + ("/" + " ".join(load["error"][1].split()[:4]) if load["error"][0] == "SuiteLoadingError" else ""))
        elif obs.get("empty"):
            f.append("no-test-at-all")
        elif "resolve_error" in obs:
            f.append("resolve-error=" + obs["resolve_error"][0])
        else:
            f.append("loaded+run")
        nd = 0
        for d, cpath, dis, vis in iter_decls(case["classes"]):
            nd += 1
            f.append("depth=%d" % len(cpath))
            if d["disabled"]:
                f.append("disabled-decl" + ("+reason" if isinstance(d["disabled"], str) else ""))
            if d["hidden"]:
                f.append("hidden-decl")
            if d["deps"]:
                f.append("depends_on")
            for k in ("tags", "props", "links"):
                if d[k]:
                    f.append(k)
            p = d["param"]
            if p is not None:
                f.append("param:form=" + p["form"])
                f.append("param:sets=%d" % len(p["sets"]))
                f.append("param:naming=" + p["naming"]["k"] + ("/" + p["naming"]["which"] if p["naming"]["k"] == "custom" else ""))
                if d["disabled"]:
                    f.append("disabled+parametrized")
                if dis and not d["disabled"]:
                    f.append("parametrized-in-disabled-class")
                if d["deps"]:
                    f.append("parametrized+depends_on")
        for c in _iter_classes(case["classes"]):
            if c["disabled"]:
                f.append("disabled-class")
            if c["hidden"]:
                f.append("hidden-class")
            if c["rank"] is not None:
                f.append("explicit-suite-rank")
            if not c["tests"]:
                f.append("class-without-tests")
        return sorted(set(f))

    def shrink(self, case):
        cs = case["classes"]
        # drop a class / a test / a sub-class, then simplify one declaration
        for i in range(len(cs)):
            if len(cs) > 1:
                yield {"classes": cs[:i] + cs[i + 1:]}
        for path in _class_paths(cs):
            c = _get(cs, path)
            for i in range(len(c["tests"])):
                yield {"classes": _edit(cs, path, lambda c, i=i: dict(c, tests=c["tests"][:i] + c["tests"][i + 1:]))}
            for i in range(len(c["subs"])):
                yield {"classes": _edit(cs, path, lambda c, i=i: dict(c, subs=c["subs"][:i] + c["subs"][i + 1:]))}
            for i, t in enumerate(c["tests"]):
                for k, v in (("deps", []), ("tags", []), ("props", []), ("links", []), ("name", None), ("hidden", False)):
                    if t[k] != v:
                        yield {"classes": _edit(cs, path, lambda c, i=i, k=k, v=v: dict(c, tests=c["tests"][:i] + [dict(c["tests"][i], **{k: v})] + c["tests"][i + 1:]))}
                if t["param"] is not None and len(t["param"]["sets"]) > 1:
                    p = dict(t["param"], sets=t["param"]["sets"][:-1])
                    yield {"classes": _edit(cs, path, lambda c, i=i, p=p: dict(c, tests=c["tests"][:i] + [dict(c["tests"][i], param=p)] + c["tests"][i + 1:]))}


def _iter_classes(classes):
    for c in classes:
        yield c
        yield from _iter_classes(c["subs"])


def _class_paths(classes, prefix=()):
    for i, c in enumerate(classes):
        yield prefix + (i,)
        yield from _class_paths(c["subs"], prefix + (i,))


def _get(classes, path):
    c = classes[path[0]]
    for i in path[1:]:
        c = c["subs"][i]
    return c


def _edit(classes, path, f):
    i = path[0]
    if len(path) == 1:
        return classes[:i] + [f(classes[i])] + classes[i + 1:]
    c = classes[i]
    return classes[:i] + [dict(c, subs=_edit(c["subs"], path[1:], f))] + classes[i + 1:]


def _first_diff(a, b, where="tree"):
    if type(a) is not type(b):
        return "%s: real %r, model %r" % (where, a, b)
    if isinstance(a, dict):
        for k in sorted(set(a) | set(b)):
            if a.get(k) != b.get(k):
                return _first_diff(a.get(k), b.get(k), "%s.%s" % (where, k))
    if isinstance(a, list):
        if len(a) != len(b):
            return "%s: real has %d items, model %d (%r / %r)" % (where, len(a), len(b), [x.get("name") if isinstance(x, dict) else x for x in a][:8],
                                                                   [x.get("name") if isinstance(x, dict) else x for x in b][:8])
        for i, (x, y) in enumerate(zip(a, b)):
            if x != y:
                return _first_diff(x, y, "%s[%d]" % (where, i))
    return "%s: real %r, model %r" % (where, a, b)

"""
Stream family `decl`: the DECLARATION path — decorators (`suite/builder.py`), the class loader (`suite/loader.py`), the
discovery of injected fixtures and hooks on the suite object (`Suite._load_injected_fixtures`, `helpers/introspection`)
and the validation of the dependency graph (`resolve_tests_dependencies` through the real `PreparedProject.create`).

A case is a DESCRIPTION of suite classes: decorated test methods (`@lcc.test`, `@lcc.disabled`, `@lcc.tags`, `@lcc.prop`,
`@lcc.link`, `@lcc.hidden`, one or SEVERAL stacked `@lcc.depends_on` with paths and predicates, `@lcc.parametrized` in dict /
CSV forms with the default, a format-string or a callable naming scheme), nested / disabled / hidden classes, base and
mixin classes, `lcc.inject_fixture()` attributes declared in the class body, in a base class or in `__init__`, hooks
declared in the class or inherited, an optional test filter.  It is rendered to real Python source, `exec`-ed, loaded by
the real `load_suites_from_classes`, validated by the real `PreparedProject.create` (on the filtered suites when there is a
filter) and run by the real `run_suites` for nb_threads in {1, 2, 4} x force_disabled in {False, True}.

Observation: the loaded tree (names, descriptions, disabled value, tags, properties, links, rank order, DEPENDENCIES as the
loader stored them, parameters, fixture arguments, injected attributes, hooks), or the exception the loader raised; the
verdict of the validation (accepted + resolved dependencies | the ValidationError); per run: the report's tests with their
statuses and every executed body with the arguments it received and its start / end position in one global sequence.

Oracles (on the description + observation only, never the model):
  C01 — every test a declaration stands for (one per parameter set) is in the report exactly once with one terminal status;
        a test declared disabled (or inside a disabled class) is reported disabled and not executed unless force_disabled;
        no body runs twice; a body receives exactly its own parameter set.
  C04 — every dependency written in ANY `@lcc.depends_on` decorator of a declaration is a dependency of every test the
        declaration stands for; a project whose dependencies are cyclic / unknown / not going to be run is rejected, before
        anything executes; in every run a test starts only after every test it depends on has finished, is executed only if
        all of them passed or are disabled, and is reported skipped otherwise.
Model side: `drivers/Expand.lean` (`Model/Expand.lean`, `Model/SuiteObject.lean`, `Model/Deps.lean`).

The description language, the renderer and the model request are shared with `props/_declrun.py`, which declares whole
run-level projects (harness/run/gen.py) this way and runs them under the recorder.
"""
import json
import random
import shutil
import tempfile
import threading
import time

import common as C

import lemoncheesecake.api as lcc
import lemoncheesecake.project as LP
import lemoncheesecake.suite.builder as LB
from lemoncheesecake.events import AsyncEventManager
from lemoncheesecake.filter import TestFilter
from lemoncheesecake.reporting.backend import ReportingBackend, ReportingSession, ReportingSessionBuilderMixin
from lemoncheesecake.runner import run_suites
from lemoncheesecake.session import Session
from lemoncheesecake.suite import load_suites_from_classes
from lemoncheesecake.testtree import filter_suites, flatten_tests

STATUSES = ("passed", "failed", "skipped", "disabled")
THREADS = (1, 2, 4)
HOOKS = ("setup_suite", "teardown_suite", "setup_test", "teardown_test")
HOOK_ARGS = {"teardown_suite": [], "setup_test": ["test"], "teardown_test": ["test", "status"]}
WORDS = ["zeta", "alpha", "mid", "beta", "omega", "kilo", "delta", "yak", "echo", "nu"]
VALUES = [1, 2, 3, 7, 10, -4, 0, 42, "x", "y", "eu", "us", "gbp", "A1"]
TAGS = ["slow", "net", "db", "ui"]
DECL_TRUSTED = [
    "decl streams: harness/props/_decl.py renders generated class descriptions (decorators incl. stacked depends_on with paths and predicates, "
    "base / mixin classes, inject_fixture attributes, hooks) to Python source, loads them with the real load_suites_from_classes, validates them "
    "with the real PreparedProject.create and runs them with the real run_suites; hand-written models Model/Expand.lean (decorators as state "
    "transformers + loader.py expansion + bridge to the run-level project syntax), Model/SuiteObject.lean (attribute lookup on the suite object) and "
    "Model/Deps.lean (dependency validation) evaluated by drivers/Expand.lean; the callable naming schemes and the dependency predicates are "
    "small families written once in Python and once in Lean (drivers/Expand.lean customNaming / predHolds); Python's name mangling and MRO "
    "linearisation of the generated (tree-shaped) class hierarchies are computed by the harness and cross-checked against vars() / __mro__ of "
    "the real classes by the table extractor of C03",
]
DECL_RULE = ("decl stream: generated suite classes (nesting <= 3, disabled / hidden classes, disabled(+reason) / hidden / tagged / linked tests, "
             "1..3 stacked depends_on decorators with paths and predicates (backward, forward, cross-suite), parametrized in dict / CSV forms with "
             "0..4 sets and default / format / callable naming, name clashes) x nb_threads {1,2,4} x force_disabled; non-trivial = loaded, >= 2 "
             "tests, >= 1 parametrized declaration, >= 1 body executed")
DEPS_RULE = ("decl.deps stream: the same classes with dense dependency graphs — DAGs with chains / diamonds / forward and cross-suite edges, "
             "cycles of length 1..4 entered from their own members or from outside tests declared earlier or later, unknown paths, an optional "
             "test filter leaving dependencies out of the run; failing and slow bodies; non-trivial = loaded, >= 2 tests, >= 1 dependency")

CUSTOM_NAMING = {
    "idx_rev": 'lambda name, description, parameters, nb: ("%s_r%d" % (name, 100 - nb), "%s (r%d)" % (description, 100 - nb))',
    "vals": 'lambda name, description, parameters, nb: (name + "".join("_%s" % v for v in parameters.values()), '
            'description + " with " + ", ".join("%s=%s" % kv for kv in parameters.items()))',
    "const": "lambda name, description, parameters, nb: (name, description)",
    # the test name IS the value of the first parameter (used by _declrun.py to give every variant a chosen name)
    "first": 'lambda name, description, parameters, nb: (str(list(parameters.values())[0]), "test %s" % (list(parameters.values())[0],))',
}


# ------------------------------------------------------------------------------------------------
# dependencies of a declaration: groups (= stacked decorators, in APPLICATION order) of paths and predicates
# ------------------------------------------------------------------------------------------------

def dep_groups(t):
    """the `@lcc.depends_on` decorators of a declaration in the order they are APPLIED (bottom-up); each is the list
    of its arguments: a dotted test path or {"pred": key}"""
    if "dep_groups" in t:
        return [g for g in t["dep_groups"]]
    return [list(t["deps"])] if t.get("deps") else []


def flat_deps(t):
    return [d for g in dep_groups(t) for d in g]


def dep_label(d):
    return d if isinstance(d, str) else "<%s>" % d["pred"]


def pred_src(key):
    """a dependency predicate as the user writes it: `lambda test: ...` (the key rides along as a default argument so
    that the observer can tell which predicate a loaded callable is)"""
    kind, _, val = key.partition("=")
    expr = {"path": "test.path == %r" % val, "name": "test.name == %r" % val, "tag": "%r in test.tags" % val}[kind]
    return "(lambda test, _k=%r: %s)" % (key, expr)


def pred_holds(key, path, name, tags):
    kind, _, val = key.partition("=")
    if kind == "path":
        return ".".join(path) == val
    if kind == "name":
        return name == val
    return val in tags


# ------------------------------------------------------------------------------------------------
# generation
# ------------------------------------------------------------------------------------------------

def _md(rng, p=0.3):
    tags = rng.sample(TAGS, rng.choice([1, 1, 2])) if rng.random() < p else []
    props = [[k, rng.choice(["high", "low", "p1"])] for k in rng.sample(["prio", "area", "owner"], rng.choice([1, 2]))] \
        if rng.random() < p else []
    links = [[u, rng.choice([None, "ticket", "spec"])] for u in rng.sample(["http://t/1", "http://t/2", "http://s/x"], rng.choice([1, 2]))] \
        if rng.random() < p else []
    return tags, props, links


def _disabled(rng, p):
    r = rng.random()
    if r >= p:
        return False
    return True if r < p * 0.55 else "because %s" % rng.choice(["sandbox is down", "flaky", "not ready"])


def _expected_names(decl):
    """names the expansions of a declaration are EXPECTED to get — only used to choose depends_on targets
    (a wrong guess surfaces as a ValidationError of the real resolver and is classified, never trusted)"""
    base = decl["name"] or decl["attr"]
    if decl["hidden"]:
        return []
    p = decl["param"]
    if p is None:
        return [base]
    out = []
    for i, vals in enumerate(p["sets"]):
        kw = dict(zip(p["names"], vals))
        n = p["naming"]
        if n["k"] == "default":
            out.append("%s_%d" % (base, i + 1))
        elif n["k"] == "format":
            try:
                out.append(_fmt(n["name"]).format(**kw))
            except KeyError:
                return []
        elif n["which"] == "idx_rev":
            out.append("%s_r%d" % (base, 100 - (i + 1)))
        else:
            return []
    return out


def _fmt(segs):
    return "".join(s["lit"] if "lit" in s else "{%s}" % s["field"] for s in segs)


def gen_case(rng, profile="default"):
    ctr = {"n": 0}

    def ident(prefix):
        ctr["n"] += 1
        return "%s%s_%d" % (prefix, rng.choice(WORDS), ctr["n"])

    def mk_param(attr, base):
        names = rng.sample(["a", "b", "cur"], rng.choice([1, 1, 2, 2, 3]))
        if rng.random() < 0.05:
            names = []
        nsets = rng.choice([0, 1, 2, 2, 3, 3, 4])
        sets = [[rng.choice(VALUES) for _ in names] for _ in range(nsets)]
        if names:
            firsts = rng.sample(VALUES, nsets)              # distinct first column: the sets differ unless one is repeated below
            for vals, v in zip(sets, firsts):
                vals[0] = v
        if len(sets) > 1 and rng.random() < 0.03:
            sets.append(list(sets[0]))                      # a repeated parameter set
        form = rng.choice(["dicts", "dicts", "csv-str", "csv-str-spaced", "csv-tuple", "csv-list"]) if names else "dicts"
        r = rng.random()
        if r < 0.55:
            naming = {"k": "default"}
        elif r < 0.85:
            keys = list(names)
            rng.shuffle(keys)
            nm = [{"lit": base + "_"}]
            for i, k in enumerate(keys):
                nm += ([{"lit": "_"}] if i else []) + [{"field": k}]
            ds = [{"lit": "Check " + base}] + [x for k in names for x in ({"lit": " %s=" % k}, {"field": k})]
            if rng.random() < 0.08 and len(keys) > 1:
                nm = nm[:2]                                   # the name only shows the first key: clashes when it repeats
            if rng.random() < 0.04:
                (nm if rng.random() < 0.5 else ds).append({"field": "nokey"})     # KeyError out of str.format
            naming = {"k": "format", "name": nm, "desc": ds, "as": rng.choice(["tuple", "list"])}
        else:
            naming = {"k": "custom", "which": rng.choice(["idx_rev", "idx_rev", "idx_rev", "vals", "vals", "vals", "vals", "const"])}
            if naming["which"] == "const" and rng.random() < 0.85:
                sets = sets[:1]                               # a constant naming scheme only works for a single set
        if not names and naming["k"] != "default" and rng.random() < 0.8:
            sets = sets[:1]                                   # several empty parameter sets only differ by their index
        p = {"form": form, "names": names, "sets": sets, "naming": naming}
        if form == "csv-str-spaced":
            p["pads"] = header_pads(attr, names)
        return p

    def mk_test(path, visible):
        attr = ident("t_")
        tags, props, links = _md(rng)
        d = {"attr": attr, "name": ident("n_") if rng.random() < 0.15 else None,
             "desc": "Desc of %s" % attr if rng.random() < 0.7 else None,
             "disabled": _disabled(rng, 0.30 if profile == "default" else 0.12), "empty_reason": False, "tags": tags, "props": props, "links": links,
             "hidden": rng.random() < 0.05, "dep_groups": [], "param": None, "order": rng.randrange(1 << 16),
             "split_tags": len(tags) > 1 and rng.random() < 0.5, "behav": "pass"}
        r = rng.random()
        if r < (0.06 if profile == "default" else 0.18):
            d["behav"] = "fail"
        elif r < (0.12 if profile == "default" else 0.30):
            d["behav"] = "slow"
        if d["disabled"] is True and rng.random() < 0.15:
            d["empty_reason"] = True                         # @lcc.disabled(""): an empty reason is no reason
        if rng.random() < (0.55 if profile == "default" else 0.35):
            d["param"] = mk_param(attr, d["name"] or attr)
            if profile != "default" and len(d["param"]["sets"]) > 2:
                d["param"]["sets"] = d["param"]["sets"][:2]
        return d

    def mk_cls(path, depth, visible):
        attr = ident("S_")
        name = ident("sn_") if rng.random() < 0.15 else None
        tags, props, links = _md(rng, 0.15)
        hidden = depth > 1 and rng.random() < 0.06
        me = path + [name or attr]
        c = {"attr": attr, "name": name, "desc": "Suite %s" % attr if rng.random() < 0.5 else None,
             "disabled": _disabled(rng, 0.15 if profile == "default" else 0.06), "tags": tags, "props": props, "links": links, "hidden": hidden,
             "rank": None, "subs_first": rng.random() < 0.3, "order": rng.randrange(1 << 16), "tests": [], "subs": [],
             "split_tags": len(tags) > 1 and rng.random() < 0.5}
        nt = rng.choice([0, 1, 1, 2, 2, 3, 4]) if depth > 1 else rng.choice([1, 2, 2, 3, 4])
        nsub = 0 if depth >= 3 else rng.choice([0, 0, 0, 1, 1, 2])
        if c["subs_first"]:
            c["subs"] = [mk_cls(me, depth + 1, visible and not hidden) for _ in range(nsub)]
            c["tests"] = [mk_test(me, visible and not hidden) for _ in range(nt)]
        else:
            c["tests"] = [mk_test(me, visible and not hidden) for _ in range(nt)]
            c["subs"] = [mk_cls(me, depth + 1, visible and not hidden) for _ in range(nsub)]
        if c["subs"] and rng.random() < 0.12:
            for s in c["subs"]:
                s["rank"] = rng.choice([1, 2, 2, 3])          # explicit @lcc.suite(rank=…), ties allowed
        # rare deliberate clashes inside one class
        if len(c["tests"]) >= 2 and rng.random() < 0.03:
            a, b = rng.sample(c["tests"], 2)
            if rng.random() < 0.5:
                b["desc"] = a["desc"] = "Same description"
            else:
                b["name"] = (a["name"] or a["attr"]) + "_1"    # the name the first default expansion of `a` gets
        return c

    classes = [mk_cls([], 1, True) for _ in range(rng.choice([1, 1, 2, 2, 3]))]
    case = {"classes": classes}
    if profile == "deps" and rng.random() < 0.3:
        make_twins(rng, case)
    assign_deps(rng, case, profile)
    return case


def make_twins(rng, case):
    """tests with the SAME NAME in different suites (paths differ, names do not): 2..3 plain declarations of different
    classes get one name; `assign_deps` then makes some test depend on all of them"""
    cands = []

    def walk(cs, visible):
        for c in cs:
            vis = visible and not c["hidden"]
            if vis:
                plain = [d for d in c["tests"] if d["param"] is None and not d["hidden"]]
                if plain:
                    cands.append(rng.choice(plain))
            walk(c["subs"], vis)
    walk(case["classes"], True)
    if len(cands) < 2:
        return
    twins = rng.sample(cands, min(len(cands), rng.choice([2, 2, 3])))
    name = "twin_%s" % rng.choice(WORDS)
    for d in twins:
        d["name"] = name
        d["desc"] = d["desc"] or "Desc of %s" % d["attr"]
    if rng.random() < 0.6:
        rng.choice(twins[1:])["behav"] = rng.choice(["fail", "slow"])     # not the first of that name
    case["twins"] = name


def expected_targets(classes):
    """[(declaration, [dotted paths its expansions are expected to get])] for the declarations in visible places, tree order"""
    out = []

    def walk(cs, path, visible):
        for c in cs:
            me = path + [c["name"] or c["attr"]]
            vis = visible and not c["hidden"]
            for d in c["tests"]:
                names = [n for n in _expected_names(d) if "." not in n] if vis else []
                out.append((d, [".".join(me + [n]) for n in names]))
            walk(c["subs"], me, vis)
    walk(classes, [], True)
    return out


def assign_deps(rng, case, profile):
    """second pass: the dependency graph over the declared tests.
       default : sparse DAG, mostly towards tests declared earlier (sometimes any direction)
       deps    : dense DAG (chains, diamonds, forward and cross-suite edges) | + a cycle of length 1..4, entered from
                 outside or not | + an unknown path | + a filter that leaves some tests out of the run
       every declaration's dependencies are spread over 1..3 stacked decorators; some are written as predicates"""
    decls = expected_targets(case["classes"])
    live = [(d, ps) for d, ps in decls if ps]
    tag_of = {}
    for d, ps in decls:
        for t in d["tags"]:
            tag_of.setdefault(t, []).append(d)
    case["mode"] = "dag"
    if not live:
        return
    dense = profile == "deps"
    order = list(range(len(live)))
    if dense or rng.random() < 0.3:
        rng.shuffle(order)                                    # edges towards "earlier in a random permutation": forward references
    pos = {id(live[k][0]): i for i, k in enumerate(order)}
    p_dep = rng.choice([0.35, 0.5, 0.7]) if dense else 0.2

    def item(target_path, src):
        """a path, or a predicate that selects exactly the same test(s)"""
        r = rng.random()
        if r < (0.25 if dense else 0.15):
            return {"pred": "path=" + target_path}
        if r < (0.32 if dense else 0.2):
            return {"pred": "name=" + target_path.rsplit(".", 1)[1]}
        return target_path

    for k in order:
        d, ps = live[k]
        if rng.random() >= p_dep:
            continue
        earlier = [(e, eps) for e, eps in live if pos[id(e)] < pos[id(d)]]
        if not earlier:
            continue
        picked = []
        for e, eps in rng.sample(earlier, min(len(earlier), rng.choice([1, 1, 2, 3] if dense else [1, 1, 2]))):
            picked.append(item(rng.choice(eps), d))
        # a tag predicate, when every test carrying the tag is earlier (keeps the graph acyclic)
        if rng.random() < 0.12:
            for tag, ds in tag_of.items():
                if ds and all(id(x) in pos and pos[id(x)] < pos[id(d)] for x in ds) and all(x is not d for x in ds):
                    picked.append({"pred": "tag=" + tag})
                    break
        d["dep_groups"] = split_groups(rng, picked)
    if not dense:
        return
    if case.get("twins"):
        # a test depending on ALL the same-named tests: one path per twin (spread over decorators) or one name predicate
        tw = [(d, ps) for d, ps in live if d["name"] == case["twins"]]
        later = [(d, ps) for d, ps in live if all(pos[id(d)] > pos[id(x)] for x, _ in tw) and all(d is not x for x, _ in tw)]
        if len(tw) >= 2 and later:
            e, _ = rng.choice(later)
            if rng.random() < 0.4:
                add_dep(rng, e, {"pred": "name=" + case["twins"]})
            else:
                for x, ps in tw:
                    add_dep(rng, e, ps[0])
    r = rng.random()
    if r < 0.38:
        case["mode"] = "cycle"
        length = min(len(live), rng.choice([1, 1, 2, 2, 3, 4]))
        members = rng.sample(live, length)
        for i, (d, ps) in enumerate(members):
            nd, nps = members[(i + 1) % length]
            add_dep(rng, d, item(rng.choice(nps), d))
        outside = [x for x in live if all(x[0] is not m[0] for m in members)]
        if outside and rng.random() < 0.75:
            case["mode"] = "cycle+entry"
            e, _ = rng.choice(outside)
            target = rng.choice(members)
            if len(outside) > 1 and rng.random() < 0.4:
                mid, mps = rng.choice([x for x in outside if x[0] is not e])      # e -> mid -> cycle
                add_dep(rng, mid, item(rng.choice(target[1]), mid))
                add_dep(rng, e, item(rng.choice(mps), e))
            else:
                add_dep(rng, e, item(rng.choice(target[1]), e))
    elif r < 0.48:
        case["mode"] = "unknown"
        d, ps = rng.choice(live)
        bogus = rng.choice(["nosuch.test", ps[0] + "_x", ps[0].rsplit(".", 1)[0], "t_missing"])
        add_dep(rng, d, bogus)
    if rng.random() < 0.3:
        allp = [p for _, ps in live for p in ps]
        keep = [p for p in allp if rng.random() < 0.7] or [rng.choice(allp)]
        case["filter"] = {"paths": keep}


def split_groups(rng, items):
    if not items:
        return []
    k = rng.choice([1, 1, 2, 2, 3])
    k = min(k, len(items))
    cuts = sorted(rng.sample(range(1, len(items)), k - 1)) if k > 1 else []
    groups, prev = [], 0
    for c in cuts + [len(items)]:
        groups.append(items[prev:c])
        prev = c
    return groups


def add_dep(rng, d, it):
    """one more dependency: into an existing decorator or as a new decorator (inner or outer)"""
    groups = d["dep_groups"]
    r = rng.random()
    if groups and r < 0.4:
        g = rng.choice(groups)
        g.insert(rng.randint(0, len(g)), it)
    elif r < 0.7:
        groups.insert(0, [it])          # applied first: the INNERMOST decorator
    else:
        groups.append([it])             # the outermost decorator


def iter_decls(classes, path=(), inh_disabled=False, visible=True):
    """yields (decl, class path (attr chain), effectively disabled by declaration, visible)"""
    for c in classes:
        p = path + (c["attr"],)
        dis = inh_disabled or bool(c["disabled"])
        vis = visible and not c["hidden"]
        for d in c["tests"]:
            yield d, p, dis or bool(d["disabled"]), vis and not d["hidden"]
        yield from iter_decls(c["subs"], p, dis, vis)


# ------------------------------------------------------------------------------------------------
# decorators: one structured list per declaration, in TEXTUAL order (top to bottom); the source and the model
# request (application order = bottom-up) are both derived from it
# ------------------------------------------------------------------------------------------------

def _py(v):
    return repr(v)


# white space a user (or an editor aligning columns) writes around the fields of a CSV-like string header
_PADS = ["", "", " ", " ", "  ", "      ", "\t", " \t", "\n", "\x0c", "\xa0", "\u3000"]


def header_pads(attr, names):
    """[before, after] white space per field of a `csv-str-spaced` header.  Drawn from a generator of its own (seeded by the
    declaration) so that widening the header spellings leaves every other random choice of the plans as it was.  A third keep
    the former spelling 'a , b'."""
    r = random.Random("header/%s/%s" % (attr, ",".join(names)))
    if r.random() < 0.34:
        return None
    return [[r.choice(_PADS), r.choice(_PADS)] for _ in names]


def csv_header(p):
    """the header STRING of the csv-str forms: the declared names as written ('a,b' / 'a , b' / padded per field)"""
    names = p["names"]
    if p["form"] == "csv-str":
        return ",".join(names)
    pads = p.get("pads")
    if not pads:
        return " , ".join(names)
    return ",".join(pads[i % len(pads)][0] + n + pads[i % len(pads)][1] for i, n in enumerate(names))


def _render_param(p):
    names, sets, form = p["names"], p["sets"], p["form"]
    if form == "dicts":
        src = "[%s]" % ", ".join("{%s}" % ", ".join("%r: %s" % (k, _py(v)) for k, v in zip(names, vals)) for vals in sets)
    else:
        if form in ("csv-str", "csv-str-spaced"):
            head = _py(csv_header(p))
        elif form == "csv-tuple":
            head = "(%s,)" % ", ".join(_py(n) for n in names)
        else:
            head = "[%s]" % ", ".join(_py(n) for n in names)
        rows = ["(%s,)" % ", ".join(_py(v) for v in vals) for vals in sets]
        src = "[%s]" % ", ".join([head] + rows)
    n = p["naming"]
    if n["k"] == "default":
        return "@lcc.parametrized(%s)" % src
    if n["k"] == "format":
        pair = "%s, %s" % (_py(_fmt(n["name"])), _py(_fmt(n["desc"])))
        return "@lcc.parametrized(%s, %s)" % (src, "(%s)" % pair if n.get("as") != "list" else "[%s]" % pair)
    return "@lcc.parametrized(%s, naming_scheme=%s)" % (src, CUSTOM_NAMING[n["which"]])


def _dep_src(d):
    return _py(d) if isinstance(d, str) else pred_src(d["pred"])


def _dep_json(d):
    return {"path": d.split(".")} if isinstance(d, str) else {"pred": d["pred"]}


def decorators(x, is_test):
    """[{"k": kind, ..., "src": "@lcc.…"}] top to bottom.  Decorators that ACCUMULATE (`tags`, `depends_on`, `link`, `prop`)
    may occur several times; their relative position is chosen so that — applied bottom-up — the metadata get the
    described order (dep_groups[0] is the bottom-most `depends_on`, the first link the bottom-most `link`, …)."""
    order = x["order"]
    decs = []
    if x["disabled"]:
        if x["disabled"] is True:
            reason = "" if x.get("empty_reason") else None
            decs.append({"k": "disabled", "reason": reason, "src": '@lcc.disabled("")' if reason == "" else "@lcc.disabled()"})
        else:
            decs.append({"k": "disabled", "reason": x["disabled"], "src": "@lcc.disabled(%s)" % _py(x["disabled"])})
    tag_groups = [[t] for t in x["tags"]] if x.get("split_tags") else ([list(x["tags"])] if x["tags"] else [])
    for _ in tag_groups:
        decs.append({"k": "tags"})
    if x["hidden"]:
        decs.append({"k": "hidden", "src": "@lcc.hidden()"})
    groups = dep_groups(x) if is_test else []
    for _ in groups:
        decs.append({"k": "depends_on"})
    if is_test and x["param"] is not None:
        p = x["param"]
        # the model receives the source as WRITTEN for the CSV-like forms (header text / header sequence + rows:
        # `Model/ParamSource.lean` finds the names), the dicts otherwise
        src = {"sets": [[[k, v] for k, v in zip(p["names"], vals)] for vals in p["sets"]]}
        if p["form"] in ("csv-str", "csv-str-spaced"):
            src = {"header": csv_header(p), "rows": [list(vals) for vals in p["sets"]]}
        elif p["form"] in ("csv-tuple", "csv-list"):
            src = {"names": list(p["names"]), "rows": [list(vals) for vals in p["sets"]]}
        decs.append({"k": "parametrized", "src": _render_param(p), **src,
                     "naming": {"k": p["naming"]["k"], "name": p["naming"].get("name"), "desc": p["naming"].get("desc"),
                                "which": p["naming"].get("which")}})
    random.Random(order).shuffle(decs)
    # the accumulating decorators: bottom-most slot = first group
    slots = [d for d in decs if d["k"] == "tags"]
    for d, g in zip(reversed(slots), tag_groups):
        d.update(tags=list(g), src="@lcc.tags(%s)" % ", ".join(_py(t) for t in g))
    slots = [d for d in decs if d["k"] == "depends_on"]
    for d, g in zip(reversed(slots), groups):
        d.update(args=[_dep_json(a) for a in g], src="@lcc.depends_on(%s)" % ", ".join(_dep_src(a) for a in g))
    links = [{"k": "link", "url": u, "name": n, "src": "@lcc.link(%s)" % (_py(u) if n is None else "%s, %s" % (_py(u), _py(n)))}
             for u, n in reversed(x["links"])]
    props = [{"k": "prop", "key": k, "value": v, "src": "@lcc.prop(%s, %s)" % (_py(k), _py(v))} for k, v in reversed(x["props"])]
    r = random.Random(order + 1)
    k = r.randint(0, len(decs))
    decs = decs[:k] + links + decs[k:]
    k = r.choice([i for i in range(len(decs) + 1) if not (0 < i < len(decs) and decs[i - 1]["k"] == "link" and decs[i]["k"] == "link")])
    decs = decs[:k] + props + decs[k:]
    # the marking decorator itself
    args = []
    if x["desc"] is not None:
        args.append(_py(x["desc"]))
    if x["name"] is not None:
        args.append("name=%s" % _py(x["name"]))
    if is_test:
        k = (order >> 3) % (len(decs) + 1)
        mark = {"k": "test", "desc": x["desc"], "name": x["name"], "src": "@lcc.test(%s)" % ", ".join(args)}
    else:
        if x["rank"] is not None:
            args.append("rank=%d" % x["rank"])
        k = len(decs) // 2
        mark = {"k": "suite", "desc": x["desc"], "name": x["name"], "rank": x["rank"], "src": "@lcc.suite(%s)" % ", ".join(args)}
    return decs[:k] + [mark] + decs[k:]


# ------------------------------------------------------------------------------------------------
# classes: bases, attributes, hooks
# ------------------------------------------------------------------------------------------------

def stored_key(cls_name, attr):
    """the key an attribute written `attr` inside `class cls_name:` is stored under (private name mangling)"""
    if attr.startswith("__") and not attr.endswith("__"):
        return "_" + cls_name.lstrip("_") + attr
    return attr


def base_index(case):
    return {b["name"]: b for b in case.get("bases", [])}


def mro(cls, bases_by_name):
    """linearisation of the generated hierarchies (no diamond is generated: depth-first, left to right)"""
    out = [cls]
    for bn in cls.get("bases", []):
        for x in mro(bases_by_name[bn], bases_by_name):
            if all(x is not y for y in out):
                out.append(x)
    return out


def cls_name(c):
    return c.get("attr") or c["name"]


def layers_of(cls, bases_by_name):
    """the attribute layers `getattr` consults on an instance: the instance dict (what the `__init__`s assigned, base
    classes first), then the class dicts in MRO order.  [[ [stored key, kind] ]], kind = {"k": "inject", "name": n|None} |
    {"k": "method", "params": [...]} | {"k": "other"}"""
    chain = mro(cls, bases_by_name)
    inst = {}
    for k in reversed(chain):                  # every generated __init__ calls super().__init__() first
        for it in k.get("inject", []):
            if it["where"] == "init":
                inst[stored_key(cls_name(k), it["attr"])] = {"k": "inject", "name": it["fixture"]}
        for it in k.get("plain", []):
            if it["where"] == "init":
                inst[stored_key(cls_name(k), it["attr"])] = {"k": "other"}
    out = [[[a, v] for a, v in inst.items()]]
    for k in chain:
        layer = []
        for it in k.get("inject", []):
            if it["where"] == "body":
                layer.append([stored_key(cls_name(k), it["attr"]), {"k": "inject", "name": it["fixture"]}])
        for it in k.get("plain", []):
            if it["where"] == "body":
                layer.append([stored_key(cls_name(k), it["attr"]), {"k": "other"}])
        for h, spec in (k.get("hooks") or {}).items():
            layer.append([h, {"k": "method", "params": list(spec.get("params", HOOK_ARGS.get(h, [])))}])
        for t in k.get("tests", []):
            layer.append([t["attr"], {"k": "other"}])
        for s in k.get("subs", []):
            layer.append([s["attr"], {"k": "other"}])
        if any(it["where"] == "init" for it in k.get("inject", []) + k.get("plain", [])):
            layer.append(["__init__", {"k": "other"}])
        if "tests" in k:
            layer.append(["_lccmetadata", {"k": "other"}])      # what `@lcc.suite` leaves on the class
        out.append(layer)
    return out


def has_init(k):
    return any(it["where"] == "init" for it in k.get("inject", []) + k.get("plain", []))


def _class_body(k, pad, out, is_suite, render_test, render_cls):
    """attributes, __init__, hooks (then, for a suite class, its tests and nested classes)"""
    n0 = len(out)
    for it in k.get("inject", []):
        if it["where"] == "body":
            out.append(pad + "%s = lcc.inject_fixture(%s)" % (it["attr"], "" if it["fixture"] is None else _py(it["fixture"])))
    for it in k.get("plain", []):
        if it["where"] == "body":
            out.append(pad + "%s = None" % it["attr"])
    if has_init(k):
        out.append(pad + "def __init__(self):")
        out.append(pad + "    super().__init__()")
        for it in k.get("inject", []):
            if it["where"] == "init":
                out.append(pad + "    self.%s = lcc.inject_fixture(%s)" % (it["attr"], "" if it["fixture"] is None else _py(it["fixture"])))
        for it in k.get("plain", []):
            if it["where"] == "init":
                out.append(pad + "    self.%s = 0" % it["attr"])
        out.append("")
    for h, spec in (k.get("hooks") or {}).items():
        params = list(spec.get("params", HOOK_ARGS.get(h, [])))
        out.append(pad + "def %s(%s):" % (h, ", ".join(["self"] + params)))
        out.append(pad + "    _hook(self, %r, {%s})" % (h, ", ".join("%r: %s" % (p, p) for p in params)))
        out.append("")
    if is_suite:
        tests = [("t", t) for t in k["tests"]]
        subs = [("s", s) for s in k["subs"]]
        for kind, x in (subs + tests if k["subs_first"] else tests + subs):
            if kind == "s":
                render_cls(x)
            else:
                render_test(x)
            out.append("")
    if len(out) == n0:
        out.append(pad + "pass")


def render(classes, bases=()):
    out = ["import lemoncheesecake.api as lcc", ""]

    def base(b):
        out.append("class %s%s:" % (b["name"], "(%s)" % ", ".join(b["bases"]) if b.get("bases") else ""))
        _class_body(b, "    ", out, False, None, None)
        out.append("")

    def cls(c, ind):
        pad = "    " * ind
        for d in decorators(c, False):
            out.append(pad + d["src"])
        out.append(pad + "class %s%s:" % (c["attr"], "(%s)" % ", ".join(c["bases"]) if c.get("bases") else ""))
        _class_body(c, pad + "    ", out, True, lambda t: test(t, ind + 1), lambda s: cls(s, ind + 1))

    def test(t, ind):
        pad = "    " * ind
        for d in decorators(t, True):
            out.append(pad + d["src"])
        names = t["param"]["names"] if t["param"] is not None else []
        args = list(t.get("args", []))
        out.append(pad + "def %s(%s):" % (t["attr"], ", ".join(["self"] + names + args)))
        out.append(pad + "    _body(self, %r, {%s}, {%s})" % (
            t["attr"], ", ".join("%r: %s" % (n, n) for n in names), ", ".join("%r: %s" % (n, n) for n in args)))

    for b in bases:
        base(b)
    for c in classes:
        cls(c, 0)
        out.append("")
    return "\n".join(out)


# ------------------------------------------------------------------------------------------------
# the real loader, validation and runner
# ------------------------------------------------------------------------------------------------

class _Backend(ReportingBackend, ReportingSessionBuilderMixin):
    def get_name(self):
        return "lccverif-null"

    def create_reporting_session(self, report_dir, report, parallel, report_saving_strategy):
        return ReportingSession()


def _dis(v):
    return v if isinstance(v, str) else bool(v)


def canon_dep(d):
    if isinstance(d, str):
        return d.split(".")
    key = (getattr(d, "__defaults__", None) or (None,))[0]
    return ["<pred>", key] if isinstance(key, str) else ["<callable>"]


def canon_tree(suites):
    """the loaded tree as the model prints it; ranks become dense ranks among the siblings (only their ORDER is compared)"""
    def dense(nodes):
        order = sorted({n.rank for n in nodes})
        return {r: i + 1 for i, r in enumerate(order)}

    def test(t, dr):
        return {"name": t.name, "desc": t.description, "rank": dr[t.rank], "disabled": _dis(t.disabled),
                "tags": list(t.tags), "props": [[k, v] for k, v in t.properties.items()],
                "links": [[l[0], l[1]] for l in t.links],
                "deps": [canon_dep(d) for d in t.dependencies],
                "params": [[k, v] for k, v in t.parameters.items()], "fixtures": list(t.get_fixtures()),
                "decl": getattr(t.callback, "__name__", None)}

    def suite(s, dr):
        tests = s.get_tests()
        subs = s.get_suites()
        dt, ds = dense(tests), dense(subs)
        hooks = {}
        for h in HOOKS:
            if s.has_hook(h):
                hooks[h] = list(s.get_hook_params(h))
        return {"name": s.name, "desc": s.description, "rank": dr[s.rank], "disabled": _dis(s.disabled), "tags": list(s.tags),
                "props": [[k, v] for k, v in s.properties.items()], "links": [[l[0], l[1]] for l in s.links],
                "injected": [[f, a] for f, a in s._injected_fixtures.items()], "hooks": hooks,
                "tests": [test(t, dt) for t in tests], "suites": [suite(x, ds) for x in subs]}
    dr = dense(suites)
    return [suite(s, dr) for s in suites]


def real_ranks(suites):
    """{dotted path: the rank the loader stored} for every suite and test (a test whose dotted path is also the path of a
    suite — a test named like a sibling sub-suite — is stored under `path + TEST_KEY_SUFFIX`)"""
    out = {}
    tests = {}

    def walk(s):
        out[s.path] = s.rank
        for t in s.get_tests():
            tests[t.path] = t.rank
        for x in s.get_suites():
            walk(x)
    for s in suites:
        walk(s)
    for k, r in tests.items():
        out[k + TEST_KEY_SUFFIX if k in out else k] = r
    return out


TEST_KEY_SUFFIX = "\x00test"


def model_tree(tree):
    """the model's tree with dense sibling ranks.  A test's rank is the key [rank, sub] of `Model/Expand.lean` (the loaded rank
    `md.rank + idx / (idx + 1)` of a parametrized variant, fix N5, as a pair ordered lexicographically): ranks are compared by
    their ORDER among the siblings, on both sides"""
    def key(r):
        return tuple(r) if isinstance(r, list) else r

    def dense(nodes):
        order = sorted({key(n["rank"]) for n in nodes})
        return {r: i + 1 for i, r in enumerate(order)}

    def suite(s, dr):
        dt, ds = dense(s["tests"]), dense(s["suites"])
        return dict(s, rank=dr[key(s["rank"])], tests=[dict(t, rank=dt[key(t["rank"])]) for t in s["tests"]],
                    suites=[suite(x, ds) for x in s["suites"]])
    dr = dense(tree)
    return [suite(s, dr) for s in tree]


def strip_decl(tree):
    def suite(s):
        return dict(s, tests=[{k: v for k, v in t.items() if k != "decl"} for t in s["tests"]], suites=[suite(x) for x in s["suites"]])
    return [suite(s) for s in tree]


def flat_tests(tree, prefix=(), inh=False):
    """[(path, test dict, disabled by the loaded tree)]"""
    for s in tree:
        p = prefix + (s["name"],)
        d = inh or bool(s["disabled"])
        for t in s["tests"]:
            yield list(p + (t["name"],)), t, d or bool(t["disabled"])
        yield from flat_tests(s["suites"], p, d)


def _report_tests(report):
    out = []

    def walk(s, prefix):
        p = prefix + [s.name]
        for t in s.get_tests():
            out.append([p + [t.name], t.status, t.status_details])
        for x in s.get_suites():
            walk(x, p)
    for s in report.get_suites():
        walk(s, [])
    return out


def _report_suites(report):
    out = []

    def walk(s, prefix):
        p = prefix + [s.name]
        out.append([p, s.start_time is not None, s.end_time is not None])
        for x in s.get_suites():
            walk(x, p)
    for s in report.get_suites():
        walk(s, [])
    return out


def exec_source(src, ns):
    """exec the rendered module; builder.get_metadata keeps every decorated object in a module-global list and scans it
    linearly: the list is truncated back afterwards (housekeeping, no behaviour of the loader depends on it once the
    decorators have run)"""
    keep = len(LB._objects_with_metadata)
    try:
        exec(compile(src, "<lccverif-decl>", "exec"), ns)
    finally:
        del LB._objects_with_metadata[keep:]


def make_project(tmp, load_suites, load_fixtures=lambda: []):
    class DeclaredProject(LP.Project):
        def __init__(self):
            LP.Project.__init__(self, tmp)

        def load_suites(self):
            return load_suites()

        def load_fixtures(self):
            return load_fixtures()
    return DeclaredProject()


def prepare(project, flt):
    """what `lcc run` does before anything executes: load, filter, PreparedProject.create.
    -> (prepared | None, {"empty"|"filter_empty"|"resolve_error"|"resolved": ...})"""
    sched = None
    if flt is not None:
        suites = project.load_suites()
        if all(s.is_empty() for s in suites):
            return None, {"empty": True}
        sched = filter_suites(suites, TestFilter(paths=list(flt["paths"])))
        if not sched:
            return None, {"filter_empty": True}
    try:
        prepared = LP.PreparedProject.create(project, sched)       # loads the suites (again)
    except Exception as e:
        return None, {"resolve_error": [type(e).__name__, str(e)[:300]]}
    if all(s.is_empty() for s in prepared.suites):
        return None, {"empty": True}
    resolved = [[t.path.split("."), [d.path.split(".") for d in t.resolved_dependencies]] for t in flatten_tests(prepared.suites)]
    return prepared, {"resolved": resolved}


def run_case(case, watchdog=30.0):
    src = render(case["classes"], case.get("bases", []))
    events = []
    lock = threading.Lock()
    behav = {d["attr"]: d.get("behav", "pass") for d, _, _, _ in iter_decls(case["classes"])}

    def _body(obj, decl, params, kwargs):
        with lock:
            k = len(events)
            events.append(["start", decl, sorted([a, v] for a, v in params.items()), threading.get_ident()])
        b = behav.get(decl, "pass")
        if b == "slow":
            time.sleep(0.004)
        elif b == "fail":
            lcc.log_error("declared to fail")
        with lock:
            events.append(["end", k])

    def _hook(obj, hook, kwargs):
        with lock:
            events.append(["hook", type(obj).__name__, hook])

    obs = {"source": src, "runs": []}
    ns = {"_body": _body, "_hook": _hook}
    try:
        exec_source(src, ns)
    except Exception as e:        # decorator-time rejection (assertion of a decorator)
        obs["load"] = {"error": [type(e).__name__, str(e)[:300]], "at": "import"}
        return obs
    tops = [ns[c["attr"]] for c in case["classes"]]
    tmp0 = tempfile.mkdtemp(prefix="lccverif-decl-")
    try:
        project = make_project(tmp0, lambda: load_suites_from_classes(tops))
        try:
            suites = project.load_suites()
        except Exception as e:
            obs["load"] = {"error": [type(e).__name__, str(e)[:300]], "at": "load"}
            return obs
        obs["load"] = {"tree": canon_tree(suites)}
        prepared, verdict = prepare(project, case.get("filter"))
        obs.update(verdict)
        obs["executed_during_validation"] = len(events)
        if prepared is None:
            return obs
        for n in THREADS:
            for force in (False, True):
                del events[:]
                run = {"n": n, "force": force}
                tmp = tempfile.mkdtemp(prefix="lccverif-decl-")
                old = Session._instance
                side = {}

                def body():
                    try:
                        prep, v = prepare(project, case.get("filter"))
                        session = Session.create(AsyncEventManager.load(), [_Backend()], tmp, None, nb_threads=n)
                        side["session"] = session
                        side["returned"] = bool(run_suites(prep.suites, prep.fixture_registry, session, force_disabled=force, nb_threads=n))
                    except BaseException as e:
                        side["raised"] = [type(e).__name__, str(e)[:300]]
                try:
                    th = threading.Thread(target=body, daemon=True, name="lccverif-decl")
                    th.start()
                    th.join(watchdog)
                    if th.is_alive():
                        run["outcome"] = {"hang": True}
                    elif "raised" in side:
                        run["outcome"] = {"raised": side["raised"][0], "text": side["raised"][1]}
                    else:
                        run["outcome"] = {"returned": side["returned"]}
                    session = side.get("session")
                    if session is not None and not th.is_alive():
                        run["tests"] = _report_tests(session.report)
                        run["suites"] = _report_suites(session.report)
                    with lock:
                        evs = list(events)
                    ends = {e[1]: i for i, e in enumerate(evs) if e[0] == "end"}
                    order = [[e[1], e[2], i, ends.get(i)] for i, e in enumerate(evs) if e[0] == "start"]
                    run["order"] = order                 # [declaration, parameters, start position, end position | None]
                    run["executed"] = sorted(([o[0], o[1]] for o in order), key=lambda x: json.dumps(x))
                finally:
                    Session._instance = old
                    shutil.rmtree(tmp, ignore_errors=True)
                obs["runs"].append(run)
        return obs
    finally:
        shutil.rmtree(tmp0, ignore_errors=True)


# ------------------------------------------------------------------------------------------------
# C01 on the observation
# ------------------------------------------------------------------------------------------------

def scheduled_paths(case, obs):
    """dotted paths of the loaded tests that are going to be run (all of them without a filter)"""
    paths = [".".join(p) for p, _, _ in flat_tests(obs["load"]["tree"])]
    if case.get("filter") is None:
        return paths
    keep = set(case["filter"]["paths"])
    return [p for p in paths if p in keep]


def oracle(case, obs):
    out = []
    load = obs.get("load", {})
    if "tree" not in load:
        return out
    tree = load["tree"]
    decls = {}
    for d, cpath, dis, vis in iter_decls(case["classes"]):
        decls[d["attr"]] = (d, dis, vis)
    loaded = list(flat_tests(tree))
    # one scheduled test per parameter set of every visible declaration (one when not parametrized)
    by_decl = {}
    for path, t, _ in loaded:
        by_decl.setdefault(t["decl"], []).append((path, t))
    for attr, (d, dis, vis) in decls.items():
        want = 0 if not vis else (1 if d["param"] is None else len(d["param"]["sets"]))
        got = by_decl.get(attr, [])
        if len(got) != want:
            out.append(C.Failure("C01/decl/expansion-count", "declaration %s stands for %d tests, the loaded tree has %d: %r" % (
                attr, want, len(got), [".".join(p) for p, _ in got])))
            continue
        if vis and d["param"] is not None:
            sets = [[[k, v] for k, v in zip(d["param"]["names"], vals)] for vals in d["param"]["sets"]]
            if [t["params"] for _, t in got] != sets:
                out.append(C.Failure("C01/decl/expansion-parameters", "declaration %s: parameter sets %r, loaded tests carry %r" % (
                    attr, sets, [t["params"] for _, t in got])))
    # (the expansion facts above are about the loaded tree alone: they are judged even when the project is then rejected —
    # a parameter under a wrong name makes the real argument an unknown fixture)
    if obs.get("empty") or "resolve_error" in obs or obs.get("filter_empty"):
        return out
    sched = set(scheduled_paths(case, obs))
    loaded = [x for x in loaded if ".".join(x[0]) in sched]
    paths = [".".join(p) for p, _, _ in loaded]
    for run in obs["runs"]:
        tag = "n=%d force=%s" % (run["n"], run["force"])
        if "returned" not in run["outcome"]:
            out.append(C.Failure("C01/decl/run-" + sorted(run["outcome"])[0], "%s: %r" % (tag, run["outcome"])))
            continue
        rep = {}
        for p, st, _ in run["tests"]:
            rep.setdefault(".".join(p), []).append(st)
        for p in paths:
            sts = rep.get(p, [])
            if len(sts) != 1:
                out.append(C.Failure("C01/decl/test-%s" % ("missing-from-report" if not sts else "reported-twice"), "%s: %s has %d results" % (tag, p, len(sts))))
            elif sts[0] not in STATUSES:
                out.append(C.Failure("C01/decl/test-without-terminal-status", "%s: %s has status %r" % (tag, p, sts[0])))
        for p in rep:
            if p not in paths:
                out.append(C.Failure("C01/decl/unscheduled-test-in-report", "%s: %s" % (tag, p)))
        for p, started, ended in run["suites"]:
            if not (started and ended):
                out.append(C.Failure("C01/decl/suite-not-closed", "%s: suite %s started=%s ended=%s" % (tag, ".".join(p), started, ended)))
        execs = [json.dumps(e) for e in run["executed"]]
        remaining = list(execs)
        for path, t, _ in loaded:
            d, declared_disabled, _ = decls[t["decl"]]
            key = json.dumps([t["decl"], sorted(t["params"])])
            n_exec = 0
            if key in remaining:
                remaining.remove(key)
                n_exec = 1
            st = (rep.get(".".join(path)) or [None])[0]
            p = ".".join(path)
            if declared_disabled and not run["force"]:
                if n_exec or st != "disabled":
                    out.append(C.Failure("C01/decl/disabled-test-executed" if n_exec else "C01/decl/disabled-test-not-reported-disabled",
                                         "%s: %s is declared disabled (%r) — status %r, body executed: %s" % (tag, p, d["disabled"], st, bool(n_exec))))
            elif st == "passed" and not n_exec:
                out.append(C.Failure("C01/decl/passed-without-its-own-parameters",
                                     "%s: %s passed but no body of %s ran with %r (executed: %r)" % (tag, p, t["decl"], t["params"], run["executed"])))
            elif st in ("skipped", "disabled") and n_exec:
                out.append(C.Failure("C01/decl/body-executed-but-" + st, "%s: %s" % (tag, p)))
        if remaining:
            out.append(C.Failure("C01/decl/body-executed-more-than-once-or-with-foreign-parameters",
                                 "%s: executions without a scheduled test of their own: %r" % (tag, remaining[:5])))
    return out


# ------------------------------------------------------------------------------------------------
# C04 on the observation
# ------------------------------------------------------------------------------------------------

def declared_graph(case, obs):
    """the dependency graph the DECLARATIONS denote, over the loaded tests:
       {test path: [("ok", dep path) | ("unknown", text)]}, from the description (every argument of every depends_on
       decorator of the declaring method) and the names / tags of the loaded tests; a predicate never selects its own test"""
    loaded = list(flat_tests(obs["load"]["tree"]))
    paths = [".".join(p) for p, _, _ in loaded]
    decls = {d["attr"]: d for d, _, _, _ in iter_decls(case["classes"])}
    g = {}
    for p, t, _ in loaded:
        me = ".".join(p)
        items = []
        for dep in flat_deps(decls[t["decl"]]):
            if isinstance(dep, str):
                items.append(("ok", dep) if dep in paths else ("unknown", dep))
            else:
                for q, u, _ in loaded:
                    if ".".join(q) != me and pred_holds(dep["pred"], q, u["name"], u["tags"]):
                        items.append(("ok", ".".join(q)))
        g[me] = items
    return g


def graph_defects(g, sched):
    """why a project with this graph must be rejected (empty = it is fine): over the tests going to be run"""
    sched = set(sched)
    out = []
    for t in g:
        if t not in sched:
            continue
        for kind, d in g[t]:
            if kind == "unknown":
                out.append(("unknown", t, d))
            elif d not in sched:
                out.append(("unscheduled", t, d))
    if out:
        return out
    # cycle among the scheduled tests (closed under dependencies here)
    state = {}

    def visit(t, stack):
        if state.get(t) == 2:
            return None
        if t in stack:
            return stack[stack.index(t):] + [t]
        for _, d in g[t]:
            c = visit(d, stack + [t])
            if c:
                return c
        state[t] = 2
        return None
    for t in g:
        if t in sched:
            c = visit(t, [])
            if c:
                return [("cycle", t, " -> ".join(c))]
    return []


def oracle_c04(case, obs):
    out = []
    load = obs.get("load", {})
    if "tree" not in load or obs.get("empty") or obs.get("filter_empty"):
        return out
    loaded = list(flat_tests(load["tree"]))
    decls = {d["attr"]: d for d, _, _, _ in iter_decls(case["classes"])}
    # 1. nothing a depends_on decorator says is lost on the way to the loaded test
    for p, t, _ in loaded:
        want = [d.split(".") if isinstance(d, str) else ["<pred>", d["pred"]] for d in flat_deps(decls[t["decl"]])]
        got = list(t["deps"])
        missing = [d for d in want if d not in got]
        if missing:
            out.append(C.Failure("C04/decl/declared-dependency-not-loaded", "%s is declared to depend on %r; the loaded test only depends on %r" % (
                ".".join(p), [".".join(d) for d in want], [".".join(d) for d in got])))
    # 2. early rejection
    g = declared_graph(case, obs)
    sched = scheduled_paths(case, obs)
    defects = graph_defects(g, sched)
    accepted = "resolve_error" not in obs
    if defects and accepted:
        kind, t, d = defects[0]
        sig = {"cycle": "C04/cycle-accepted", "unknown": "C04/unknown-dependency-accepted", "unscheduled": "C04/unscheduled-dependency-accepted"}[kind]
        out.append(C.Failure(sig, "the project was accepted by PreparedProject.create although %s: %s (%s)" % (
            {"cycle": "its dependencies are circular", "unknown": "a dependency names no test", "unscheduled": "a dependency is not going to be run"}[kind], d, t)))
    if not accepted:
        if obs.get("executed_during_validation"):
            out.append(C.Failure("C04/decl/user-code-ran-before-rejection", "%d bodies / hooks ran before the project was rejected" % obs["executed_during_validation"]))
        return out
    if defects:
        return out
    # 3. the resolved dependencies are exactly what the declarations denote
    res = {".".join(p): [".".join(d) for d in ds] for p, ds in obs.get("resolved", [])}
    for t in sched:
        want = [d for _, d in g[t]]
        if sorted(set(want)) != sorted(set(res.get(t, []))):
            out.append(C.Failure("C04/decl/resolved-dependencies-differ", "%s: declared %r, resolved %r" % (t, want, res.get(t))))
    # 4. ordering and skip propagation in every run
    by_path = {".".join(p): (t, dis) for p, t, dis in loaded}
    for run in obs["runs"]:
        tag = "n=%d force=%s" % (run["n"], run["force"])
        if "returned" not in run["outcome"] or "tests" not in run:
            continue
        status = {".".join(p): st for p, st, _ in run["tests"]}
        span = {}
        for decl, params, a, b in run["order"]:
            span.setdefault(json.dumps([decl, params]), []).append((a, b))

        def span_of(path):
            # a declaration with a REPEATED parameter set has two tests whose bodies cannot be told apart: no span for them
            t, _ = by_path[path]
            key = json.dumps([t["decl"], sorted(t["params"])])
            if sum(1 for _, (u, _) in by_path.items() if json.dumps([u["decl"], sorted(u["params"])]) == key) > 1:
                return None
            s = span.get(key)
            return s[0] if s else None
        def task_ok(x, seen):
            """did the TASK of test x succeed: passed, or disabled with every dependency's task successful"""
            if status.get(x) == "passed":
                return True
            if status.get(x) != "disabled" or x in seen:
                return False
            return all(task_ok(d, seen + (x,)) for _, d in g[x])
        for t in sched:
            mine = span_of(t)
            bad = [d for _, d in g[t] if status.get(d) not in ("passed", "disabled")]
            for _, d in g[t]:
                other = span_of(d)
                if mine is not None and other is not None and (other[1] is None or other[1] > mine[0]):
                    out.append(C.Failure("C04/decl/started-before-dependency-finished", "%s: %s started at %s, its dependency %s ran %s" % (tag, t, mine[0], d, other)))
            if bad and mine is not None:
                out.append(C.Failure("C04/decl/executed-despite-failed-dependency", "%s: %s was executed although %s is %s" % (tag, t, bad[0], status.get(bad[0]))))
            if bad and status.get(t) not in ("skipped", "disabled"):
                out.append(C.Failure("C04/decl/not-skipped-after-failed-dependency", "%s: %s is %s although %s is %s" % (tag, t, status.get(t), bad[0], status.get(bad[0]))))
            if not bad and status.get(t) == "skipped":
                # known open finding of C04: a DISABLED dependency whose own task was skipped (one of ITS dependencies,
                # at any distance through disabled tests, did not pass) is reported disabled but makes its dependents skip
                through_disabled = any(status.get(d) == "disabled" and not task_ok(d, ()) for _, d in g[t])
                out.append(C.Failure("C04/dependent-of-disabled-test-skipped" if through_disabled else "C04/decl/skipped-without-failed-dependency",
                                     "%s: %s is skipped, its dependencies are %r" % (tag, t, [(d, status.get(d)) for _, d in g[t]])))
    return out


# ------------------------------------------------------------------------------------------------
# model request
# ------------------------------------------------------------------------------------------------

def model_classes(classes, bases=()):
    """description → what drivers/Expand.lean parses.  Every declaration is (attr, rank, args, decorators in APPLICATION
    order); rank = position in the class body (the order in which the global counter is drawn), or the explicit rank= of a
    suite.  Every class carries the attribute layers of its instance (`layers_of`)."""
    byname = {b["name"]: b for b in bases}

    def decos(x, is_test):
        out = []
        for d in reversed(decorators(x, is_test)):
            out.append({k: v for k, v in d.items() if k != "src"})
        return out

    def decl(t, rank):
        names = t["param"]["names"] if t["param"] is not None else []
        return {"attr": t["attr"], "rank": rank, "args": list(names) + list(t.get("args", [])), "decos": decos(t, True)}

    def cls(c, rank):
        # members in textual order get increasing ranks; nested classes are decorated when the body runs, tests too
        order = ([("s", s) for s in c["subs"]] + [("t", t) for t in c["tests"]]) if c["subs_first"] else \
            ([("t", t) for t in c["tests"]] + [("s", s) for s in c["subs"]])
        tests, subs = [], []
        for i, (k, x) in enumerate(order):
            if k == "t":
                tests.append(decl(x, i + 1))
            else:
                subs.append(cls(x, x["rank"] if x["rank"] is not None else i + 1))
        return {"attr": c["attr"], "rank": rank, "decos": decos(c, False), "layers": layers_of(c, byname), "tests": tests, "subs": subs}
    return [cls(c, i + 1) for i, c in enumerate(classes)]


def _t(attr, **kw):
    d = {"attr": attr, "name": None, "desc": None, "disabled": False, "empty_reason": False, "tags": [], "props": [], "links": [],
         "hidden": False, "deps": [], "param": None, "order": 5}
    d.update(kw)
    return d


def _c(attr, tests, subs=(), **kw):
    c = {"attr": attr, "name": None, "desc": None, "disabled": False, "tags": [], "props": [], "links": [], "hidden": False,
         "rank": None, "subs_first": False, "order": 3, "tests": list(tests), "subs": list(subs)}
    c.update(kw)
    return c


# hand-written witnesses replayed first on every run: a disabled declaration that is also parametrized (every naming scheme,
# dict and CSV form), alone and inside a disabled class, next to plain disabled / enabled tests and a dependent test
CORPUS = [
    {"classes": [_c("payments", [
        _t("regular", desc="Regular test"),
        _t("plain_disabled", desc="Plain disabled test", disabled=True),
        _t("pay", desc="Pay with currency", disabled="sandbox of the payment provider is down", tags=["net"],
           param={"form": "dicts", "names": ["currency"], "sets": [["EUR"], ["USD"], ["GBP"]], "naming": {"k": "default"}}),
        _t("after", deps=["payments.regular"], param={"form": "csv-str", "names": ["a", "b"], "sets": [[1, "x"], [2, "y"]],
                                                        "naming": {"k": "custom", "which": "vals"}}),
    ])]},
    {"classes": [_c("outer", [
        _t("conv", disabled=True, order=11, links=[["http://t/1", "ticket"]], props=[["prio", "high"]],
           param={"form": "csv-tuple", "names": ["a", "b"], "sets": [[1, "x"], [-4, "y"]],
                  "naming": {"k": "format", "name": [{"lit": "conv_"}, {"field": "a"}, {"lit": "_"}, {"field": "b"}],
                             "desc": [{"lit": "Convert "}, {"field": "a"}, {"lit": " to "}, {"field": "b"}], "as": "tuple"}}),
        _t("plain"),
    ], subs=[_c("inner", [
        _t("deep", param={"form": "dicts", "names": ["n"], "sets": [[1], [2]], "naming": {"k": "custom", "which": "idx_rev"}}),
        _t("ghost", hidden=True, param={"form": "dicts", "names": ["n"], "sets": [[1]], "naming": {"k": "default"}}),
    ], disabled="whole class off")])]},
    # string headers of the CSV-like form as people write them (fourth seeded round): column-aligned, padded at both ends, tabs
    # — the tests receive the TRIMMED fields as parameter names (a body is called with its own parameter set)
    {"classes": [_c("net", [
        _t("connect", desc="Connect", param={"form": "csv-str-spaced", "names": ["host", "port"], "sets": [["localhost", 80], ["example", 443]],
                                             "pads": [["", "      "], [" ", ""]], "naming": {"k": "default"}}),
        _t("padded", param={"form": "csv-str-spaced", "names": ["value"], "sets": [["foo"]], "pads": [[" ", " "]],
                            "naming": {"k": "custom", "which": "vals"}}),
    ])]},
    {"classes": [_c("net", [
        _t("tabs", param={"form": "csv-str-spaced", "names": ["a", "b"], "sets": [[1, "x"], [2, "y"]], "pads": [["\t", "\t"], ["\t", "\n"]],
                          "naming": {"k": "format", "name": [{"lit": "tabs_"}, {"field": "a"}], "desc": [{"lit": "Tabs "}, {"field": "b"}],
                                     "as": "tuple"}}),
    ])]},
]

# C04: dependencies spread over stacked decorators (the failing / slow / later-declared dependency in an INNER one),
# and dependency cycles first entered from a test outside the cycle
CORPUS_DEPS = [
    # stacked decorators: `use` depends on quick (outer decorator) and on prepare_db (inner), which fails; `last` is
    # declared before the slow test it depends on through its inner decorator
    {"classes": [_c("s", [
        _t("prepare_db", behav="fail"),
        _t("quick"),
        _t("use", dep_groups=[["s.prepare_db"], ["s.quick"]]),
        _t("use_more", dep_groups=[["s.use"]]),
        _t("last", dep_groups=[["s.slow"], ["s.quick"]], order=1),
        _t("slow", behav="slow"),
    ])], "mode": "dag"},
    # three stacked decorators, a predicate in the middle one, a parametrized dependent
    {"classes": [_c("s", [
        _t("a", tags=["db"]), _t("b", behav="fail"), _t("c"),
        _t("d", dep_groups=[["s.c"], [{"pred": "name=b"}], ["s.a"]], order=7,
           param={"form": "dicts", "names": ["n"], "sets": [[1], [2]], "naming": {"k": "default"}}),
    ])], "mode": "dag"},
    # an unknown dependency in the inner decorator
    {"classes": [_c("s", [_t("a"), _t("b", dep_groups=[["s.does_not_exist"], ["s.a"]])])], "mode": "unknown"},
    # entry test, then a 3-cycle (the cycle is first met from outside)
    {"classes": [_c("s", [_t("a", dep_groups=[["s.b"]]), _t("b", dep_groups=[["s.c"]]), _t("c", dep_groups=[["s.d"]]),
                          _t("d", dep_groups=[["s.b"]])])], "mode": "cycle+entry"},
    # entry from an earlier suite through a predicate, 2-cycle in a later suite
    {"classes": [_c("first", [_t("e", dep_groups=[[{"pred": "name=x"}]])]),
                 _c("second", [_t("x", dep_groups=[["second.y"]]), _t("y", dep_groups=[["second.x"]])])], "mode": "cycle+entry"},
    # entry test, then a self-dependency
    {"classes": [_c("s", [_t("first", dep_groups=[["s.loop"]]), _t("loop", dep_groups=[["s.loop"]])])], "mode": "cycle+entry"},
    # diamond above a cycle: the cycle member is reached twice from outside before it is resolved itself
    {"classes": [_c("s", [_t("top", dep_groups=[["s.l"], ["s.r"]]), _t("l", dep_groups=[["s.m"]]), _t("r", dep_groups=[["s.m"]]),
                          _t("m", dep_groups=[["s.n"]]), _t("n", dep_groups=[["s.m"]])])], "mode": "cycle+entry"},
    # tests with the SAME NAME in two suites: a dependent names both by path (two decorators), another one through a name
    # predicate; the second `prepare` fails
    {"classes": [_c("a", [_t("prep_a", name="prepare", desc="Prepare a")]),
                 _c("b", [_t("prep_b", name="prepare", desc="Prepare b", behav="fail")]),
                 _c("c", [_t("use", dep_groups=[["a.prepare"], ["b.prepare"]]), _t("use2", dep_groups=[[{"pred": "name=prepare"}]])])],
     "mode": "dag", "twins": "prepare"},
    # plain 2-cycle (control) and a dependency left out of the run by the filter
    {"classes": [_c("s", [_t("a", dep_groups=[["s.b"]]), _t("b", dep_groups=[["s.a"]])])], "mode": "cycle"},
    {"classes": [_c("s", [_t("a"), _t("b", dep_groups=[["s.a"]])])], "mode": "dag", "filter": {"paths": ["s.b"]}},
]

ERR_MAP = {"KeyError": ("KeyError",), "dupTestDesc": ("SuiteLoadingError", "A test with description"),
           "dupTestName": ("SuiteLoadingError", "A test with name"), "dupSuiteDesc": ("SuiteLoadingError", "A sub test suite with description"),
           "dupSuiteName": ("SuiteLoadingError", "A sub test suite with name")}
RESOLVE_ERR = {"unknown": "Cannot find dependency test '%(dep)s' for '%(test)s'",
               "circular": "Got circular dependency on test %(test)s through test %(dep)s",
               "notScheduled": "Error: test dependency '%(dep)s' of '%(test)s' is not going to be run"}


def compare_load(case, obs, ans):
    """loaded tree (or loader exception) against `Expand.loadSuites`; None when they agree"""
    if "error" in ans:
        return "model error: " + str(ans["error"])
    load = obs["load"]
    if not ans["agree"]:
        return "the loader model succeeded with another tree than the specification `expandSuites`"
    if "err" in ans["load"]:
        kind, arg = ans["load"]["err"]
        want = ERR_MAP[kind]
        if "error" not in load:
            return "model: loader raises %s(%r); the real loader returned a tree" % (kind, arg)
        cls, text = load["error"]
        if cls != want[0] or (len(want) > 1 and not text.startswith(want[1])) or arg not in text:
            return "model: loader raises %s(%r); real: %s(%s)" % (kind, arg, cls, text[:200])
        return None
    if "error" in load:
        return "real loader raised %r; the model loads a tree" % (load["error"],)
    real = strip_decl(load["tree"])
    model = model_tree(ans["load"]["ok"])
    if real != model:
        return "loaded tree differs from the model's: " + _first_diff(real, model)
    return None


def compare_resolve(case, obs, ans):
    """verdict of the real PreparedProject.create against `Deps.resolve` on the loaded tests"""
    if "tree" not in obs.get("load", {}) or obs.get("empty") or obs.get("filter_empty"):
        return None
    res = ans.get("resolve")
    if res is None:
        return "the model did not answer the validation question"
    if "err" in res:
        kind, test, dep = res["err"]
        if "resolve_error" not in obs:
            return "model: validation rejects (%s: %s -> %s); the real PreparedProject.create accepted" % (kind, test, dep)
        cls, text = obs["resolve_error"]
        want = RESOLVE_ERR.get(kind, kind) % {"test": test, "dep": dep}
        if cls != "ValidationError" or text != want:
            return "model: ValidationError(%r); real: %s(%r)" % (want, cls, text)
        return None
    if "resolve_error" in obs:
        return "real validation raised %r; the model accepts" % (obs["resolve_error"],)
    if [[p, ds] for p, ds in res["ok"]] != obs["resolved"]:
        return "resolved dependencies differ: real %r, model %r" % (obs["resolved"], res["ok"])
    return None


class DeclStream(C.Stream):
    name = "decl"
    driver = "drivers/Expand.lean"
    profile = "default"
    oracles = ("C01",)
    quick_cases = 220
    quick_seconds = 18
    thorough_cases = 2200
    thorough_seconds = 300
    chunk = 20
    corpus = CORPUS

    def gen(self, rng, i):
        return gen_case(rng, self.profile)

    def impl(self, case):
        return run_case(case)

    def oracle(self, case, obs):
        out = []
        if "C01" in self.oracles:
            out += oracle(case, obs)
        if "C04" in self.oracles:
            out += oracle_c04(case, obs)
        return out

    def request(self, case, obs):
        return {"classes": model_classes(case["classes"], case.get("bases", [])), "nb_threads": 2, "force": False,
                "keep": [p.split(".") for p in case["filter"]["paths"]] if case.get("filter") else None}

    def compare(self, case, obs, ans):
        d = compare_load(case, obs, ans)
        if d is not None or "err" in ans.get("load", {}):
            return d
        load = obs["load"]
        # the run-level graph of the expanded tree has one test task per loaded test, in order
        paths = [p for p, _, _ in flat_tests(load["tree"])]
        if ans["tasks"] != paths:
            return "test tasks of the expanded project %r differ from the loaded tests %r" % (ans["tasks"], paths)
        if ans["count"] != len(paths):
            return "declCount %d differs from the number of loaded tests %d" % (ans["count"], len(paths))
        d = compare_resolve(case, obs, ans)
        if d is not None:
            return d
        # the model's `testDisabledNow` (no force) agrees with what the run without --force-disabled reported
        for run in obs["runs"]:
            if run["force"] or "tests" not in run:
                continue
            st = {".".join(p): s for p, s, _ in run["tests"]}
            for p, dn in ans["tests"]:
                if ".".join(p) in st and (st.get(".".join(p)) == "disabled") != dn:
                    return "n=%d: %s reported %r, model testDisabledNow=%s" % (run["n"], ".".join(p), st.get(".".join(p)), dn)
        return None

    def nontrivial(self, case, obs):
        if "tree" not in obs.get("load", {}):
            return False
        tests = list(flat_tests(obs["load"]["tree"]))
        if self.profile == "deps":
            return len(tests) >= 2 and any(t["deps"] for _, t, _ in tests)
        return len(tests) >= 2 and bool(obs["runs"]) and any(t["params"] for _, t, _ in tests) and any(r.get("executed") for r in obs["runs"])

    def features(self, case, obs):
        f = []
        load = obs.get("load", {})
        if "error" in load:
            f.append("load-error=" + load["error"][0] + ("/" + " ".join(load["error"][1].split()[:4]) if load["error"][0] == "SuiteLoadingError" else ""))
        elif obs.get("empty"):
            f.append("no-test-at-all")
        elif obs.get("filter_empty"):
            f.append("filter-matches-nothing")
        elif "resolve_error" in obs:
            f.append("rejected=" + " ".join(obs["resolve_error"][1].split()[:3]))
        else:
            f.append("loaded+run")
        if "tree" in load:
            g = declared_graph(case, obs)
            defects = graph_defects(g, scheduled_paths(case, obs))
            f.append("graph=" + (defects[0][0] if defects else "fine"))
            if defects and defects[0][0] == "cycle":
                cyc = defects[0][2].split(" -> ")
                f.append("cycle-length=%d" % (len(cyc) - 1))
                # was the cycle first entered from a test outside it (resolution order = tree order)?
                first = next((t for t in g if t in set(scheduled_paths(case, obs)) and _reaches(g, t, set(cyc))), None)
                f.append("cycle-entered-from-" + ("outside" if first not in cyc else "a-member"))
            n_edges = sum(len(v) for v in g.values())
            f.append("edges=%s" % ("0" if not n_edges else "1-3" if n_edges <= 3 else "4-8" if n_edges <= 8 else "9+"))
            idx = {t: i for i, t in enumerate(g)}
            for t, items in g.items():
                for kind, d in items:
                    if kind == "ok":
                        f.append("dep-forward" if idx.get(d, -1) > idx[t] else "dep-backward")
                        if d.rsplit(".", 1)[0] != t.rsplit(".", 1)[0]:
                            f.append("dep-cross-suite")
                indeg = sum(1 for v in g.values() for _, d in v if d == t)
                if indeg >= 2 and items:
                    f.append("diamond-or-shared-dependency")
        f.append("mode=" + case.get("mode", "dag"))
        if case.get("twins"):
            f.append("same-named-tests-in-different-suites")
            if "tree" in load and any(len({d.rsplit(".", 1)[0] for k, d in items if k == "ok" and d.rsplit(".", 1)[1] == case["twins"]}) >= 2
                                      for items in declared_graph(case, obs).values()):
                f.append("depends-on-same-named-tests")
        if case.get("filter"):
            f.append("filter")
        nd = 0
        for d, cpath, dis, vis in iter_decls(case["classes"]):
            nd += 1
            f.append("depth=%d" % len(cpath))
            if d["disabled"]:
                f.append("disabled-decl" + ("+reason" if isinstance(d["disabled"], str) else ""))
            if d["hidden"]:
                f.append("hidden-decl")
            groups = dep_groups(d)
            if groups:
                f.append("depends_on")
                f.append("depends_on-decorators=%d" % len(groups))
                if any(len(g) > 1 for g in groups):
                    f.append("depends_on-multi-argument")
                if len(groups) > 1 and any(len(g) > 1 for g in groups):
                    f.append("depends_on-stacked+multi-argument")
                for x in flat_deps(d):
                    if not isinstance(x, str):
                        f.append("depends_on-predicate/" + x["pred"].split("=")[0])
            if d.get("split_tags"):
                f.append("tags-stacked")
            if d.get("behav", "pass") != "pass":
                f.append("body-" + d["behav"])
            for k in ("tags", "props", "links"):
                if d[k]:
                    f.append(k)
            p = d["param"]
            if p is not None:
                f.append("param:form=" + p["form"])
                f.append("param:sets=%d" % len(p["sets"]))
                f.append("param:naming=" + p["naming"]["k"] + ("/" + p["naming"]["which"] if p["naming"]["k"] == "custom" else ""))
                if d["disabled"]:
                    f.append("disabled+parametrized")
                if dis and not d["disabled"]:
                    f.append("parametrized-in-disabled-class")
                if groups:
                    f.append("parametrized+depends_on")
        for c in _iter_classes(case["classes"]):
            if c["disabled"]:
                f.append("disabled-class")
            if c["hidden"]:
                f.append("hidden-class")
            if c["rank"] is not None:
                f.append("explicit-suite-rank")
            if not c["tests"]:
                f.append("class-without-tests")
        return sorted(set(f))

    def shrink(self, case):
        cs = case["classes"]
        rest = {k: v for k, v in case.items() if k != "classes"}
        if case.get("filter"):
            yield {k: v for k, v in case.items() if k != "filter"}
        # drop a class / a test / a sub-class, then simplify one declaration
        for i in range(len(cs)):
            if len(cs) > 1:
                yield dict(rest, classes=cs[:i] + cs[i + 1:])
        for path in _class_paths(cs):
            c = _get(cs, path)
            for i in range(len(c["tests"])):
                yield dict(rest, classes=_edit(cs, path, lambda c, i=i: dict(c, tests=c["tests"][:i] + c["tests"][i + 1:])))
            for i in range(len(c["subs"])):
                yield dict(rest, classes=_edit(cs, path, lambda c, i=i: dict(c, subs=c["subs"][:i] + c["subs"][i + 1:])))
            for i, t in enumerate(c["tests"]):
                def put(t2, i=i):
                    return dict(rest, classes=_edit(cs, path, lambda c: dict(c, tests=c["tests"][:i] + [t2] + c["tests"][i + 1:])))
                groups = dep_groups(t)
                if groups:
                    yield put(dict({k: v for k, v in t.items() if k != "deps"}, dep_groups=[]))
                    for gi, g in enumerate(groups):
                        for di in range(len(g)):
                            g2 = [x for j, x in enumerate(g) if j != di]
                            ng = groups[:gi] + ([g2] if g2 else []) + groups[gi + 1:]
                            yield put(dict({k: v for k, v in t.items() if k != "deps"}, dep_groups=ng))
                for k, v in (("tags", []), ("props", []), ("links", []), ("name", None), ("hidden", False), ("behav", "pass"), ("disabled", False)):
                    if t.get(k, v) != v:
                        yield put(dict(t, **{k: v}))
                if t["param"] is not None and len(t["param"]["sets"]) > 1:
                    yield put(dict(t, param=dict(t["param"], sets=t["param"]["sets"][:-1])))
                if t["param"] is not None:
                    yield put(dict(t, param=None))


def _reaches(g, t, targets, seen=None):
    seen = seen if seen is not None else set()
    if t in targets:
        return True
    if t in seen:
        return False
    seen.add(t)
    return any(kind == "ok" and _reaches(g, d, targets, seen) for kind, d in g.get(t, []))


def _iter_classes(classes):
    for c in classes:
        yield c
        yield from _iter_classes(c["subs"])


def _class_paths(classes, prefix=()):
    for i, c in enumerate(classes):
        yield prefix + (i,)
        yield from _class_paths(c["subs"], prefix + (i,))


def _get(classes, path):
    c = classes[path[0]]
    for i in path[1:]:
        c = c["subs"][i]
    return c


def _edit(classes, path, f):
    i = path[0]
    if len(path) == 1:
        return classes[:i] + [f(classes[i])] + classes[i + 1:]
    c = classes[i]
    return classes[:i] + [dict(c, subs=_edit(c["subs"], path[1:], f))] + classes[i + 1:]


def _first_diff(a, b, where="tree"):
    if type(a) is not type(b):
        return "%s: real %r, model %r" % (where, a, b)
    if isinstance(a, dict):
        for k in sorted(set(a) | set(b)):
            if a.get(k) != b.get(k):
                return _first_diff(a.get(k), b.get(k), "%s.%s" % (where, k))
    if isinstance(a, list):
        if len(a) != len(b):
            return "%s: real has %d items, model %d (%r / %r)" % (where, len(a), len(b), [x.get("name") if isinstance(x, dict) else x for x in a][:8],
                                                                   [x.get("name") if isinstance(x, dict) else x for x in b][:8])
        for i, (x, y) in enumerate(zip(a, b)):
            if x != y:
                return _first_diff(x, y, "%s[%d]" % (where, i))
    return "%s: real %r, model %r" % (where, a, b)

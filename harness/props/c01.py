"""C01 — every scheduled test accounted for exactly once; the run terminates."""
import common as C
from props._sched import SchedStream

PROPERTY = "C01"
LEAN_MODULES = ["LccModel.Props.C01"]
PROPS_FILES = ["LccModel/Props/C01.lean"]
NAMESPACES = {"LccModel/Props/C01.lean": "LccModel.C01"}
DRIVER = "drivers/Sched.lean"
TRUSTED_BASE = [
    "Lean 4.33.0 kernel; axioms of the property theorems ⊆ {propext, Classical.choice, Quot.sound}",
    "hand-written model LccModel/Model/Sched.lean of task.py (run_tasks, pop_runnable_tasks, handle_task, run_task, skip_task, skip_all_tasks)",
    "trace-inclusion harness: harness/obs/schedrec.py (recording Pool/Queue/handle_task wrappers) + drivers/Sched.lean (acceptor)",
    "multiprocessing.dummy.Pool and queue.Queue behave as FIFO, unbounded, blocking-get containers (abstracted to 'any queued / any done task')",
]
ASSUMPTIONS = [
    "the pool runs at most nb_threads tasks at once; a task put on the completion queue is eventually received",
    "KeyboardInterrupt is delivered to the main thread while it waits in completed_tasks_queue.get (the interrupt inside apply_async is C08's stream)",
]
RULE = ("random dependency DAG (≤ 40 tasks, on-success and on-completion edges, arbitrary list order) × behaviour per task "
        "(ok / TaskFailure / exception / exception in skip) × nb_threads 1..8 × gate strategy; non-trivial = ≥ 2 tasks, ≥ 1 edge, "
        "and (1 thread, or completion order differs from list order, or an interrupt was injected); distinct = hash of the case")
EXPLANATION = ("Deadlock-freedom, bounded executions and exactly-once handling are Lean theorems over every task graph, worker count and "
               "interleaving; each real run_tasks execution is replayed label by label on the same transition function.")


class S(SchedStream):
    name = "C01.sched"
    with_interrupts = True
    interrupt_apply = False


def streams(ctx):
    return [S()]

"""C01 — every scheduled test accounted for exactly once; the run terminates."""
import common as C
from props._runcommon import RUN_TRUSTED, RUN_ASSUMPTIONS, PropRunStream
from run import selftest as W
from run import witnesses2 as W2

PROPERTY = "C01"
LEAN_MODULES = ["LccModel.Props.C01", "LccModel.Props.C01Graph", "LccModel.Props.C01Run", "LccModel.Props.C01Expand", "LccModel.Props.C01Accept", "LccModel.Props.C01Locale"]
PROPS_FILES = ["LccModel/Props/C01.lean", "LccModel/Props/C01Graph.lean", "LccModel/Props/C01Run.lean", "LccModel/Props/C01Expand.lean", "LccModel/Props/C01Accept.lean", "LccModel/Props/C01Locale.lean"]
NAMESPACES = {"LccModel/Props/C01.lean": "LccModel.C01", "LccModel/Props/C01Graph.lean": "LccModel.C01Graph", "LccModel/Props/C01Run.lean": "LccModel.C01Run", "LccModel/Props/C01Expand.lean": "LccModel.C01Expand", "LccModel/Props/C01Accept.lean": "LccModel.C01Accept", "LccModel/Props/C01Locale.lean": "LccModel.C01Locale"}
DRIVER = "drivers/Run.lean"
TRUSTED_BASE = RUN_TRUSTED + ["scheduler-only stream: harness/props/_sched.py drives the real run_tasks with synthetic tasks (drivers/Sched.lean)"]
ASSUMPTIONS = RUN_ASSUMPTIONS + ["Valid P (Lemmas/Graph.lean): sibling suite names distinct incl. the top level (the top level is NOT checked by the real loader: observation in DESIGN), test names distinct per suite, dependencies resolved and acyclic"]
RULE = 'sched stream: random dependency DAG × behaviours × threads × gates; run stream: generated project (harness/run/gen.py) × nb_threads 1..8 × gate strategy (off/fifo/lifo/random) forcing completion orders × keyboard interrupt (20 %); non-trivial = ≥ 2 tests, ≥ 1 body entered, ≥ 8 events; distinct = hash of the case (project + schedule parameters)'
EXPLANATION = 'Deadlock freedom, bounded executions and exactly-once handling are Lean theorems for every well-formed task graph; buildTasks of every valid project is well-formed with exactly one task per scheduled test and one begin/end pair per suite (C01Graph); every real run is replayed on the composed model (scheduler × task behaviours × session × writer) and the report folded by the writer model must equal the real report.  The replay is itself linked to the theorems: `C01Accept.accepted_trace_is_execution` proves that every trace the acceptor entry point (`RunAccept.replay`, what drivers/Run.lean runs) accepts projects onto an execution of `Sched.step` from `Sched.init` on `graphOf P`, so exactly-once, dependency order, teardown order and the interrupt guarantees provably hold of every accepted real trace (corollaries in Props/C01Accept.lean, non-vacuity on two real traces replayed by the kernel).'


def witness(title_prefix):
    """corpus case built from the hand-written witness table of harness/run/selftest.py"""
    for title, sig, project, cfg in W.WITNESSES:
        if title.startswith(title_prefix):
            return {"project": dict(project, nb_threads=cfg["n"]), "strategy": cfg["strategy"], "gseed": cfg["gseed"],
                    "interrupt": cfg["interrupt"], "fault": cfg["fault"]}
    raise KeyError(title_prefix)


from props._sched import SchedStream


class Sched(SchedStream):
    name = "C01.sched"
    driver = "drivers/Sched.lean"
    quick_cases = 300
    quick_seconds = 30


class Run(PropRunStream):
    name = "C01.run"
    prop = "C01"
    profile = "basic"
    oracles = ("C01",)
    quick_cases = 270
    quick_seconds = 45
    p_interrupt = 0.2           # interrupted runs are ordinary cases since fix D11
    corpus = [witness("D1 "), witness("D3 "), witness("D11 ")] + W2.CONTROLS + W2.CONTROLS2 + W2.CONTROLS3


class RunPT(PropRunStream):
    name = "C01.run.perthread"
    prop = "C01"
    profile = "perthread"
    oracles = ("C01",)
    quick_cases = 120
    quick_seconds = 30
    thorough_cases = 4000
    p_interrupt = 0.15


from props._decl import DeclStream, DECL_TRUSTED, DECL_RULE


class Decl(DeclStream):
    name = "C01.decl"


TRUSTED_BASE = TRUSTED_BASE + DECL_TRUSTED
RULE = RULE + "; " + DECL_RULE


from props._c01loc import Locale       # C01.locale: real `lcc run` in a child process under an ASCII / UTF-8 locale, real file backends

TRUSTED_BASE = TRUSTED_BASE + ["locale stream: harness/props/_c01loc.py (child processes under LC_ALL=C without coercion / C.UTF-8, the real "
                               "`lcc run` glue and file backends, drivers/C10.lean); Model/LocaleFile.lean (codecs, account of a report); "
                               "`json.loads` inverting `json.dumps` is a parameter of Props/C01Locale.lean as it is of C09"]
RULE = RULE + ("; locale stream: locale of the child process (ASCII 60 % / UTF-8 40 %) × attached backends (json alone 50 %, with html / console / "
               "xml / junit, any order) × --save-report × generated project (nesting, disabled / dependent tests, hooks, 1..4 threads) whose "
               "texts hold Latin-1 / BMP / astral characters or lone surrogates in ~70 % of the cases; non-trivial = >= 1 scheduled test and "
               ">= 1 recorded event")


from props._em import EMStream, em_table      # termination also rests on the event manager: `fire` must never block


def tables(ctx):
    return [em_table()]


class EM(EMStream):
    """the real AsyncEventManager fed more events after a handler failure than any bound its queue has (C11.em, judged on
    termination only): a blocked `fire` is a worker (or the main thread) that never reports its task back"""
    name = "C01.em"
    hang_signature = "C01/run-does-not-terminate/%(where)s-blocked"
    only_termination = True
    quick_cases = 40
    quick_seconds = 8


LEAN_MODULES = LEAN_MODULES + ["LccModel.Props.C01Events"]
PROPS_FILES = PROPS_FILES + ["LccModel/Props/C01Events.lean"]
NAMESPACES = dict(NAMESPACES, **{"LccModel/Props/C01Events.lean": "LccModel.C01Events"})
TRUSTED_BASE = TRUSTED_BASE + ["event manager: Model/EventManager.lean (shared with C11), tied by the em stream on the real AsyncEventManager "
                               "and by the extracted bound of the real queue (table emQueueBound, obligation em_queue_is_unbounded in "
                               "Generated/C01TablesCheck.lean)"]
RULE = RULE + ("; em stream: n ∈ 0..3000 events fired by 1..3 producers into the real AsyncEventManager, 0..2 failing handlers, 40 % of the "
               "failing cases ask for bound+k events after the failure whatever bound the real queue has (non-trivial = ≥ 2 events)")
EXPLANATION = EXPLANATION + (" Termination also needs that firing an event never blocks: Props/C01Events proves it for the unbounded queue "
                             "(every interleaving, every failing handler) and proves that EVERY finite bound blocks a run that fires more than "
                             "the bound after a handler failure; the bound of the real queue is extracted on every run.")


def streams(ctx):
    return [Sched(), Run(), RunPT(), Decl(), Locale(), EM()]

"""C10 — the report on disk is always loadable and is a prefix of the final report (models M4 `Prefix`, M13).

Streams
  C10.snap    event streams (generated well-formed streams with interleaved workers, streams recorded from REAL
              runs of generated suites, and a share of deliberately ill-formed streams) go through the real
              `ReportWriter` + real `FileReportSession`s (json and xml backends, every saving strategy, wired in the
              order `Session.create` wires them) on the real `AsyncEventManager` handler thread; after every handled
              event the report file of every session is read back with the real loader.  Compared with the model:
              the save points of every strategy, the content of the snapshots (normal forms), the writer's
              error behaviour, `prefixB` (Lean) against the oracle's own prefix relation (Python).
  C10.crash   a forked child performs the same run and dies (os._exit, nothing flushed) at a chosen point of a
              chosen save — after the open, after each piece reaching the file, after the close, after the rename;
              every point of every save for small cases — plus real SIGKILLs at the K-th write syscall under
              `strace` for a sample; the survivor file must load and be a prefix of the final report, and be the
              previous or the new snapshot (model M13).
  C10.reader  a reader thread loads the report file as fast as it can while an `at_each_event` run is saving.
  C10.cli     (props/_c10x.py) the `lcc run` glue: real argparse definitions, `--save-report` x `$LCC_SAVE_REPORT`, the real
              `run_suites_from_project` on a generated project; the file must be refreshed at the points of the strategy the user
              asked for (option over variable over default).
  C10.locale  (props/_c10x.py) the handler loop in a child process under an ASCII / UTF-8 locale on non-ASCII texts and lone
              surrogates: the JSON backend saves under every locale; the XML backend's failures are predicted and classified.

Backends: the FILE backends attached to a run (json / xml / junit, any non-empty combination, any order — what `--reporting json junit`
gives) are an input of C10.snap (generated streams and real runs) and C10.cli; every attached backend's save is wrapped (`save_errors`);
the JUnit file has no loader: it must be well-formed XML at every promised point and is compared with `Junit.toJunit`; a raising save
of one backend and the files of the others it freezes are both reported (`C10/save-raised/<backend>/<class>`,
`C10/stale-after-raising-save/<kind>-stopped-by-<backend>`).

Texts: a quarter of the C10.snap cases ("wild") carry every string class of gen.reports (lone surrogates, C0 controls, CR, empty,
U+FFFE, …) through the run; node names are drawn from the class with dots / dashes / punctuation / non-ASCII; a save that RAISES is
observed (`save_errors`) and is a violation (`C10/save-raised/<backend>/<class>`), except for the XML format's known text limits
(C09 / D8), which have their own signatures (`C10/xml-text-limit/…`, open findings) and a run of their own.

The oracles are stated on observations of the real code only (loadability, the prefix relation computed on
normal forms of loaded files, save seen at each promised event) and never call the model.
"""
import copy
import json
import os
import random
import shutil
import subprocess
import sys
import tempfile
import threading
import time as _time

import common as C
from gen import reports as R

PROPERTY = "C10"
LEAN_MODULES = ["LccModel.Props.C10", "LccModel.Props.C10Info", "LccModel.Props.C10Overlap", "LccModel.Props.C10RunDir"]
PROPS_FILES = ["LccModel/Props/C10.lean", "LccModel/Props/C10Info.lean", "LccModel/Props/C10Overlap.lean",
               "LccModel/Props/C10RunDir.lean"]
NAMESPACES = {"LccModel/Props/C10.lean": "LccModel.C10", "LccModel/Props/C10Info.lean": "LccModel.C10",
              "LccModel/Props/C10Overlap.lean": "LccModel.C10", "LccModel/Props/C10RunDir.lean": "LccModel.C10"}
DRIVER = "drivers/C10.lean"
TABLE_OPENS = ("LccModel.Saving", "LccModel.Report")
TRUSTED_BASE = [
    "Lean 4.33.0 kernel; axioms of the property theorems ⊆ {propext, Classical.choice, Quot.sound}",
    "hand-written models LccModel/Model/Writer.lean (ReportWriter, shared) and LccModel/Model/Saving.lean (Prefix, "
    "strategies, FileReportSession, handler-thread loop, file system M13)",
    "decision tables regenerated on every run by executing FileReportSession's handlers and the strategy functions "
    "of savingstrategy.py on every event class x result status x node naming (plain, dotted test, dotted suite, both), and "
    "get_report_saving_strategy behind the real argparse definitions on --save-report x $LCC_SAVE_REPORT, re-proved by `decide`",
    "hand-written model Model/Junit.lean of reporting/backends/junit.py (element tree, `duration or 0`, the times it cannot do without), "
    "compared with every JUnit file the sessions write",
    "hand-written models Model/JsonFile.lean + Model/JsonRender.lean (text of report.js: every string through the ensure_ascii escaping; "
    "how numbers and times are spelled is a parameter that only has to be ASCII) and Store.xmlSaveOkEnc (the XML text is written raw)",
    "the status of the result an end event is about is read by the check's own walk of the report objects (own_result_status), not "
    "through savingstrategy / ReportLocation",
    "correspondence harness harness/props/c10.py + c10_child.py (real writer, real file sessions, real loader, forked "
    "crash children, strace SIGKILL injection)",
    "M13 assumptions (not proved): os.replace within one directory is atomic and not observed before the temporary "
    "file's content as far as process death and concurrent readers go; a reader holding the old file keeps the old "
    "content; power-failure page-cache loss is out of scope",
]
ASSUMPTIONS = [
    "event streams satisfy C07's grammar (Grammar.WellFormedPrefix, strict mode) with unique test/suite paths "
    "(Grammar.Fresh) — theorem safe_of_grammar then gives SafeStream; all three are evaluated by the driver on every "
    "generated and every recorded real stream",
    "the report file is only written by FileReportSession through save_report_into_file (json_.py / xml.py / junit.py)",
    "the file is opened in text mode with the locale encoding (ASCII, Latin-1 or UTF-8 in the model); the XML backend is only claimed "
    "for texts its format carries under a UTF-8 locale (open findings C10/xml-text-limit/*: lone surrogate, non-XML character, "
    "non-ASCII under an ASCII locale)",
    "C10.cli: the wall-clock strategies (every_Ns) are only checked for the final save, loadability and the prefix relation",
    "the tree under test carries fix commit 9b94878 (fixes/D16-atomic-report-save.diff): the model mirrors the repaired "
    "save; on a tree without it the crash stream reports the violation D16",
    "serialisations are self-delimiting (no strict prefix of a saved file loads): sampled on real files by C10.crash",
]
RULE = ("cli: >= 2 results and an intermediate save in a run started through run_suites_from_project; locale: >= 1 save of the JSON "
        "session under the chosen locale on a stream holding non-ASCII text or a lone surrogate; "
        "snap: a case counts if at least one intermediate save (a save before the last handled event) was observed under "
        "some strategy and the stream has >= 2 results; crash: the death point lies strictly inside a save (after the "
        "open, before the save is complete) of a run with >= 2 saves; reader: >= 1 load completed between the first and "
        "the last save and >= 2 distinct snapshots were seen; distinct = hash of the case")
EXPLANATION = ("Lean theorems LccModel.C10.* (Prefix preorder, writer frame property for every handler, C07's grammar + unique "
               "paths imply that no event targets a finished item, snapshot = report of a stream prefix, strategy points, "
               "final save, crash safety of tmp+rename over all crash points, refutation of truncate-in-place; the JSON text is ASCII "
               "so no save raises under any locale encoding, a raising save loses every later refresh; --save-report wins over "
               "$LCC_SAVE_REPORT over the default); tied to the code by strategy / handler / option tables extracted by execution and by the "
               "streams C10.snap / C10.cli / C10.crash / C10.locale / C10.reader against the real CLI glue, writer, file sessions, loader and OS.")

STATIC = ["at_end_of_tests", "at_each_suite", "at_each_test", "at_each_failed_test", "at_each_log"]
LEAN_STRAT = {"at_end_of_tests": "atEndOfTests", "at_each_suite": "atEachSuite", "at_each_test": "atEachTest",
              "at_each_failed_test": "atEachFailedTest", "at_each_log": "atEachLog", "at_each_event": "atEachLog"}

EV_CLASSES = [  # (wire name, Lean EvClass, events.py class name)
    ("sessionStart", "sessionStart", "TestSessionStartEvent"), ("sessionEnd", "sessionEnd", "TestSessionEndEvent"),
    ("sessionSetupStart", "sessionSetupStart", "TestSessionSetupStartEvent"),
    ("sessionSetupEnd", "sessionSetupEnd", "TestSessionSetupEndEvent"),
    ("sessionTeardownStart", "sessionTeardownStart", "TestSessionTeardownStartEvent"),
    ("sessionTeardownEnd", "sessionTeardownEnd", "TestSessionTeardownEndEvent"),
    ("suiteStart", "suiteStart", "SuiteStartEvent"), ("suiteEnd", "suiteEnd", "SuiteEndEvent"),
    ("suiteSetupStart", "suiteSetupStart", "SuiteSetupStartEvent"), ("suiteSetupEnd", "suiteSetupEnd", "SuiteSetupEndEvent"),
    ("suiteTeardownStart", "suiteTeardownStart", "SuiteTeardownStartEvent"),
    ("suiteTeardownEnd", "suiteTeardownEnd", "SuiteTeardownEndEvent"),
    ("testStart", "testStart", "TestStartEvent"), ("testEnd", "testEnd", "TestEndEvent"),
    ("testSkipped", "testSkipped", "TestSkippedEvent"), ("testDisabled", "testDisabled", "TestDisabledEvent"),
    ("stepStart", "stepStart", "StepStartEvent"), ("stepEnd", "stepEnd", "StepEndEvent"),
    ("log", "log", "LogEvent"), ("check", "check", "CheckEvent"), ("att", "attachment", "LogAttachmentEvent"),
    ("url", "url", "LogUrlEvent"),
]
END_OF_RESULT = {"testEnd", "suiteSetupEnd", "suiteTeardownEnd", "sessionSetupEnd", "sessionTeardownEnd"}
STEPPED = {"log", "check", "att", "url"}


def strat_wire(expr):
    if expr in LEAN_STRAT:
        return {"k": LEAN_STRAT[expr]}
    assert expr.startswith("every_") and expr.endswith("s")
    return {"k": "everyN", "n": int(expr[6:-1])}


# ------------------------------------------------------------------------------------------------
# decision tables (executed on the real code)
# ------------------------------------------------------------------------------------------------

def _md(name, rank=0):
    return {"name": name, "desc": "d", "tags": [], "props": [], "links": [], "rank": rank}


def _sample_event(wire_name, report, sn="s", tn="t"):
    """a real event object of every class, all about suite [sn] / test [sn, tn] / session setup"""
    loc = {"k": "test", "path": [sn, tn]}
    base = {"e": wire_name, "t": 5000}
    if wire_name.startswith("suite"):
        base.update(path=[sn], md=_md(sn))
    elif wire_name.startswith("test"):
        base.update(path=[sn, tn], md=_md(tn), reason="r")
    elif wire_name in ("stepStart", "stepEnd"):
        base.update(loc=loc, desc="st", tid=1)
    elif wire_name == "log":
        base.update(loc=loc, step="st", tid=1, level="info", msg="m")
    elif wire_name == "check":
        base.update(loc=loc, step="st", tid=1, desc="c", ok=False, details=None)
    elif wire_name == "att":
        base.update(loc=loc, step="st", tid=1, file="f", desc="a", img=False)
    elif wire_name == "url":
        base.update(loc=loc, step="st", tid=1, url="u", desc="d")
    return R.build_event(base, report)


def _report_with(arg, sn="s", tn="t"):
    """a real report in which `report.get(location)` of every end-of-result location behaves as `arg` says:
    'raises' (suite / test missing), 'absent' (setup / teardown None), or a status (None, 'passed', ...)"""
    from lemoncheesecake.reporting.report import Report, SuiteResult, TestResult, Result
    r = Report()
    r.start_time = 1.0
    if arg == "raises":
        return r
    s = SuiteResult(sn, "d")
    s.start_time = 1.0
    r.add_suite(s)
    if arg == "absent":
        return r

    def res(x):
        x.start_time = 1.0
        x.status = arg[1]
        return x
    r.test_session_setup = res(Result())
    r.test_session_teardown = res(Result())
    s.suite_setup = res(Result())
    s.suite_teardown = res(Result())
    s.add_test(res(TestResult(tn, "d")))
    return r


class _CountingBackend:
    def __init__(self):
        self.saves = 0

    def save_report(self, filename, report):
        self.saves += 1


def tables(ctx):
    from lemoncheesecake import events as E
    from lemoncheesecake.reporting.backend import FileReportSession
    from lemoncheesecake.reporting import savingstrategy as SS
    imports = ("LccModel.Model.Saving",)
    known = {cls: (w, l) for w, l, cls in EV_CLASSES}
    abstract = {"RuntimeEvent", "SteppedEvent"}
    found = sorted(c.__name__ for c in E.EventManager._get_event_classes())

    # T1: which handler FileReportSession binds to each event class, found by executing it
    rows = []
    for cls in found:
        if cls in abstract:
            continue
        if cls not in known:      # a new event class: the obligation must break (unknown constructor)
            rows.append(("EvClass.%s" % cls, "HandlerKind.none", "unknown event class %s" % cls))
            continue
        w, l = known[cls]
        name = getattr(E, cls).get_name()
        kinds = []
        for strat_answer in (False, True):
            be = _CountingBackend()
            rep = _report_with(("st", "failed"))
            fs = FileReportSession("/nonexistent/x", rep, be, lambda e, r, t, a=strat_answer: a)
            h = getattr(fs, "on_" + name, None)
            if h is not None and callable(h):
                h(_sample_event(w, rep))
            kinds.append(be.saves)
        kind = {(0, 0): "none", (0, 1): "strategy", (1, 1): "always"}.get(tuple(kinds), "UNEXPECTED_%s_%s" % tuple(kinds))
        rows.append(("EvClass.%s" % l, "HandlerKind.%s" % kind, "FileReportSession.on_%s -> %s" % (name, kind)))
    missing = [cls for cls in known if cls not in found]
    for cls in missing:
        rows.append(("EvClass.%s" % known[cls][1], "HandlerKind.MISSING", "event class %s no longer exists" % cls))
    t1 = C.Table("handlerTable", "List (EvClass × HandlerKind)", rows, imports)

    # T2: the static strategies, through FileReportSession._handle_event, on every event class x result argument
    def lean_arg(arg):
        if arg in ("raises", "absent"):
            return "ResArg." + arg
        return "ResArg.present " + ("none" if arg[1] is None else "(some Status.%s)" % arg[1])
    args = ["raises", "absent"] + [("st", s) for s in (None, "passed", "failed", "skipped", "disabled")]
    rows = []
    # node names: the decision must not depend on them — plain identifiers, and names holding the separator of path strings
    # (`compat_1.2`, a suite `x.y`), every combination emitted as the SAME row
    namings = [("s", "t"), ("s", "compat_1.2"), ("x.y", "t"), ("a.b", "c.d")]
    for expr, (sn, tn) in [(e, n) for e in STATIC + ["at_each_event"] for n in namings]:
        strat = SS.make_report_saving_strategy(expr)
        for w, l, cls in EV_CLASSES:
            for arg in args:
                rep = _report_with(arg, sn, tn)
                ev = _sample_event(w, rep, sn, tn)
                # combinations that cannot be set up: a missing test always raises, a session result never does
                if arg == "raises" and w in ("sessionSetupEnd", "sessionTeardownEnd"):
                    continue
                if arg == "absent" and w == "testEnd":
                    continue
                be = _CountingBackend()
                fs = FileReportSession("/nonexistent/x", rep, be, strat)
                try:
                    fs._handle_event(ev)
                    out = "some true" if be.saves == 1 else "some false" if be.saves == 0 else "some UNEXPECTED"
                    direct = None if strat is None else bool(strat(ev, rep, 0.0))
                    if direct is not None and direct != (be.saves == 1):
                        out = "some INCONSISTENT"
                except LookupError:
                    out = "none"
                if w not in END_OF_RESULT and arg != "absent":
                    # the model passes `absent` for events that are not the end of a result: the decision must not
                    # depend on the report — every report variant is emitted as an `absent` row
                    rows.append(("(Strategy.%s, EvClass.%s, ResArg.absent)" % (LEAN_STRAT[expr], l), out,
                                 "%s(%s) with report variant %s -> %s" % (expr, cls, arg, out)))
                else:
                    rows.append(("(Strategy.%s, EvClass.%s, %s)" % (LEAN_STRAT[expr], l, lean_arg(arg)), out,
                                 "%s(%s, %s) -> %s" % (expr, cls, arg, out)))
    # dedupe (keeps conflicting rows: they differ in the output)
    seen, uniq = set(), []
    for r in rows:
        if (r[0], r[1]) not in seen:
            seen.add((r[0], r[1]))
            uniq.append(r)
    t2 = C.Table("staticTable", "List ((Strategy × EvClass × ResArg) × Option Bool)", uniq, imports)

    # T3: SaveAtInterval on a grid (multiples of 250 ms: exact in binary floating point)
    rows = []

    class _FT:
        now = 0.0

        def time(self):
            return _FT.now
    saved = SS.time
    SS.time = _FT()
    try:
        for n in (0, 1, 2, 10):
            strat = SS.make_report_saving_strategy("every_%ds" % n)
            strat2 = SS.make_report_saving_strategy("every %ds" % n)
            for last in (0, 250, 1000, 1750, 5000):
                for now in (0, 250, 1000, 1250, 2000, 2250, 2750, 3000, 3750, 5000, 6000, 7000, 11000, 15250):
                    _FT.now = now / 1000.0
                    out = bool(strat(None, None, last / 1000.0))
                    if bool(strat2(None, None, last / 1000.0)) != out:
                        out = "INCONSISTENT"
                    rows.append(("(%d, %d, %d)" % (n, last, now), str(out).lower(),
                                 "every_%ds: last=%d now=%d -> %s" % (n, last, now, out)))
    finally:
        SS.time = saved
    t3 = C.Table("intervalTable", "List ((Nat × Nat × Nat) × Bool)", rows, imports)
    return [t1, t2, t3, save_option_table(), report_dir_table()]


OPTION_VALUES = [None, "", "at_end_of_tests", "at_each_suite", "at_each_test", "at_each_failed_test", "at_each_log", "at_each_event",
                 "every_2s", "every 10s", "every_0s", "bogus", "every_s", "at_each_log "]


def lean_opt_str(v):
    return "none" if v is None else "(some %s)" % json.dumps(v)


def strategy_identity(strat):
    """a strategy object as built by `make_report_saving_strategy` → (Lean term, wire form)"""
    from lemoncheesecake.reporting import savingstrategy as SS
    if strat is None:
        return "Strategy.atEndOfTests", {"k": "atEndOfTests"}
    if isinstance(strat, SS.SaveAtInterval):
        n = strat.interval
        return ("Strategy.everyN %d" % n if isinstance(n, int) and n >= 0 else "UNEXPECTED_INTERVAL"), {"k": "everyN", "n": n}
    for name, lean in (("save_at_each_suite_strategy", "atEachSuite"), ("save_at_each_test_strategy", "atEachTest"),
                       ("save_at_each_failed_test_strategy", "atEachFailedTest"), ("save_at_each_log_strategy", "atEachLog")):
        if strat is getattr(SS, name, None):
            return "Strategy." + lean, {"k": lean}
    return "UNEXPECTED_STRATEGY", {"k": "unknown:" + getattr(strat, "__name__", type(strat).__name__)}


def real_chosen_strategy(cli, env):
    """the real decision of `lcc run`: `--save-report cli` parsed by the real argparse definitions of RunCommand, `$LCC_SAVE_REPORT`
    = env (None: not given / unset), then the real `get_report_saving_strategy(cli_args)`.  → strategy object or "rejected"."""
    from lemoncheesecake.cli.commands.run import get_report_saving_strategy
    from lemoncheesecake.exceptions import LemoncheesecakeException
    from props._cli import real_parser
    argv = [] if cli is None else ["--save-report", cli]
    cli_args = real_parser().parse_args(argv)
    saved = os.environ.pop("LCC_SAVE_REPORT", None)
    try:
        if env is not None:
            os.environ["LCC_SAVE_REPORT"] = env
        try:
            return get_report_saving_strategy(cli_args)
        except LemoncheesecakeException:
            return "rejected"
    finally:
        os.environ.pop("LCC_SAVE_REPORT", None)
        if saved is not None:
            os.environ["LCC_SAVE_REPORT"] = saved


PATH_STATES = ["missing", "parentMissing", "emptyDir", "filledDir", "file"]


def report_dir_table():
    """T5: what the real `create_report_dir(cli_args, project)` gives back for every combination of `--report-dir` and
    `$LCC_REPORT_DIR` ∈ {absent, empty string, a path where nothing is / whose parent is missing / an empty directory / a directory
    holding a report / a regular file} — by executing it (real argparse definitions) in a scratch directory.  `created`: a string,
    the path given by that source, a directory that did not exist before; `noDir`: anything that is not a path (on the unchanged
    tree: the exception object, observation O1) or an exception; `project`: the project's `create_report_dir()` was called."""
    import shutil
    import tempfile
    from lemoncheesecake.cli.commands.run import create_report_dir
    from props._cli import real_parser
    values = [None, ""] + PATH_STATES

    def lean_given(v):
        return "none" if v is None else "(some none)" if v == "" else "(some (some RunStart.PathState.%s))" % v

    class _Proj:
        def __init__(self):
            self.called = 0

        def create_report_dir(self):
            self.called += 1
            return "<project>"
    rows = []
    saved = os.environ.pop("LCC_REPORT_DIR", None)
    try:
        for cli in values:
            for env in values:
                top = tempfile.mkdtemp(prefix="lccverif-c10dir-")
                try:
                    paths = {}
                    for src, v in (("cli", cli), ("env", env)):
                        if v in (None, ""):
                            paths[src] = v
                            continue
                        path = os.path.join(top, src, "x", "out") if v == "parentMissing" else os.path.join(top, src + "-out")
                        if v in ("emptyDir", "filledDir"):
                            os.makedirs(path)
                        if v == "filledDir":
                            with open(os.path.join(path, "report.js"), "w") as fh:
                                fh.write("var reporting_data = {};\n")
                        if v == "file":
                            with open(path, "w") as fh:
                                fh.write("x\n")
                        paths[src] = path
                    existed = {src: (p not in (None, "") and os.path.exists(p)) for src, p in paths.items()}
                    argv = [] if cli is None else ["--report-dir", paths["cli"]]
                    os.environ.pop("LCC_REPORT_DIR", None)
                    if env is not None:
                        os.environ["LCC_REPORT_DIR"] = paths["env"]
                    proj = _Proj()
                    try:
                        got = create_report_dir(real_parser().parse_args(argv), proj)
                    except Exception as e:
                        got = e
                    if proj.called:
                        out = "(RunStart.DirOutcome.project, RunSeq.Source.project)" if got == "<project>" else "UNEXPECTED_PROJECT_RESULT"
                    else:
                        src = next((k for k in ("cli", "env") if isinstance(got, str) and got == paths[k]), None)
                        if src is not None:
                            fresh = os.path.isdir(got) and not existed[src] and not os.listdir(got)
                            out = "(RunStart.DirOutcome.created, RunSeq.Source.%s)" % src if fresh else \
                                "(RunStart.DirOutcome.REUSED_EXISTING_PATH, RunSeq.Source.%s)" % src
                        else:
                            # no path: which source was it about ? the first truthy one
                            src = "cli" if paths["cli"] else "env"
                            out = "(RunStart.DirOutcome.noDir, RunSeq.Source.%s)" % src
                    rows.append(("(%s, %s)" % (lean_given(cli), lean_given(env)), out,
                                 "--report-dir %r with $LCC_REPORT_DIR=%r -> %s" % (cli, env, out)))
                finally:
                    shutil.rmtree(top, ignore_errors=True)
    finally:
        os.environ.pop("LCC_REPORT_DIR", None)
        if saved is not None:
            os.environ["LCC_REPORT_DIR"] = saved
    return C.Table("reportDirTable", "List ((RunStart.Given × RunStart.Given) × (RunStart.DirOutcome × RunSeq.Source))", rows,
                   ("LccModel.Model.Saving", "LccModel.Model.RunStart"))


def save_option_table():
    """T4: which strategy `lcc run` uses for every combination of `--save-report` (absent, empty, every documented name, the
    deprecated alias, interval spellings, invalid values) and `$LCC_SAVE_REPORT` (same values) — by executing the real argparse
    definitions and the real `get_report_saving_strategy`"""
    rows = []
    for cli in OPTION_VALUES:
        for env in OPTION_VALUES:
            got = real_chosen_strategy(cli, env)
            out = "none" if got == "rejected" else "some (%s)" % strategy_identity(got)[0]
            rows.append(("(%s, %s)" % (lean_opt_str(cli), lean_opt_str(env)), out,
                         "--save-report %r with $LCC_SAVE_REPORT=%r -> %s" % (cli, env, out)))
    return C.Table("saveOptionTable", "List ((Option String × Option String) × Option Strategy)", rows, ("LccModel.Model.Saving",))


# ------------------------------------------------------------------------------------------------
# running event streams through the real writer + file sessions
# ------------------------------------------------------------------------------------------------

def _backends():
    from lemoncheesecake.reporting.backends.json_ import JsonBackend
    from lemoncheesecake.reporting.backends.xml import XmlBackend
    from lemoncheesecake.reporting.backends.junit import JunitBackend

    def counting(base):
        class Counting(base):
            def __init__(self, *a, **kw):
                base.__init__(self, *a, **kw)
                self.saves = 0
                self.save_errors = []        # [(number of completed saves before it, exception class)]

            def save_report(self, filename, report):
                try:
                    base.save_report(self, filename, report)
                except BaseException as e:
                    self.save_errors.append([self.saves, type(e).__name__, str(e)[:120]])
                    raise
                self.saves += 1
        Counting.__name__ = "Counting" + base.__name__
        return Counting
    return {"json": counting(JsonBackend), "xml": counting(XmlBackend), "junit": counting(JunitBackend)}


def make_backend(kind, variant=0):
    cls = _backends()[kind]
    if kind == "json":
        return cls(javascript_compatibility=variant % 2 == 0, pretty_formatting=variant % 4 >= 2)
    return cls()


class FakeClock:
    """stands in for the `time` module inside reporting/backend.py and reporting/savingstrategy.py: the n-th
    call of time() returns seq[n] milliseconds"""

    def __init__(self, seq_ms):
        self.seq, self.n = list(seq_ms), 0

    def time(self):
        v = self.seq[self.n] if self.n < len(self.seq) else (self.seq[-1] if self.seq else 0)
        self.n += 1
        return v / 1000.0


class patched_clock:
    def __init__(self, clock):
        self.clock = clock

    def __enter__(self):
        from lemoncheesecake.reporting import backend as B, savingstrategy as SS
        self.saved = (B.time, SS.time)
        if self.clock is not None:
            B.time = self.clock
            SS.time = self.clock

    def __exit__(self, *a):
        from lemoncheesecake.reporting import backend as B, savingstrategy as SS
        B.time, SS.time = self.saved


def junit_doc(path):
    """the JUnit file has no loader: it must be well-formed XML; → {"junit": canonical element tree} or a classified failure.
    (tag, attributes except the time figures, children; the model side is `Junit.toJunit`)"""
    import xml.etree.ElementTree as ET

    def canon(e):
        return {"tag": e.tag, "attrs": [[k, v] for k, v in e.attrib.items() if k not in ("time", "timestamp")],
                "children": [canon(c) for c in e]}
    try:
        with open(path, "r") as fh:
            root = ET.parse(fh).getroot()
    except Exception as e:      # classified: a file that cannot be parsed is what the property forbids
        return {"error": type(e).__name__, "msg": str(e)[:200]}
    return {"junit": canon(root)}


def load_nf(path):
    """real loader → normal form, or a classified failure"""
    if os.path.basename(path) == "report-junit.xml":
        return junit_doc(path)
    from lemoncheesecake.reporting.loader import load_report
    try:
        rep = load_report(path)
    except Exception as e:  # classified: any failure to load is what the property forbids
        return {"error": type(e).__name__, "msg": str(e)[:200]}
    try:
        return {"nf": R.nf_report(rep)}
    except Exception as e:
        return {"error": "nf:" + type(e).__name__, "msg": str(e)[:200]}


def own_result_status(report, event):
    """(is this the end of a test / setup / teardown?, status of that result in the report) — found by the check's OWN walk
    of the report objects along the node's names (first suite of each name, then the test of that name), independent of
    `savingstrategy._is_end_of_result_event` / `ReportLocation` / `Report.get*` (the code under test)."""
    name = type(event).__name__

    def names(node):
        out = []
        while node is not None:
            out.append(node.name)
            node = node.parent_suite
        return out[::-1]

    def suite_at(path):
        lst, s = report._suites, None
        for n in path:
            s = next((x for x in lst if x.name == n), None)
            if s is None:
                return None
            lst = s._suites
        return s
    res = None
    if name == "TestSessionSetupEndEvent":
        res = report._test_session_setup
    elif name == "TestSessionTeardownEndEvent":
        res = report._test_session_teardown
    elif name in ("SuiteSetupEndEvent", "SuiteTeardownEndEvent"):
        s = suite_at(names(event.suite))
        if s is not None:
            res = s._suite_setup if name == "SuiteSetupEndEvent" else s._suite_teardown
    elif name == "TestEndEvent":
        p = names(event.test)
        s = suite_at(p[:-1])
        if s is not None:
            res = next((t for t in s._tests.values() if t.name == p[-1]), None)
    else:
        return False, None
    return True, (None if res is None else res.status)


class Observer:
    """subscribed LAST: runs on the handler thread after the writer and every file session handled the event"""

    def __init__(self, report, sessions, on_handled=None, infos=None):
        self.report, self.sessions = report, sessions
        self.infos = {}                            # k -> [(name, value)]: `Report.add_info` calls made once event k is handled
        for k, n, v in infos or []:
            self.infos.setdefault(k, []).append((n, v))
        self.k = 0
        self.seen = [0] * len(sessions)
        self.copies = [[] for _ in sessions]       # per session: [(k, load result)]
        self.status_after = {}                     # k -> status of the result at the event's location
        self.on_handled = on_handled

    def __getattr__(self, name):
        if name.startswith("on_"):
            return self._after
        raise AttributeError(name)

    def _after(self, event):
        self.k += 1
        is_end, status = own_result_status(self.report, event)
        if is_end:
            self.status_after[self.k] = status
        for i, (path, be) in enumerate(self.sessions):
            if be.saves != self.seen[i]:
                n_new = be.saves - self.seen[i]
                self.seen[i] = be.saves
                self.copies[i].append((self.k, n_new, load_nf(path)))
        # what a test does through `lcc.add_report_info` between two of its events: a direct mutation of the report, no event
        for n, v in self.infos.get(self.k, ()):
            self.report.add_info(n, v)
        if self.on_handled:
            self.on_handled(self.k)


def run_stream(events, nb_threads, specs, top, clock_seq=None, async_mgr=True, pace=None, on_handled=None, observe=True,
               infos=None, title=None):
    """specs: [(backend kind, variant, strategy expression)] → observation dict.  The report, the writer and the
    sessions are wired exactly like `Session.create` does (writer first, then one session per backend)."""
    from lemoncheesecake.reporting.report import Report
    from lemoncheesecake.reporting.writer import ReportWriter
    from lemoncheesecake.reporting.savingstrategy import make_report_saving_strategy
    from lemoncheesecake.events import AsyncEventManager, SyncEventManager
    clock = FakeClock(clock_seq) if clock_seq is not None else None
    with patched_clock(clock):
        report = Report()
        report.nb_threads = nb_threads
        if title is not None:
            report.title = title                    # `Project.build_report_title()`, set by `lcc run` before the session exists
        for k, n, v in infos or []:
            if k == 0:
                report.add_info(n, v)               # `Project.build_report_info()`: before the first event
        em = (AsyncEventManager if async_mgr else SyncEventManager).load()
        em.add_listener(ReportWriter(report))
        sessions = []
        for i, (kind, variant, expr) in enumerate(specs):
            d = os.path.join(top, "s%d" % i)
            os.makedirs(d, exist_ok=True)
            be = make_backend(kind, variant)
            sess = be.create_reporting_session(d, report, nb_threads > 1, make_report_saving_strategy(expr))
            em.add_listener(sess)
            sessions.append((sess.path, be))
        obs = Observer(report, sessions if observe else [], on_handled, infos=[x for x in (infos or []) if x[0] > 0])
        em.add_listener(obs)
        real = [R.build_event(e, report) for e in events]
        failure = None
        if async_mgr:
            with em.handle_events():
                for ev in real:
                    em.fire(ev)
                    if pace:
                        pace()
            exc, _ = em.get_pending_failure()
            if exc is not None:
                failure = type(exc).__name__
        else:
            try:
                for ev in real:
                    em.fire(ev)
            except Exception as e:
                failure = type(e).__name__
        out = {"handled": obs.k, "failure": failure, "sessions": []}
        if not observe:
            return out
        for i, (path, be) in enumerate(sessions):
            fin = load_nf(path) if os.path.exists(path) else None
            out["sessions"].append({"spec": list(specs[i]), "saves": be.saves, "save_errors": be.save_errors,
                                    "copies": [{"k": k, "n": n, "load": l} for k, n, l in obs.copies[i]], "final": fin,
                                    "stray": sorted(f for f in os.listdir(os.path.dirname(path))
                                                    if f != os.path.basename(path))})
        out["status_after"] = {str(k): v for k, v in obs.status_after.items()}
        out["final_report"] = R.nf_report(report)
        return out


# ------------------------------------------------------------------------------------------------
# the oracle's own prefix relation, on normal forms (rank-sorted views as every reader sees them;
# children matched by name, order preserved)
# ------------------------------------------------------------------------------------------------

def nf_prefix(a, b):
    """-> list of reasons why `a` is NOT a prefix of `b` (empty: it is)"""
    why = []

    def step(x, y, at):
        if x["end"] is not None:
            if x != y:
                why.append(at + ": ended step changed")
            return
        if x["desc"] != y["desc"] or x["start"] != y["start"]:
            why.append(at + ": open step header changed")
        if y["entries"][:len(x["entries"])] != x["entries"]:
            why.append(at + ": entries of an open step not extended at the end")

    def result(x, y, at):
        if x is None:
            return
        if y is None:
            why.append(at + ": result disappeared")
            return
        if x["end"] is not None or x["status"] is not None:
            if x != y:
                why.append(at + ": finished result changed")
            return
        if x["start"] != y["start"] or x["details"] != y["details"]:
            why.append(at + ": unfinished result header changed")
        if len(y["steps"]) < len(x["steps"]):
            why.append(at + ": steps lost")
            return
        for i, st in enumerate(x["steps"]):
            step(st, y["steps"][i], "%s/step%d" % (at, i))

    def embed(xs, ys, key, rec, at):
        j = 0
        for x in xs:
            while j < len(ys) and key(ys[j]) != key(x):
                j += 1
            if j == len(ys):
                why.append("%s: %r missing or out of order" % (at, key(x)))
                return
            rec(x, ys[j], "%s/%s" % (at, key(x)))
            j += 1

    def test(x, y, at):
        if x["md"] != y["md"]:
            why.append(at + ": test metadata changed")
        result(x["res"], y["res"], at)

    def suite(x, y, at):
        if x["md"] != y["md"] or x["start"] != y["start"]:
            why.append(at + ": suite header changed")
        if x["end"] is not None:
            if x != y:
                why.append(at + ": ended suite changed")
            return
        result(x["setup"], y["setup"], at + "/setup")
        result(x["teardown"], y["teardown"], at + "/teardown")
        embed(x["tests"], y["tests"], lambda t: t["md"]["name"], test, at)
        embed(x["suites"], y["suites"], lambda s: s["md"]["name"], suite, at)

    for k in ("title", "nb_threads"):
        if a[k] != b[k]:
            why.append("report %s changed" % k)
    # the information lines the earlier report shows are the first lines of the later one: same names, same values, same order
    # (`lcc.add_report_info` during the run may only ADD lines)
    if list(b["info"][:len(a["info"])]) != list(a["info"]):
        why.append("report info lines changed: %r is not the beginning of %r" % (a["info"], b["info"]))
    if a["end"] is not None:
        if a != b:
            why.append("report of an ended session changed")
        return why
    if a["start"] is not None and a["start"] != b["start"]:
        why.append("report start time changed")
    result(a["setup"], b["setup"], "session-setup")
    result(a["teardown"], b["teardown"], "session-teardown")
    embed(a["suites"], b["suites"], lambda s: s["md"]["name"], suite, "")
    return why


def sibling_names_unique(nf):
    def suites(ss):
        names = [s["md"]["name"] for s in ss]
        if len(set(names)) != len(names):
            return False
        for s in ss:
            tn = [t["md"]["name"] for t in s["tests"]]
            if len(set(tn)) != len(tn) or not suites(s["suites"]):
                return False
        return True
    return suites(nf["suites"])


# ------------------------------------------------------------------------------------------------
# stream generators
# ------------------------------------------------------------------------------------------------

def interleaved_events(rep, rng, parallel, overlap_p=0.3):
    """A well-formed stream whose aggregation is `rep`.  With `parallel` the tests and sub-suites of a suite are
    run by different workers (distinct thread ids) and their events are merged in a random order — what a
    multi-threaded run delivers to the handler thread."""
    tid_counter = [0]

    def new_tid():
        tid_counter[0] += 1
        return tid_counter[0]

    def steps(loc, res, tid):
        # OVERLAPPING WORKERS inside one result (`lcc.Thread`s started by a test / setup / teardown, each logging into a step of its
        # own): every step gets a thread id of its own and the steps' events are merged, each step's own order kept — a step that
        # started first may end first or last, other threads' logs (hence saves) fall between two ends
        overlap = len(res["steps"]) >= 2 and rng.random() < overlap_p
        blocks = []
        for st in res["steps"]:
            stid = new_tid() if overlap else tid
            ev = [{"e": "stepStart", "loc": loc, "desc": st["desc"], "tid": stid, "t": st["start"] or 1}]
            for e in st["entries"]:
                x = dict(e)
                x["e"] = x.pop("k")
                x.update({"loc": loc, "step": st["desc"], "tid": stid, "t": e["t"] or 1})
                ev.append(x)
            if st["end"]:
                ev.append({"e": "stepEnd", "loc": loc, "desc": st["desc"], "tid": stid, "t": st["end"]})
            blocks.append(ev)
        if not overlap:
            return [e for b in blocks for e in b]
        out = []
        # the workers are started one after the other (the steps keep their order in the report), then run concurrently
        started = [b.pop(0) for b in blocks]
        k = rng.randint(1, len(started))
        out += started[:k]
        pending = [b for b in blocks[:k] if b]
        later = list(zip(started[k:], blocks[k:]))
        while pending or later:
            if later and (not pending or rng.random() < 0.3):
                st0, b = later.pop(0)
                out.append(st0)
                if b:
                    pending.append(b)
                continue
            b = rng.choice(pending)
            n = rng.randint(1, 2)
            out += b[:n]
            del b[:n]
            pending = [x for x in pending if x]
        return out

    def phase(kind, path, res, tid):
        if res is None:
            return []
        names = {"ssetup": "sessionSetup", "steardown": "sessionTeardown", "setup": "suiteSetup", "teardown": "suiteTeardown"}
        base = {"path": list(path)} if path is not None else {}
        ev = [dict(base, e=names[kind] + "Start", t=res["start"] or 1)]
        ev += steps(R.loc_of(kind, path), res, tid)
        if res["end"]:
            ev.append(dict(base, e=names[kind] + "End", t=res["end"]))
        return ev

    def merge(blocks):
        if not parallel:
            return [e for b in blocks for e in b]
        blocks = [list(b) for b in blocks if b]
        out = []
        while blocks:
            b = rng.choice(blocks)
            n = rng.randint(1, 3)
            out += b[:n]
            del b[:n]
            blocks = [x for x in blocks if x]
        return out

    def suite(path, s, tid):
        p = path + [s["md"]["name"]]
        ev = [{"e": "suiteStart", "path": p, "md": s["md"], "t": s["start"] or 1}]
        ev += phase("setup", p, s["setup"], tid)
        blocks = []
        for t in s["tests"]:
            tp = p + [t["md"]["name"]]
            r = t["res"]
            wt = new_tid() if parallel else tid
            if r["status"] in ("skipped", "disabled") and not r["steps"]:
                blocks.append([{"e": "testSkipped" if r["status"] == "skipped" else "testDisabled", "path": tp,
                                "md": t["md"], "reason": r["details"], "t": r["start"] or 1}])
            else:
                b = [{"e": "testStart", "path": tp, "md": t["md"], "t": r["start"] or 1}]
                b += steps(R.loc_of("test", tp), r, wt)
                if r["end"]:
                    b.append({"e": "testEnd", "path": tp, "t": r["end"]})
                blocks.append(b)
        for sub in s["suites"]:
            blocks.append(suite(p, sub, new_tid() if parallel else tid))
        ev += merge(blocks)
        ev += phase("teardown", p, s["teardown"], tid)
        if s["end"]:
            ev.append({"e": "suiteEnd", "path": p, "t": s["end"]})
        return ev

    main = new_tid()
    ev = [{"e": "sessionStart", "t": rep["start"] or 1}]
    ev += phase("ssetup", None, rep["setup"], main)
    ev += merge([suite([], s, new_tid() if parallel else main) for s in rep["suites"]])
    ev += phase("steardown", None, rep["teardown"], main)
    if rep["end"]:
        ev.append({"e": "sessionEnd", "t": rep["end"]})
    return ev


def text_profile(events):
    """which text classes the strings of an event stream hold (decides what the XML format can carry, see C09 / D8)"""
    out = set()

    def visit(x):
        if isinstance(x, str):
            for ch in x:
                c = ord(ch)
                if 0xD800 <= c <= 0xDFFF:
                    out.add("lone-surrogate")
                elif (c < 0x20 and ch not in "\t\n\r") or c in (0xFFFE, 0xFFFF):
                    out.add("non-xml-char")
                elif c > 0x7F:
                    out.add("non-ascii")
        elif isinstance(x, dict):
            for k, v in x.items():
                if k not in ("e", "k", "level"):
                    visit(v)
        elif isinstance(x, list):
            for v in x:
                visit(v)
    visit(events)
    return sorted(out)


def gen_stream(rng, max_depth=3, mode=None, unfinished=0.2):
    mode = mode or rng.choice(["plain", "plain", "safe"])
    rep = R.gen_report(rng, mode, max_depth=max_depth, unfinished=unfinished)
    rep = R.strip_private(rep)
    parallel = rng.random() < 0.5
    nb = rng.choice([2, 3, 4]) if parallel else 1
    return interleaved_events(rep, rng, parallel), nb


def mutate_stream(events, rng):
    """an ill-formed variant (what a broken runner could emit); returns (events, label)"""
    ev = copy.deepcopy(events)
    kind = rng.choice(["restart-test", "late-log", "dup-event", "drop-event", "double-end", "restart-suite"])
    idx = [i for i, e in enumerate(ev) if e["e"] == {"restart-test": "testEnd", "late-log": "stepEnd", "double-end": "testEnd",
                                                     "restart-suite": "suiteEnd"}.get(kind, e["e"])]
    if not idx:
        return ev, "none"
    i = rng.choice(idx)
    if kind == "restart-test":
        starts = [e for e in ev[:i] if e["e"] == "testStart" and e["path"] == ev[i]["path"]]
        if not starts:
            return ev, "none"
        ev.insert(rng.randint(i + 1, len(ev)), dict(starts[0], t=ev[i]["t"] + 1))
    elif kind == "late-log":
        ev.insert(i + 1, {"e": "log", "loc": ev[i]["loc"], "step": ev[i]["desc"], "tid": ev[i]["tid"], "level": "error",
                          "msg": "late", "t": ev[i]["t"]})
    elif kind == "dup-event":
        ev.insert(i, copy.deepcopy(ev[i]))
    elif kind == "drop-event":
        del ev[i]
    elif kind == "double-end":
        ev.insert(rng.randint(i + 1, len(ev)), dict(ev[i], t=ev[i]["t"] + 7))
    elif kind == "restart-suite":
        starts = [e for e in ev[:i] if e["e"] == "suiteStart" and e["path"] == ev[i]["path"]]
        if not starts:
            return ev, "none"
        ev.insert(i + 1, dict(starts[0], t=ev[i]["t"] + 1))
    return ev, kind


# real runs --------------------------------------------------------------------------------------

REAL_WILD = ["plain", "non-ascii", "astral", "surrogate", "surrogate", "c0", "cr", "empty", "markup", "quote", "lf", "fffe"]


def thread_name_features(spec):
    """which names the `lcc.Thread` workers of the declared tests carry"""
    out = set()

    def visit(su):
        for acts in [t["acts"] for t in su["tests"]] + [su["setup"] or [], su["teardown"] or []]:
            for a in acts:
                if a[0] == "threads":
                    names = a[4] if len(a) > 4 else None
                    out.add("real-run:lcc.Thread-names=%s" % ("default" if not names else "SAME-for-both-workers" if names[0] == names[1]
                                                              else "distinct"))
        for sub in su["subs"]:
            visit(sub)
    for su in spec["suites"]:
        visit(su)
    return sorted(out)


def gen_real_spec(rng, texts="plain"):
    """texts: what the log messages / step names passed to the REAL logging API hold ("plain" | "safe" | "wild");
    a third of the tests and suites get an explicit `name=` (dotted, dashed, …: `gen.reports.gen_node_name`)"""
    with_info = texts != "wild" and rng.random() < 0.5
    used = []

    def text(plain):
        if texts == "plain" or rng.random() < 0.5:
            return plain
        cls = rng.choice(REAL_WILD if texts == "wild" else ["non-ascii", "astral", "markup", "quote", "lf", "plain"])
        return R.gen_string(rng, cls) or plain if cls != "empty" else ""

    def acts():
        out = []
        for _ in range(rng.randint(0, 4)):
            r = rng.random()
            if r < 0.25:
                out.append(["step", text("step %d" % rng.randint(0, 5)) or "step"])
            elif r < 0.6:
                out.append(["log", rng.choice(["debug", "info", "warn", "error", "info", "info"]), text("m%d" % rng.randint(0, 99))])
            elif r < 0.85:
                out.append(["check", rng.random() < 0.75])
            elif r < 0.93:
                out.append(["url", "http://x/%d" % rng.randint(0, 9)])
            else:
                out.append(["raise"])
        if rng.random() < 0.3:
            # two overlapping `lcc.Thread` workers, both logging (each owns a step), the main thread logging meanwhile
            # THREAD NAMES are the user's: none (Thread-N), two different ones, or the SAME name for both workers
            out.insert(rng.randint(0, len(out)), ["threads", [text("a%d" % i) or "a" for i in range(rng.randint(1, 3))],
                                                  [text("b%d" % i) or "b" for i in range(rng.randint(1, 3))], rng.random() < 0.7,
                                                  rng.choice([None, ["worker", "worker"], ["worker", "worker"], ["w-a", "w-b"]])])
        if with_info and rng.random() < 0.45:
            # the test publishes a report information (few names: reused with other values by other tests)
            out.insert(rng.randint(0, len(out)), ["info", rng.choice(INFO_NAMES), text("v%d" % rng.randint(0, 99)) or "v"])
            used.append(1)
        return out

    def suite(name, depth):
        tests = []
        for i in range(rng.choice([1, 2, 2, 3, 4])):
            mode = rng.choice(["run"] * 6 + ["disabled", "dep"])
            if mode == "dep" and not (tests and tests[-1]["mode"] == "run"):
                mode = "run"
            tests.append({"name": "%s_t%d" % (name, i), "acts": acts(), "mode": mode})
        # declared names (`@lcc.test(name=…)`): never on a test another one depends on (depends_on takes a dotted PATH)
        for i, t in enumerate(tests):
            nxt = tests[i + 1]["mode"] if i + 1 < len(tests) else None
            if nxt != "dep" and rng.random() < 0.35:
                t["dname"] = "%s %d" % (R.gen_node_name(rng, rng.choice(["dotted", "dotted", "dash", "punct"]), ascii_only=texts == "plain"), i)
        subs = [suite("%s_s%d" % (name, i), depth + 1) for i in range(rng.choice([0, 0, 1, 2]) if depth < 2 else 0)]
        out = {"name": name, "tests": tests, "subs": subs, "setup": rng.choice([None, None, acts()]),
               "teardown": rng.choice([None, None, acts()])}
        def has_dep(x):
            return any(t["mode"] == "dep" for t in x["tests"]) or any(has_dep(y) for y in x["subs"])
        if rng.random() < 0.3 and not has_dep(out):
            out["dname"] = "%s.%s" % (name, rng.choice(["v1.2", "x", "0"]))
        return out
    spec = {"suites": [suite("top%d" % i, 1) for i in range(rng.choice([1, 1, 2]))], "nb_threads": rng.choice([1, 1, 2, 3])}
    if used:
        spec["has_info"] = True
    return spec


def _build_real_suites(spec):
    import lemoncheesecake.api as lcc
    from lemoncheesecake.suite.loader import load_suites_from_classes
    from lemoncheesecake.matching import check_that, equal_to

    def body(acts):
        def run():
            for a in acts:
                if a[0] == "step":
                    lcc.set_step(a[1])
                elif a[0] == "log":
                    getattr(lcc, "log_" + ("warning" if a[1] == "warn" else a[1]))(a[2])
                elif a[0] == "check":
                    check_that("value", 1, equal_to(1 if a[1] else 2))
                elif a[0] == "url":
                    lcc.log_url(a[1], "a url")
                elif a[0] == "info":
                    lcc.add_report_info(a[1], a[2])
                elif a[0] == "threads":
                    import time as _t
                    def worker(msgs, pause):
                        for m in msgs:
                            lcc.log_info(m)
                            _t.sleep(pause)
                    names = a[4] if len(a) > 4 and a[4] else [None, None]
                    ta = lcc.Thread(target=worker, args=(a[1], 0.001), name=names[0])
                    tb = lcc.Thread(target=worker, args=(a[2], 0.004), name=names[1])
                    ta.start()
                    tb.start()
                    if a[3]:
                        _t.sleep(0.002)
                        lcc.log_info("main thread goes on")
                    ta.join()
                    tb.join()
                elif a[0] == "raise":
                    raise RuntimeError("generated failure")
        return run

    def cls(s, prefix):
        ns = {}
        path = prefix + [s.get("dname") or s["name"]]
        prev = None
        for t in s["tests"]:
            f = (lambda b: (lambda self: b()))(body(t["acts"]))
            f.__name__ = t["name"]
            f = lcc.test("desc of " + t["name"], name=t.get("dname"))(f)
            if t["mode"] == "disabled":
                f = lcc.disabled("generated reason")(f)
            elif t["mode"] == "dep" and prev is not None:
                f = lcc.depends_on(".".join(path + [prev]))(f)     # skipped when the previous test failed
            ns[t["name"]] = f
            prev = t["name"]
        if s["setup"] is not None:
            ns["setup_suite"] = (lambda b: (lambda self: b()))(body(s["setup"]))
        if s["teardown"] is not None:
            ns["teardown_suite"] = (lambda b: (lambda self: b()))(body(s["teardown"]))
        for sub in s["subs"]:
            ns[sub["name"]] = cls(sub, path)
        c = type(s["name"], (object,), ns)
        return lcc.suite("desc of " + s["name"], name=s.get("dname"))(c)
    return load_suites_from_classes([cls(s, []) for s in spec["suites"]])


def run_real(spec, specs, top):
    """a REAL run (runner.run_suites, worker pool, AsyncEventManager) of generated suites with one file session
    per (backend, strategy); returns (recorded events in handler order, observation)"""
    from lemoncheesecake import runner
    from lemoncheesecake.events import AsyncEventManager
    from lemoncheesecake.session import Session
    from lemoncheesecake.fixture import FixtureRegistry
    from lemoncheesecake.suite import resolve_tests_dependencies
    from lemoncheesecake.reporting.savingstrategy import make_report_saving_strategy
    suites = _build_real_suites(spec)
    resolve_tests_dependencies(suites, suites)
    nb = spec["nb_threads"]
    em = AsyncEventManager.load()
    session = Session.create(em, [], top, None, nb_threads=nb)
    report = session.report
    sessions = []
    for i, (kind, variant, expr) in enumerate(specs):
        d = os.path.join(top, "s%d" % i)
        os.makedirs(d, exist_ok=True)
        be = make_backend(kind, variant)
        sess = be.create_reporting_session(d, report, nb > 1, make_report_saving_strategy(expr))
        em.add_listener(sess)
        sessions.append((sess.path, be))
    recorded = []

    from lemoncheesecake.reporting.report import format_time_as_iso8601, parse_iso8601_time

    class Rec(Observer):
        def _after(self, event):
            ce = R.canon_event(event)
            # wall-clock stamps are not multiples of a millisecond: the model gets the value the serialiser writes
            # (`round(ts, 3)` + ISO text; float rounding is C09.time's subject, not this property's)
            ce["t"] = R._ms(parse_iso8601_time(format_time_as_iso8601(event.time)))
            recorded.append(ce)
            Observer._after(self, event)
    obs = Rec(report, sessions)
    em.add_listener(obs)
    failure = None
    try:
        runner.run_suites(suites, FixtureRegistry(), session, nb_threads=nb)
    except Exception as e:
        failure = type(e).__name__
    out = {"handled": obs.k, "failure": failure, "sessions": []}
    for i, (path, be) in enumerate(sessions):
        fin = load_nf(path) if os.path.exists(path) else None
        out["sessions"].append({"spec": list(specs[i]), "saves": be.saves, "save_errors": be.save_errors,
                                "copies": [{"k": k, "n": n, "load": l} for k, n, l in obs.copies[i]], "final": fin,
                                "stray": sorted(f for f in os.listdir(os.path.dirname(path)) if f != os.path.basename(path))})
    out["status_after"] = {str(k): v for k, v in obs.status_after.items()}
    # the final report of a real run is compared as it is saved (millisecond text), see above
    fin0 = next((x["final"] for x in out["sessions"] if x["final"] and "nf" in x["final"]), None)
    if not fin0:
        # no json / xml session attached (junit only): the same millisecond text is obtained by saving the final in-memory report
        # once through the JSON backend (`round(ts, 3)` + ISO text, like the recorded event times above) — comparing
        # `int(round(ts * 1000))` of the floats instead was off by 1 ms on some wall-clock stamps (a false alarm of the harness)
        from lemoncheesecake.reporting.backends.json_ import JsonBackend
        try:
            scratch = os.path.join(top, "final-report.js")
            JsonBackend().save_report(scratch, report)
            fin0 = load_nf(scratch)
            os.unlink(scratch)
        except Exception:
            fin0 = None
    out["final_report"] = fin0["nf"] if fin0 and "nf" in fin0 else R.nf_report(report)
    return recorded, out


# ------------------------------------------------------------------------------------------------
# C10.snap
# ------------------------------------------------------------------------------------------------

def _mid_test(events, k):
    """after the first k events, is some test started and not ended?"""
    open_tests = set()
    for e in events[:k]:
        if e["e"] == "testStart":
            open_tests.add(tuple(e["path"]))
        elif e["e"] == "testEnd":
            open_tests.discard(tuple(e["path"]))
    return bool(open_tests)


def _results_in(events):
    return sum(1 for e in events if e["e"] in ("testStart", "testSkipped", "testDisabled", "suiteSetupStart",
                                                "suiteTeardownStart", "sessionSetupStart", "sessionTeardownStart"))


def promised_points(expr, events, status_after):
    """indices (1-based count of handled events) at which the property promises a refreshed file — computed from
    the input stream and the real report's statuses only"""
    pts = []
    for i, e in enumerate(events):
        k = i + 1
        if expr in ("at_each_log", "at_each_event") and e["e"] in STEPPED:
            pts.append(k)
        elif expr == "at_each_test" and e["e"] in END_OF_RESULT:
            pts.append(k)
        elif expr == "at_each_failed_test" and e["e"] in END_OF_RESULT and status_after.get(str(k)) == "failed":
            pts.append(k)
        elif expr == "at_each_suite" and e["e"] == "suiteEnd":
            pts.append(k)
        if e["e"] == "sessionEnd":
            pts.append(k)
    return sorted(set(pts))


def _corpus_events():
    t0 = 1_600_000_000_000
    loc_a, loc_b = {"k": "test", "path": ["s", "a"]}, {"k": "test", "path": ["s", "b"]}
    ev = [
        {"e": "sessionStart"}, {"e": "suiteStart", "path": ["s"], "md": _md("s")},
        {"e": "testStart", "path": ["s", "a"], "md": _md("a")},
        {"e": "stepStart", "loc": loc_a, "desc": "st", "tid": 1},
        {"e": "check", "loc": loc_a, "step": "st", "tid": 1, "desc": "c", "ok": False, "details": "1 is not 2"},
        {"e": "stepEnd", "loc": loc_a, "desc": "st", "tid": 1},
        {"e": "testEnd", "path": ["s", "a"]},
        {"e": "testStart", "path": ["s", "b"], "md": _md("b", 1)},
        {"e": "stepStart", "loc": loc_b, "desc": "st", "tid": 1},
        {"e": "log", "loc": loc_b, "step": "st", "tid": 1, "level": "info", "msg": "hello"},
        {"e": "stepEnd", "loc": loc_b, "desc": "st", "tid": 1},
        {"e": "testEnd", "path": ["s", "b"]},
        {"e": "testSkipped", "path": ["s", "c"], "md": _md("c", 2), "reason": "because"},
        {"e": "suiteTeardownStart", "path": ["s"]},
        {"e": "stepStart", "loc": {"k": "teardown", "path": ["s"]}, "desc": "td", "tid": 1},
        {"e": "log", "loc": {"k": "teardown", "path": ["s"]}, "step": "td", "tid": 1, "level": "warn", "msg": "bye"},
    ]
    for i, e in enumerate(ev):
        e["t"] = t0 + 10 * i
    return ev


_CORPUS_EVENTS = _corpus_events()


def _overlap_events():
    """`Props/C10Overlap.lean: overlapDemo`: a test whose main thread (1) and two workers (2, 3) each have a step open; worker 2,
    started first, ends first; the main thread logs (a save under at_each_log) before worker 3 ends"""
    t0, la = 1_600_000_000_000, {"k": "test", "path": ["s", "a"]}
    ev = [{"e": "sessionStart"}, {"e": "suiteStart", "path": ["s"], "md": _md("s")},
          {"e": "testStart", "path": ["s", "a"], "md": _md("a")},
          {"e": "stepStart", "loc": la, "desc": "main", "tid": 1}, {"e": "stepStart", "loc": la, "desc": "A", "tid": 2},
          {"e": "log", "loc": la, "step": "A", "tid": 2, "level": "info", "msg": "from A"},
          {"e": "stepStart", "loc": la, "desc": "B", "tid": 3},
          {"e": "log", "loc": la, "step": "B", "tid": 3, "level": "info", "msg": "from B"},
          {"e": "stepEnd", "loc": la, "desc": "A", "tid": 2},
          {"e": "log", "loc": la, "step": "main", "tid": 1, "level": "info", "msg": "main goes on"},
          {"e": "stepEnd", "loc": la, "desc": "B", "tid": 3}, {"e": "stepEnd", "loc": la, "desc": "main", "tid": 1},
          {"e": "testEnd", "path": ["s", "a"]}, {"e": "suiteEnd", "path": ["s"]}, {"e": "sessionEnd"}]
    for i, e in enumerate(ev):
        e["t"] = t0 + 10 * i
    return ev


def _intern(obs):
    """the same normal form is loaded many times (json and xml, several strategies saving at the same event):
    keep each distinct one once (`obs["nfs"]`) and refer to it by index — keeps replays and evidence small"""
    table, index = [], {}

    def put(load):
        if load and "nf" in load:
            key = json.dumps(load["nf"], sort_keys=True)
            if key not in index:
                index[key] = len(table)
                table.append(load["nf"])
            return {"nf": index[key]}
        return load
    for sess in list(obs["sessions"]) + ([obs["every"]] if "every" in obs else []) + ([obs["xml_run"]["session"]] if "xml_run" in obs else []):
        for c in sess["copies"]:
            c["load"] = put(c["load"])
        sess["final"] = put(sess["final"])
    obs["nfs"] = table
    return obs


def _nf(obs, load):
    return obs["nfs"][load["nf"]]


def save_raised_signature(kind, cls, profile, locale="utf8"):
    """a save that raised: the classes that are the XML format's known text limits (C09 / D8, seen from C10) have their own
    signatures; everything else is `C10/save-raised/<backend>/<exception class>`"""
    if kind in ("xml", "junit") and cls == "UnicodeEncodeError":       # both write ElementTree text raw to a locale-encoded file
        if "lone-surrogate" in profile:
            return "C10/xml-text-limit/lone-surrogate-save-raises"
        if locale != "utf8" and "non-ascii" in profile:
            return "C10/xml-text-limit/non-ascii-under-%s-locale" % locale
    return "C10/save-raised/%s/%s" % (kind, cls)


def check_sessions(events, handled, failure, sessions, status_after, final_report, nf_of, locale="utf8", real=False):
    """C10 on the observation of one run of the handler loop (a well-formed stream): every saved file loads and is a prefix of
    the final report, a save was seen after every promised event and at the end of the session, no save raised.
    `nf_of(load)` gives the normal form of a loaded snapshot.  Never calls the model."""
    fails = []
    profile = text_profile(events)
    stopped = failure is not None or handled != len(events)
    if stopped:
        raised = [(s, e) for s in sessions for e in s.get("save_errors", [])]
        if not raised and real:
            # the stream is what a REAL run fired (nothing of it is the harness's making) and a handler other than a save raised on
            # the event-handling thread: the loop is dead — no file is refreshed from here on, nothing is saved at the end of the run
            fails.append(C.Failure("C10/event-loop-stopped/%s" % failure,
                                   "a report handler raised %s while handling event %d of a real run (%d events went through): event handling stops "
                                   "for every backend — the report files are not refreshed any more and not saved at the end of the run"
                                   % (failure, handled + 1, len(events))))
        elif not raised:
            # a well-formed GENERATED stream made a handler other than a save raise: not this property's business (C07/C11) — but
            # the check must not silently lose it: classified as not observable
            raise RuntimeError("handler raised %s after %d/%d events of a well-formed stream" % (failure, handled, len(events)))
        for s, (n_before, cls, msg) in raised:
            kind, _, expr = s["spec"]
            # the consequence on the OTHER backends attached to the same loop: their files are frozen from here on
            frozen = []
            for o in sessions:
                okind, _, oexpr = o["spec"]
                if okind == kind or oexpr.startswith("every"):
                    continue
                got = [c["k"] for c in o["copies"]]
                lost = [k for k in promised_points(oexpr, events, status_after) if k not in got]
                if lost:
                    frozen.append("%s/%s misses %d promised refresh(es)%s" % (
                        okind, oexpr, len(lost), " incl. the save at the end of the run" if events[lost[-1] - 1]["e"] == "sessionEnd" else ""))
            fails.append(C.Failure(save_raised_signature(kind, cls, profile, locale),
                                   "%s/%s: save #%d raised %s (%s) while handling event %d of %d: the file is not refreshed, event "
                                   "handling stops for every backend, nothing is saved at the end of the run%s"
                                   % (kind, expr, n_before + 1, cls, msg, handled + 1, len(events),
                                      ("; stale files of the other backends: " + "; ".join(frozen[:4])) if frozen else "")))
            for o in sessions:
                if o["spec"][0] != kind and any(f.startswith("%s/%s " % (o["spec"][0], o["spec"][2])) for f in frozen):
                    sig = "C10/stale-after-raising-save/%s-stopped-by-%s" % (o["spec"][0], kind)
                    if not any(f.signature == sig for f in fails):
                        fails.append(C.Failure(sig, "a raising %s save (%s) stopped the event loop: %s" % (kind, cls, "; ".join(
                            f for f in frozen if f.startswith(o["spec"][0] + "/"))[:300])))
    for s in sessions:
        kind, _, expr = s["spec"]
        final = s["final"]
        tag = "%s/%s" % (kind, expr.replace("at_each_event", "at_each_log") if not expr.startswith("every") else "every_Ns")
        for c in s["copies"]:
            if "error" in c["load"]:
                sig = "C10/snapshot/unloadable/" + kind
                if kind in ("xml", "junit") and "non-xml-char" in profile:
                    sig = "C10/xml-text-limit/non-xml-char-unloadable"
                fails.append(C.Failure(sig, "%s: the file saved after event %d does not load: %s" % (tag, c["k"], c["load"])))
                continue
            # prefix of the final report: the last file (normal form) or, without one, the real in-memory report at the end
            ref_final = nf_of(final) if final is not None and "nf" in final else final_report
            why = nf_prefix(nf_of(c["load"]), ref_final) if ref_final is not None and "nf" in c["load"] else []
            if why:
                fails.append(C.Failure("C10/snapshot/not-prefix/" + kind,
                                       "%s: the file saved after event %d is not a prefix of the final report: %s"
                                       % (tag, c["k"], why[:3])))
            if c["n"] != 1:
                fails.append(C.Failure("C10/save/several-per-event", "%s: %d saves while handling event %d" % (tag, c["n"], c["k"])))
        if s.get("stray"):
            fails.append(C.Failure("C10/stray-files", "%s: files left beside the report: %s" % (tag, s["stray"])))
        if stopped:
            continue        # the root cause is reported above; what was not refreshed afterwards follows from it
        got = [c["k"] for c in s["copies"]]
        if not expr.startswith("every"):
            for k in promised_points(expr, events, status_after):
                if k not in got:
                    what = "final-save-missing" if events[k - 1]["e"] == "sessionEnd" else "missed-save"
                    fails.append(C.Failure("C10/strategy/%s/%s" % (expr.replace("at_each_event", "at_each_log"), what),
                                           "%s: no save after event %d (%s)" % (tag, k, events[k - 1]["e"])))
        elif events and events[-1]["e"] == "sessionEnd" and len(events) not in got:
            fails.append(C.Failure("C10/strategy/every_Ns/final-save-missing", "%s: no save at the end of the session" % tag))
        if got and final is not None and "nf" in final and "nf" in s["copies"][-1]["load"] \
                and nf_of(final) != nf_of(s["copies"][-1]["load"]):
            fails.append(C.Failure("C10/file-changed-without-save", "%s: file differs from the last observed save" % tag))
        if got and final is not None and "junit" in final and final.get("junit") != s["copies"][-1]["load"].get("junit"):
            fails.append(C.Failure("C10/file-changed-without-save", "%s: file differs from the last observed save" % tag))
    return fails


INFO_NAMES = ["build", "target", "campaign"]


def gen_infos(rng, events, texts="plain"):
    """`Report.add_info` calls around the stream: [[k, name, value]], k = number of events handled when the call is made
    (0 = before the run, like `Project.build_report_info()`; never after the end of the session).  Few names, so that a
    name is often published twice with different values."""
    last = len(events) - 1 if events and events[-1]["e"] == "sessionEnd" else len(events)
    if last < 1:
        return []
    out = []
    for _ in range(rng.choice([1, 2, 2, 3, 4])):
        k = rng.choice([0, rng.randint(1, last), rng.randint(1, last)])
        name = rng.choice(INFO_NAMES)
        value = "v%d" % rng.randint(0, 99)
        if texts == "safe" and rng.random() < 0.4:
            value += " caf\u00e9"
        elif texts == "wild" and rng.random() < 0.5:
            value = R.gen_string(rng, rng.choice(REAL_WILD))
        out.append([k, name, value])
    out.sort(key=lambda x: x[0])
    return out


def info_features(infos, copies_k):
    """copies_k: the event counts at which some file was saved"""
    f = []
    if not infos:
        return f
    f.append("info-published-during-run" if any(k > 0 for k, _, _ in infos) else "info-before-run-only")
    seen = {}
    for k, n, v in infos:
        if n in seen and seen[n][1] != v:
            f.append("info-name-reused-with-other-value")
            # a file was saved between the two calls: it shows the first value
            if any(seen[n][0] < c <= k for c in copies_k):
                f.append("info-name-reused-AFTER-a-save-showing-the-first-value")
        seen[n] = (k, v)
    return f


def overlap_features(events, copies_k):
    """steps of several threads open at the same time inside ONE result; the one started first ending first; a save between
    the two ends"""
    f = set()
    open_steps = {}        # loc key -> [(tid, k of start)]
    waiting = []           # (loc key, tid of the later-started step still open, k of the earlier step's end)
    for k, e in enumerate(events, 1):
        if e["e"] == "stepStart":
            key = json.dumps(e["loc"], sort_keys=True)
            lst = open_steps.setdefault(key, [])
            if lst:
                f.add("overlapping-steps-in-one-result")
            lst.append((e["tid"], k))
        elif e["e"] == "stepEnd":
            key = json.dumps(e["loc"], sort_keys=True)
            lst = open_steps.get(key, [])
            mine = [x for x in lst if x[0] == e["tid"]]
            if not mine:
                continue
            for w in [w for w in waiting if w[0] == key and w[1] == e["tid"]]:
                waiting.remove(w)
                if any(w[2] <= c < k for c in copies_k):
                    f.add("overlap:SAVE-between-the-end-of-the-first-started-step-and-the-end-of-a-later-one")
            later = [x for x in lst if x[1] > mine[-1][1]]
            if later:
                f.add("overlap:first-started-step-ends-first")
                waiting += [(key, x[0], k) for x in later]
            lst.remove(mine[-1])
    return sorted(f)


def expected_step_ends(events):
    """from the stream alone: {location key: [[description, end time or None] in start order]} — the step a thread started is
    the one its own stepEnd ends (`active_steps[thread_id]`)"""
    out, mine = {}, {}
    for e in events:
        if e["e"] == "stepStart":
            key = json.dumps(e["loc"], sort_keys=True)
            out.setdefault(key, []).append([e["desc"], None])
            mine[e["tid"]] = (key, len(out[key]) - 1)
        elif e["e"] == "stepEnd" and e["tid"] in mine:
            key, i = mine[e["tid"]]
            out[key][i][1] = e["t"]
        elif e["e"] in ("testStart", "suiteSetupStart", "suiteTeardownStart", "sessionSetupStart", "sessionTeardownStart"):
            pass
    return out


def nf_result_at(nf, loc):
    k, path = loc["k"], loc.get("path")
    if k == "ssetup":
        return nf["setup"]
    if k == "steardown":
        return nf["teardown"]
    names = path if k in ("setup", "teardown") else path[:-1]
    lst, s = nf["suites"], None
    for n in names:
        s = next((x for x in lst if x["md"]["name"] == n), None)
        if s is None:
            return None
        lst = s["suites"]
    if s is None:
        return None
    if k in ("setup", "teardown"):
        return s[k]
    t = next((t for t in s["tests"] if t["md"]["name"] == path[-1]), None)
    return None if t is None else t["res"]


def step_end_failures(events, final_nf):
    """every step whose end was announced by the thread that started it is shown as ended, at that time, in the final report"""
    fails = []
    if not sibling_names_unique(final_nf):
        return fails
    for key, steps in expected_step_ends(events).items():
        res = nf_result_at(final_nf, json.loads(key))
        if res is None or len(res["steps"]) != len(steps):
            continue
        for i, ((desc, end), st) in enumerate(zip(steps, res["steps"])):
            if end is not None and st["end"] != end:
                fails.append(C.Failure("C10/final/step-end-differs",
                                       "step #%d %r of %s: its thread announced the end at %s, the final report shows end=%s"
                                       % (i, desc, key, end, st["end"])))
                return fails
    return fails


def gen_backends(rng):
    """the FILE backends attached to the run, in subscription order (what `--reporting json junit` / a project's
    `default_reporting_backend_names` give): any non-empty combination of json / xml / junit, any order"""
    r = rng.random()
    if r < 0.45:
        kinds = ["json", "xml", "junit"]
    elif r < 0.85:
        kinds = rng.choice([["json", "junit"], ["json", "xml"], ["xml", "junit"], ["json", "junit"]])
    else:
        kinds = [rng.choice(["json", "xml", "junit"])]
    kinds = list(kinds)
    rng.shuffle(kinds)
    return kinds


class Snap(C.Stream):
    name = "C10.snap"
    quick_cases = 90
    thorough_cases = 2500
    quick_seconds = 26
    thorough_seconds = 420
    chunk = 10

    # replayed first: a failed test then a passed one (at_each_failed_test saves once in between) in a stream that stops
    # in the middle of a step; the same stream with the finished test restarted (ill-formed: the finished result is
    # replaced — `prefixB` and the oracle's prefix relation must both say "no")
    corpus = [
        {"kind": "gen", "label": "wf", "events": _CORPUS_EVENTS, "nb_threads": 1, "variant": 0, "alias": False, "every": 1,
         "every_backend": "json", "clock": [10_000 + 750 * i for i in range(40)]},
        {"kind": "gen", "label": "restart-test",
         "events": _CORPUS_EVENTS[:7] + [dict(_CORPUS_EVENTS[2], t=1_600_000_000_050)] + _CORPUS_EVENTS[7:],
         "nb_threads": 1, "variant": 1, "alias": True, "every": 0, "every_backend": "xml",
         "clock": [10_000 + 250 * i for i in range(40)]},
        # report information: a line set before the run, the same name published by the first test and again (another value) by
        # the second one, with saves in between (every strategy but at_end_of_tests): each file shows a beginning of the final list
        {"kind": "gen", "label": "wf", "events": _CORPUS_EVENTS, "nb_threads": 1, "variant": 0, "alias": False, "every": 1,
         "every_backend": "json", "clock": [10_000 + 750 * i for i in range(40)], "backends": ["json", "xml"], "title": "Nightly run",
         "infos": [[0, "campaign", "nightly"], [4, "target", "alpha"], [9, "target", "beta"], [9, "campaign", "nightly"]]},
        # overlapping lcc.Thread workers inside one test, the first started ending first, a save (at_each_log) before the other ends
        {"kind": "gen", "label": "wf", "events": _overlap_events(), "nb_threads": 1, "variant": 0, "alias": False, "every": 0,
         "every_backend": "json", "clock": [10_000 + 750 * i for i in range(40)], "backends": ["json", "xml", "junit"]},
    ]

    def gen(self, rng, i):
        r = rng.random()
        variant = rng.randint(0, 3)
        alias = rng.random() < 0.3
        every = rng.choice([0, 1, 1, 2, 3])
        # texts: what the strings of the run hold.  "wild": every class of gen.reports (lone surrogates, C0 controls, CR, empty, …):
        # the JSON sessions must carry them; the XML backend cannot (C09 / D8) and gets a run of its own, classified
        texts = rng.choice(["plain", "plain", "safe", "wild"])
        if r < 0.16:
            return {"kind": "real", "spec": gen_real_spec(rng, texts), "variant": variant, "alias": alias, "texts": texts,
                    "backends": ["json"] if texts == "wild" else gen_backends(rng)}
        mode = texts if texts == "wild" else None
        events, nb = gen_stream(rng, max_depth=rng.choice([2, 3, 3]), mode=mode)
        if len(events) > 160:
            events, nb = gen_stream(rng, max_depth=2, mode=mode)
        label = "wf"
        if r > 0.8:
            events, label = mutate_stream(events, rng)
            if label == "none":
                label = "wf"
        # the clock the every_Ns session reads (ms, multiples of 250: exact as binary floats)
        t, clock = 10_000, []
        for _ in range(2 * len(events) + 4):
            t += rng.choice([0, 250, 250, 500, 750, 1000, 1750, 4000])
            clock.append(t)
        backends = gen_backends(rng)
        case = {"kind": "gen", "label": label, "events": events, "nb_threads": nb, "variant": variant, "alias": alias,
                "every": every, "every_backend": rng.choice(backends), "clock": clock, "backends": backends}
        if texts == "wild":
            # the XML and JUnit backends write ElementTree text raw: a session of one of them, in a loop of its own
            case.update(texts="wild", every_backend="json", xml_strategy=rng.choice(STATIC), limited_kind=rng.choice(["xml", "xml", "junit"]),
                        backends=["json"])
        # report information published before / during the run (`Project.build_report_info`, `lcc.add_report_info`), a report title
        if label == "wf" and rng.random() < 0.55:
            case["infos"] = gen_infos(rng, events, "plain" if texts == "wild" else texts)
            if rng.random() < 0.4:
                case["title"] = rng.choice(["Nightly run", "T", "Report of build 12"])
        return case

    @staticmethod
    def _specs(case):
        log = "at_each_event" if case.get("alias") else "at_each_log"
        exprs = ["at_end_of_tests", "at_each_suite", "at_each_test", "at_each_failed_test", log]
        kinds = case.get("backends") or (("json",) if case.get("texts") == "wild" else ("json", "xml"))
        return [(kind, case.get("variant", 0), e) for e in exprs for kind in kinds]

    def impl(self, case):
        top = tempfile.mkdtemp(prefix="lccverif-c10-")
        try:
            specs = self._specs(case)
            if case["kind"] == "real":
                events, obs = run_real(case["spec"], specs, top)
                obs["events"] = events
                obs["nb_threads"] = case["spec"]["nb_threads"]
                return _intern(obs)
            ikw = {"infos": case.get("infos"), "title": case.get("title")}
            obs = run_stream(case["events"], case["nb_threads"], specs, os.path.join(top, "a"), **ikw)
            espec = [(case["every_backend"], case.get("variant", 0), "every_%ds" % case["every"])]
            obs2 = run_stream(case["events"], case["nb_threads"], espec, os.path.join(top, "b"), clock_seq=case["clock"], **ikw)
            obs["every"] = obs2["sessions"][0]
            obs["every_handled"] = obs2["handled"]
            obs["every_failure"] = obs2["failure"]
            if case.get("xml_strategy"):
                # the XML backend on texts its format cannot carry: a run of its own (a raising save stops the whole handler loop)
                obs3 = run_stream(case["events"], case["nb_threads"], [(case.get("limited_kind", "xml"), 0, case["xml_strategy"])],
                                  os.path.join(top, "x"), **ikw)
                obs["xml_run"] = {"handled": obs3["handled"], "failure": obs3["failure"], "session": obs3["sessions"][0]}
            return _intern(obs)
        finally:
            shutil.rmtree(top, ignore_errors=True)

    @staticmethod
    def _events(case, obs):
        return obs["events"] if case["kind"] == "real" else case["events"]

    def oracle(self, case, obs):
        if case.get("label", "wf") != "wf":
            return []          # ill-formed streams cannot come out of a run (C07); only the model is compared
        events = self._events(case, obs)
        fails = check_sessions(events, obs["handled"], obs["failure"], list(obs["sessions"]), obs["status_after"], obs["final_report"],
                               lambda load: _nf(obs, load), real=case["kind"] == "real")
        if obs.get("final_report") and obs["handled"] == len(events) and case["kind"] == "gen":
            fails += step_end_failures(events, obs["final_report"])
        if "every" in obs:      # a handler loop of its own (scripted clock)
            fails += check_sessions(events, obs["every_handled"], obs.get("every_failure"), [obs["every"]], obs["status_after"],
                                    obs["final_report"], lambda load: _nf(obs, load))
        if "xml_run" in obs:
            x = obs["xml_run"]
            fails += check_sessions(events, x["handled"], x["failure"], [x["session"]], obs["status_after"], None,
                                    lambda load: _nf(obs, load))
        return fails

    def request(self, case, obs):
        events = self._events(case, obs)
        specs = self._specs(case)
        strategies = [strat_wire(e) for _, _, e in specs]
        want = set()
        for s in obs["sessions"]:
            want.update(c["k"] for c in s["copies"])
        if "every" in obs:
            strategies.append(strat_wire(obs["every"]["spec"][2]))
            want.update(c["k"] for c in obs["every"]["copies"])
        want = sorted(want)
        if len(want) > 24:
            rng = random.Random(len(events) * 7919 + len(want))
            keep = set(rng.sample(want, 20)) | {want[0], want[-1]}
            want = sorted(keep)
        nb = obs["nb_threads"] if case["kind"] == "real" else case["nb_threads"]
        req = {"op": "snap", "events": R.wire(events), "nb_threads": nb, "strategies": strategies,
               "clock": case.get("clock", [0]), "want": want}
        if case.get("infos"):
            req["infos"] = [[k, R.wire_str(n), R.wire_str(v)] for k, n, v in case["infos"]]
        if case.get("title") is not None:
            req["title"] = R.wire_str(case["title"])
        if "xml_run" in obs:
            req["xml_sessions"] = [{"s": strat_wire(case["xml_strategy"]), "enc": "utf8", "kind": case.get("limited_kind", "xml")}]
        elif any(s.get("save_errors") for s in obs["sessions"]):
            # a save raised inside the common handler loop (an ill-formed stream: e.g. the session start was dropped and the XML /
            # JUnit serialisers cannot do without a start time): the model of every XML / JUnit session says where (`sessRunG`)
            req["xml_sessions"] = [{"s": strat_wire(e), "enc": "utf8", "kind": kind} for kind, _, e in specs if kind in ("xml", "junit")]
        # the JUnit documents (no loader: compared with `Junit.toJunit` of the report after k events)
        jk = sorted({c["k"] for s in obs["sessions"] if s["spec"][0] == "junit" for c in s["copies"] if "junit" in c["load"]})
        if jk:
            req["junit_want"] = jk if len(jk) <= 10 else sorted(set(random.Random(len(jk)).sample(jk, 8)) | {jk[0], jk[-1]})
        return req

    def compare(self, case, obs, ans):
        if "error" in ans:
            return "model error: " + str(ans["error"])
        events = self._events(case, obs)
        wf_case = case.get("label", "wf") == "wf"
        if wf_case and not (ans["safe"] and ans["wf"] and ans["fresh"]):
            return "a stream that should be well-formed is not accepted: safe=%s wf=%s fresh=%s" % (ans["safe"], ans["wf"], ans["fresh"])
        if ans["wf"] and ans["fresh"] and not ans["safe"]:
            return "stream accepted by the grammar (C07) with unique paths, but some event targets a finished item (safeRun false)"
        if "xml_run" not in obs and any(s.get("save_errors") for s in obs["sessions"]):
            return compare_stopped_by_save(obs, ans)
        if ans["handled"] != obs["handled"]:
            return "writer handled %d events in the model, %d in the implementation (failure %s / %s)" % (
                ans["handled"], obs["handled"], ans["err"], obs["failure"])
        mclass = ans["err"]["class"] if ans["err"] else None
        if mclass != obs["failure"]:
            return "handler failure: model %s, implementation %s" % (mclass, obs["failure"])
        if "xml_run" in obs:
            d = compare_xml_session(obs["xml_run"], ans["xml_sessions"][0])
            if d:
                return d
        sessions = list(obs["sessions"]) + ([obs["every"]] if "every" in obs else [])
        reports = {k: R.nf_of_desc(R.unwire(r)) for k, r in ans["reports"]}
        mprefix = {k: v for k, v in ans["prefix"]}
        final_m = R.nf_of_desc(R.unwire(ans["final"]))
        racy_info = case["kind"] == "real" and case["spec"].get("has_info")
        if wf_case and case.get("infos") and not ans.get("safe_acts"):
            return "the act list (events + add_info calls) is not accepted by safeActs"
        if racy_info:
            # `lcc.add_report_info` is called on the test's thread while the handler thread lags behind: WHICH save first shows a
            # line is not determined by the recorded event order; the model is compared on everything else, the oracle's prefix
            # relation covers the lines
            final_m = dict(final_m, info=obs["final_report"]["info"])
        if final_m != obs["final_report"]:
            return "final report differs: " + _first_diff(final_m, obs["final_report"])
        unique = sibling_names_unique(final_m)
        jdocs = {k: d for k, d in ans.get("junit_docs", [])}
        for s, m in zip(sessions, ans["strategies"]):
            got = [c["k"] for c in s["copies"]]
            if got != m["saves"]:
                return "%s: save points differ: implementation %s, model %s" % (s["spec"], got, m["saves"])
            for c in s["copies"]:
                if c["k"] in jdocs and "junit" in c["load"]:
                    if jdocs[c["k"]] is None:
                        return "%s: the JUnit file saved after event %d exists, the model's serialiser raises" % (s["spec"], c["k"])
                    dj = _first_diff(junit_model_doc(jdocs[c["k"]]), c["load"]["junit"])
                    if not dj.endswith(": equal"):
                        return "%s: JUnit document after event %d differs (model vs file): %s" % (s["spec"], c["k"], dj)
                if c["k"] in reports and "nf" in c["load"]:
                    if racy_info:
                        reports[c["k"]] = dict(reports[c["k"]], info=_nf(obs, c["load"])["info"])
                    if _nf(obs, c["load"]) != reports[c["k"]]:
                        return "%s: content of the snapshot after event %d differs: %s" % (
                            s["spec"], c["k"], _first_diff(reports[c["k"]], _nf(obs, c["load"])))
                    if unique and not racy_info:
                        py = not nf_prefix(_nf(obs, c["load"]), obs["final_report"])
                        if py != mprefix[c["k"]]:
                            return "%s: prefix relation of snapshot %d to the final report: oracle %s, Lean prefixB %s" % (
                                s["spec"], c["k"], py, mprefix[c["k"]])
        return None

    def nontrivial(self, case, obs):
        events = self._events(case, obs)
        if _results_in(events) < 2:
            return False
        return any(c["k"] < obs["handled"] for s in obs["sessions"] for c in s["copies"])

    def features(self, case, obs):
        events = self._events(case, obs)
        f = [case["kind"], "label=" + case.get("label", "wf"), "events<=40" if len(events) <= 40 else "events<=100" if len(events) <= 100 else "events>100"]
        nb = obs.get("nb_threads", case.get("nb_threads", 1))
        f.append("threads=%d" % nb)
        if obs["failure"]:
            f.append("handler-raised")
            if any(s.get("save_errors") for s in obs["sessions"]):
                f.append("loop-stopped-by-raising-save")
        if events and events[-1]["e"] != "sessionEnd":
            f.append("unfinished-stream")
        for s in obs["sessions"]:
            if s["spec"][0] == "json":
                n = len(s["copies"])
                f.append("%s:saves=%s" % (s["spec"][2], "0" if n == 0 else "1" if n == 1 else "2-5" if n <= 5 else ">5"))
        if "every" in obs:
            f.append("every_%ds:saves=%s" % (case["every"], min(len(obs["every"]["copies"]), 9)))
        if any(v == "failed" for v in obs["status_after"].values()):
            f.append("has-failed-result")
        f.append("texts=" + case.get("texts", "plain-or-safe"))
        if case.get("backends"):
            f.append("backends=" + "+".join(case["backends"]))
            if "junit" in case["backends"]:
                f.append("junit-attached")
                mid = [c for s in obs["sessions"] if s["spec"][0] == "junit" for c in s["copies"] if "junit" in c["load"]]
                if any(_mid_test(events, c["k"]) for c in mid):
                    f.append("junit-saved-while-a-test-is-in-progress")
        if case.get("limited_kind"):
            f.append("limited-run-kind=" + case["limited_kind"])
        copies_k = sorted({c["k"] for s in obs["sessions"] for c in s["copies"]})
        f += info_features(case.get("infos"), copies_k)
        f += overlap_features(events, copies_k + sorted(c["k"] for c in obs.get("every", {}).get("copies", [])))
        if case.get("title") is not None:
            f.append("title-set")
        if case["kind"] == "real" and any(e["e"] == "stepStart" for e in events):
            tids = {}
            for e in events:
                if e["e"] == "stepStart":
                    tids.setdefault(json.dumps(e["loc"], sort_keys=True), set()).add(e["tid"])
            if any(len(v) >= 3 for v in tids.values()):
                f.append("real-run:lcc.Thread-workers-with-steps-of-their-own")
            f += thread_name_features(case["spec"])
        if case["kind"] == "real" and case["spec"].get("has_info"):
            f.append("real-run-calls-add_report_info")
            infos_seen = [tuple(map(tuple, _nf(obs, c["load"])["info"])) for s in obs["sessions"] for c in s["copies"] if "nf" in c["load"]]
            if len(set(infos_seen)) > 1:
                f.append("real-run:saved-files-show-different-info-lists")
        f += ["text:" + c for c in text_profile(events)]
        if "xml_run" in obs:
            x = obs["xml_run"]
            f.append("xml-run:" + ("save-raised" if x["session"].get("save_errors") else
                                   "unloadable-snapshot" if any("error" in c["load"] for c in x["session"]["copies"]) else "clean"))
        ends = [e for e in events if e["e"] in END_OF_RESULT and "path" in e]
        if any("." in n for e in ends for n in e["path"]):
            f.append("dotted-name-on-ended-result")
            failed_dotted = [i for i, e in enumerate(events) if e["e"] in END_OF_RESULT and "path" in e and any("." in n for n in e["path"])
                             and obs["status_after"].get(str(i + 1)) == "failed"]
            if failed_dotted:
                f.append("dotted-name-on-FAILED-result")
        return sorted(set(f))

    def shrink(self, case):
        if case["kind"] == "real":
            spec = case["spec"]
            for i in range(len(spec["suites"])):
                if len(spec["suites"]) > 1:
                    yield dict(case, spec=dict(spec, suites=spec["suites"][:i] + spec["suites"][i + 1:]))
            for i, s in enumerate(spec["suites"]):
                for j in range(len(s["tests"])):
                    if len(s["tests"]) > 1:
                        s2 = dict(s, tests=s["tests"][:j] + s["tests"][j + 1:])
                        yield dict(case, spec=dict(spec, suites=spec["suites"][:i] + [s2] + spec["suites"][i + 1:]))
                if s["subs"]:
                    yield dict(case, spec=dict(spec, suites=spec["suites"][:i] + [dict(s, subs=[])] + spec["suites"][i + 1:]))
            if spec["nb_threads"] > 1:
                yield dict(case, spec=dict(spec, nb_threads=1))
            return
        ev = case["events"]
        inf = case.get("infos") or []
        for i in range(len(inf)):
            yield dict(case, infos=inf[:i] + inf[i + 1:])
        if case.get("title") is not None:
            yield {k: v for k, v in case.items() if k != "title"}
        for n in (len(ev) // 2, len(ev) * 3 // 4, len(ev) - 1):
            if 0 < n < len(ev):
                c2 = dict(case, events=ev[:n])
                if inf:
                    c2["infos"] = [x for x in inf if x[0] <= n]
                yield c2
        # drop one complete test
        for i, e in enumerate(ev):
            if e["e"] in ("testStart", "testSkipped", "testDisabled"):
                p = e["path"]
                rest = [x for x in ev if not (x.get("path") == p and x["e"].startswith("test"))
                        and not (x.get("loc", {}).get("path") == p and x.get("loc", {}).get("k") == "test")]
                if len(rest) < len(ev) and not inf:
                    yield dict(case, events=rest)


def junit_model_doc(d):
    """the driver's element tree of `Junit.toJunit` in the shape of `junit_doc` (numbers as text, time figures dropped)"""
    return {"tag": d["tag"],
            "attrs": [[k, str(v) if isinstance(v, int) else R.unwire_str(v)] for k, v in d["attrs"] if k not in ("time", "timestamp")],
            "children": [junit_model_doc(c) for c in d["children"]]}


def compare_stopped_by_save(obs, ans):
    """the common handler loop of a C10.snap run was stopped by a raising save: the model's XML sessions (`sessRunG`) must
    predict a raising save at that very event, and every session's saves up to there"""
    xml_models = ans.get("xml_sessions") or []
    stops = [m["handled"] for m in xml_models if m["err"] == "save"]
    raised = [(s["spec"], e) for s in obs["sessions"] for e in s["save_errors"]]
    if not stops:
        return "a save raised in the implementation (%s), the model predicts none" % (raised[:2],)
    if min(stops) != obs["handled"]:
        return "the loop stopped after %d events (%s), the model's first raising XML save comes after %d" % (obs["handled"], raised[:2], min(stops))
    if any(s["spec"][0] not in ("xml", "junit") for s in obs["sessions"] if s["save_errors"]):
        return "a save of another backend than xml / junit raised: %s" % (raised[:2],)
    xi = 0
    for s, m in zip(obs["sessions"], ans["strategies"]):
        saves = m["saves"]
        if s["spec"][0] in ("xml", "junit"):
            if xml_models[xi]["err"] == "save" and xml_models[xi]["handled"] == obs["handled"] and not s["save_errors"] \
                    and not any(o["save_errors"] for o in obs["sessions"][:obs["sessions"].index(s)]):
                return "%s: the model says this session's save raises first, the implementation raised in %s" % (s["spec"], raised[:2])
            saves = xml_models[xi]["saves"]
            xi += 1
        want = [k for k in saves if k <= obs["handled"]]
        got = [c["k"] for c in s["copies"]]
        if got != want:
            return "%s: saves before the loop stopped: implementation %s, model %s" % (s["spec"], got, want)
    return None


def compare_xml_session(x, m):
    """an XML session on texts the format may not carry (observation `x`) against `sessRunG (Store.xmlSaveOkEnc enc)` (`m`):
    the save points up to the first raising save, where the run stopped and why, and whether each saved file loads"""
    sess = x["session"]
    got = [c["k"] for c in sess["copies"]]
    if got != m["saves"]:
        return "xml session %s: save points: implementation %s, model %s" % (sess["spec"], got, m["saves"])
    raised = bool(sess.get("save_errors"))
    if raised != (m["err"] == "save"):
        return "xml session %s: a save raised: implementation %s (%s), model %s" % (sess["spec"], raised, sess.get("save_errors"), m["err"])
    if raised and x["handled"] != m["handled"]:
        return "xml session %s: events handled before the raising save: implementation %d, model %d" % (sess["spec"], x["handled"], m["handled"])
    loads = ["parse-error" if "error" in c["load"] else "loaded" for c in sess["copies"]]
    if loads != m["loads"]:
        return "xml session %s: loadability of the saved files: implementation %s, model %s" % (sess["spec"], loads, m["loads"])
    return None


def _first_diff(a, b, path=""):
    if type(a) != type(b):
        return "%s: %r vs %r" % (path, a if not isinstance(a, (dict, list)) else type(a).__name__,
                                 b if not isinstance(b, (dict, list)) else type(b).__name__)
    if isinstance(a, dict):
        for k in sorted(set(a) | set(b)):
            if a.get(k) != b.get(k):
                return _first_diff(a.get(k), b.get(k), path + "/" + str(k))
    elif isinstance(a, list):
        if len(a) != len(b):
            return "%s: lengths %d vs %d" % (path, len(a), len(b))
        for i, (x, y) in enumerate(zip(a, b)):
            if x != y:
                return _first_diff(x, y, "%s[%d]" % (path, i))
    elif a != b:
        return "%s: %r vs %r" % (path, a, b)
    return path + ": equal"


# ------------------------------------------------------------------------------------------------
# C10.crash
# ------------------------------------------------------------------------------------------------

CHILD = os.path.join(os.path.dirname(os.path.abspath(__file__)), "c10_child.py")


def small_stream(rng):
    for _ in range(20):
        events, nb = gen_stream(rng, max_depth=2, mode="plain", unfinished=0.1)
        if 8 <= len(events) <= 60:
            return events, nb
    return events[:60], nb


def forked_run(case, top, die_at, pieces):
    """fork; the child performs the run with write interposition and dies at crash point number `die_at`
    (None: never; it then reports the list of crash points).  Returns (exit status, points or None)."""
    from props import c10_child
    rfd, wfd = os.pipe()
    pid = os.fork()
    if pid == 0:
        code = 70
        try:
            os.close(rfd)
            code = c10_child.child_main(case, top, die_at, pieces, wfd)
        except BaseException:
            import traceback
            try:
                os.write(2, traceback.format_exc().encode())
            except Exception:
                pass
        finally:
            os._exit(code)
    os.close(wfd)
    chunks = []
    while True:
        b = os.read(rfd, 65536)
        if not b:
            break
        chunks.append(b)
    os.close(rfd)
    deadline = _time.time() + 60
    while True:
        p, status = os.waitpid(pid, os.WNOHANG)
        if p:
            break
        if _time.time() > deadline:
            os.kill(pid, 9)
            os.waitpid(pid, 0)
            raise C.InfraError("forked crash child hung")
        _time.sleep(0.002)
    data = b"".join(chunks)
    info = json.loads(data.decode()) if data else None
    return (os.WEXITSTATUS(status) if os.WIFEXITED(status) else -os.WTERMSIG(status)), info


class Crash(C.Stream):
    name = "C10.crash"
    quick_cases = 12
    thorough_cases = 260
    quick_seconds = 18
    thorough_seconds = 300
    chunk = 4
    # D16 witness (fixed by fixes/D16-atomic-report-save.diff): two saves, death right after the open of the second
    corpus = [{
        "mode": "fork", "backend": "json", "variant": 0, "strategy": "at_each_test", "nb_threads": 1, "pieces": 1,
        "events": [
            {"e": "sessionStart", "t": 1000}, {"e": "suiteStart", "path": ["s"], "md": _md("s"), "t": 1001},
            {"e": "testStart", "path": ["s", "a"], "md": _md("a"), "t": 1002}, {"e": "testEnd", "path": ["s", "a"], "t": 1003},
            {"e": "testStart", "path": ["s", "b"], "md": _md("b", 1), "t": 1004}, {"e": "testEnd", "path": ["s", "b"], "t": 1005},
            {"e": "suiteEnd", "path": ["s"], "t": 1006}, {"e": "sessionEnd", "t": 1007}],
        "die": "all"}]

    def gen(self, rng, i):
        events, nb = small_stream(rng)
        backend = rng.choice(["json", "json", "xml", "xml", "junit"])
        strategy = rng.choice(["at_each_test", "at_each_test", "at_each_log", "at_each_suite", "at_each_failed_test", "at_each_event"])
        mode = "strace" if rng.random() < (0.3 if i < 30 else 0.12) else "fork"
        case = {"mode": mode, "backend": backend, "variant": rng.randint(0, 3), "strategy": strategy, "nb_threads": nb,
                "events": events, "pieces": rng.choice([1, 1, 2, 3, 5])}
        if mode == "strace":
            case["events"] = events[:30]
            case["k"] = rng.randint(0, 1000)
        else:
            case["die"] = "all" if len(events) <= 30 else rng.randint(0, 10_000)
        return case

    def impl(self, case):
        top = tempfile.mkdtemp(prefix="lccverif-c10c-")
        try:
            # uninterrupted reference run (in-process): the snapshots a completed save leaves, and the final report
            ref = run_stream(case["events"], case["nb_threads"], [(case["backend"], case["variant"], case["strategy"])],
                             os.path.join(top, "ref"))
            sess = ref["sessions"][0]
            obs = {"ref_saves": [c["k"] for c in sess["copies"]], "final_report": ref["final_report"], "handled": ref["handled"],
                   "failure": ref["failure"], "deaths": [], "cut_loads": []}
            snaps = {c["k"]: c["load"] for c in sess["copies"]}
            obs["snap_ok"] = all("nf" in l for l in snaps.values()) if case["backend"] != "junit" else True
            fname = {"json": "report.js", "xml": "report.xml", "junit": "report-junit.xml"}[case["backend"]]
            if case["mode"] == "fork":
                d0 = os.path.join(top, "probe")
                os.makedirs(d0)
                st, info = forked_run(case, d0, None, case["pieces"])
                if st != 0 or info is None:
                    raise RuntimeError("probe child failed: status %s" % st)
                points = info["points"]
                obs["points"] = len(points)
                if case["die"] == "all":
                    chosen = list(range(len(points)))
                else:
                    r = random.Random(case["die"])
                    chosen = sorted(set(r.sample(range(len(points)), min(len(points), 12))))
                for n in chosen:
                    d = os.path.join(top, "d%d" % n)
                    os.makedirs(d)
                    st, _ = forked_run(case, d, n, case["pieces"])
                    obs["deaths"].append(self._survivor(case, d, fname, points[n], st, snaps))
                # self-delimiting serialisation: cut copies of the complete file must not load
                full = os.path.join(d0, "s0", fname)
                if os.path.exists(full) and case["backend"] != "junit":
                    data = open(full, "rb").read()
                    full_nf = load_nf(full).get("nf")
                    r = random.Random(len(data))
                    for cut in sorted({0, 1, len(data) // 2, len(data) - 1} | {r.randrange(len(data)) for _ in range(3)}):
                        if 0 <= cut < len(data):
                            p = os.path.join(top, "cut")
                            with open(p, "wb") as fh:
                                fh.write(data[:cut])
                            l = load_nf(p)
                            obs["cut_loads"].append({"cut": cut, "of": len(data), "loads": "nf" in l,
                                                     "same": "nf" in l and l["nf"] == full_nf,
                                                     "rest_blank": data[cut:].strip() == b""})
            else:
                d = os.path.join(top, "k")
                os.makedirs(d)
                casefile = os.path.join(top, "case.json")
                with open(casefile, "w") as fh:
                    json.dump(case, fh)
                env = dict(os.environ, PYTHONDONTWRITEBYTECODE="1", LCC_REPO=str(C.REPO))
                # the child writes nothing but the report files: K ranges over the writes of the saves
                per_save = 2 if case["backend"] == "json" and case["variant"] % 2 == 0 else 1
                total = max(1, per_save * len(obs["ref_saves"]))
                kth = 1 + case["k"] % total
                obs["kth_write"] = kth
                p = subprocess.run(["strace", "-f", "-o", "/dev/null", "-e", "trace=write", "-e",
                                    "inject=write:signal=SIGKILL:when=%d" % kth, sys.executable, CHILD, casefile, d],
                                   env=env, capture_output=True, timeout=120)
                killed = p.returncode in (-9, 137)
                if not killed and p.returncode != 0:
                    raise RuntimeError("strace child failed rc=%s: %s" % (p.returncode, p.stderr[-400:]))
                obs["deaths"].append(self._survivor(case, d, fname, {"save": None, "kind": "strace-write-%d" % kth,
                                                                     "inside": None, "killed": killed}, p.returncode, snaps))
            return obs
        finally:
            shutil.rmtree(top, ignore_errors=True)

    @staticmethod
    def _survivor(case, d, fname, point, status, snaps):
        path = os.path.join(d, "s0", fname)
        rec = {"point": point, "status": status, "exists": os.path.exists(path),
               "others": sorted(f for f in os.listdir(os.path.join(d, "s0")) if f != fname) if os.path.isdir(os.path.join(d, "s0")) else []}
        if rec["exists"]:
            rec["size"] = os.path.getsize(path)
            if case["backend"] == "junit":
                import xml.etree.ElementTree as ET
                try:
                    ET.parse(path)
                    rec["load"] = {"nf": None}
                except Exception as e:
                    rec["load"] = {"error": type(e).__name__}
            else:
                rec["load"] = load_nf(path)
                if "nf" in rec["load"]:
                    rec["equals_snapshot"] = [k for k, l in snaps.items() if l.get("nf") == rec["load"]["nf"]]
        return rec

    def oracle(self, case, obs):
        fails = []
        be = case["backend"]
        for dth in obs["deaths"]:
            if not dth["exists"]:
                continue
            ld = dth["load"]
            where = "%s %s" % (dth["point"].get("kind"), "save #%s" % dth["point"].get("save") if dth["point"].get("save") is not None else "")
            if "error" in ld:
                fails.append(C.Failure("C10/crash/unloadable/" + be,
                                       "process died at [%s] of a %s/%s run: the report file (%d bytes) does not load: %s"
                                       % (where, be, case["strategy"], dth.get("size", -1), ld)))
            elif ld["nf"] is not None:
                why = nf_prefix(ld["nf"], obs["final_report"])
                if why:
                    fails.append(C.Failure("C10/crash/not-prefix/" + be, "process died at [%s]: survivor is not a prefix of the final report: %s" % (where, why[:3])))
        return fails

    def request(self, case, obs):
        return {"op": "snap", "events": R.wire(case["events"]), "nb_threads": case["nb_threads"],
                "strategies": [strat_wire(case["strategy"])], "clock": [0], "want": obs["ref_saves"][:40]}

    def compare(self, case, obs, ans):
        if "error" in ans:
            return "model error: " + str(ans["error"])
        m = ans["strategies"][0]["saves"]
        if m != obs["ref_saves"]:
            return "save points differ: implementation %s, model %s" % (obs["ref_saves"], m)
        if not ans["safe"]:
            return "generated stream not safe"
        if case["backend"] == "junit":
            return None
        # M13 with the repaired save: the survivor is the snapshot of the last COMPLETED save — the previous one when
        # the death is inside save #s (before its rename), save #s itself after the rename
        for dth in obs["deaths"]:
            pt = dth["point"]
            if pt.get("save") is None:
                # strace: no save index; the survivor must be one of the snapshots (or absent)
                if dth["exists"] and "nf" in dth["load"] and not dth.get("equals_snapshot"):
                    return "strace kill %s: survivor equals none of the snapshots" % pt["kind"]
                continue
            s = pt["save"]                     # 0-based number of the save the point belongs to
            expect = s if pt["kind"] in ("after-replace",) or (pt["kind"] == "after-close" and not pt.get("atomic")) else s - 1
            # in-place code (unrepaired): the model does not describe it; the oracle reports the violation
            if not pt.get("atomic"):
                continue
            if expect < 0:
                if dth["exists"]:
                    return "death at %s: a report file exists before the first save completed" % pt
                continue
            k = m[expect]
            if not dth["exists"]:
                return "death at %s: no report file, expected the snapshot after event %d" % (pt, k)
            if "nf" in dth["load"] and k not in dth.get("equals_snapshot", []):
                return "death at %s: survivor is not the snapshot after event %d (equals %s)" % (pt, k, dth.get("equals_snapshot"))
        for c in obs["cut_loads"]:
            # self-delimiting up to trailing white space (the XML text ends with a newline): a cut file loads only
            # if nothing but blanks was cut off, and then it is the same report
            if c["loads"] and c["cut"] < c["of"] and not (c["same"] and c["rest_blank"]):
                return "a strict prefix (%d of %d bytes) of a saved file loads: the serialisation is not self-delimiting" % (c["cut"], c["of"])
        return None

    def nontrivial(self, case, obs):
        if len(obs["ref_saves"]) < 2:
            return False
        return any(d["point"].get("inside") or d["point"].get("killed") for d in obs["deaths"])

    def features(self, case, obs):
        f = [case["mode"], case["backend"], case["strategy"], "pieces=%d" % case["pieces"]]
        for d in obs["deaths"]:
            f.append("death:" + str(d["point"].get("kind")).split("-write-")[0])
            if d["exists"] and "error" in d.get("load", {}):
                f.append("survivor-unloadable")
            if not d["exists"]:
                f.append("no-file-yet")
            if d.get("others"):
                f.append("tmp-left-behind")
        f.append("saves=%d" % min(len(obs["ref_saves"]), 9))
        return sorted(set(f))

    def shrink(self, case):
        ev = case["events"]
        for n in (len(ev) // 2, len(ev) - 2):
            if 2 < n < len(ev):
                yield dict(case, events=ev[:n], die="all" if case["mode"] == "fork" else case.get("die"))


# ------------------------------------------------------------------------------------------------
# C10.reader
# ------------------------------------------------------------------------------------------------

class Reader(C.Stream):
    name = "C10.reader"
    quick_cases = 8
    thorough_cases = 150
    quick_seconds = 8
    thorough_seconds = 150
    chunk = 5

    def gen(self, rng, i):
        for _ in range(20):
            events, nb = gen_stream(rng, max_depth=3, mode="plain", unfinished=0.0)
            if 40 <= len(events) <= 220:
                break
        return {"events": events[:220], "nb_threads": nb, "backend": rng.choice(["json", "xml"]), "variant": rng.randint(0, 3),
                "strategy": rng.choice(["at_each_event", "at_each_log", "at_each_test"]), "pace_us": rng.choice([0, 50, 200])}

    def impl(self, case):
        from lemoncheesecake.reporting.loader import load_report
        top = tempfile.mkdtemp(prefix="lccverif-c10r-")
        try:
            fname = {"json": "report.js", "xml": "report.xml"}[case["backend"]]
            path = os.path.join(top, "s0", fname)
            stop = threading.Event()
            reads = []

            def reader():
                while not stop.is_set():
                    if not os.path.exists(path):
                        _time.sleep(0.0002)
                        continue
                    try:
                        rep = load_report(path)
                        reads.append({"nf": R.nf_report(rep)})
                    except FileNotFoundError:
                        continue
                    except Exception as e:
                        reads.append({"error": type(e).__name__, "msg": str(e)[:120]})

            th = threading.Thread(target=reader, daemon=True)
            th.start()
            pace = (lambda: _time.sleep(case["pace_us"] / 1e6)) if case["pace_us"] else None
            box = {}

            def run():
                box["ref"] = run_stream(case["events"], case["nb_threads"], [(case["backend"], case["variant"], case["strategy"])],
                                        top, pace=pace)
            rt = threading.Thread(target=run, daemon=True)
            rt.start()
            rt.join(60)
            stop.set()
            th.join(10)
            if rt.is_alive() or "ref" not in box:
                raise C.InfraError("reader stream: run did not finish within 60 s")
            ref = box["ref"]
            distinct = []
            bad = [r for r in reads if "error" in r]
            notprefix = []
            for r in reads:
                if "nf" in r:
                    if r["nf"] not in distinct:
                        distinct.append(r["nf"])
            for nf in distinct:
                why = nf_prefix(nf, ref["final_report"])
                if why:
                    notprefix.append(why[:2])
            return {"reads": len(reads), "distinct": len(distinct), "errors": bad[:3], "n_errors": len(bad),
                    "notprefix": notprefix[:3], "saves": ref["sessions"][0]["saves"], "handled": ref["handled"],
                    "failure": ref["failure"]}
        finally:
            shutil.rmtree(top, ignore_errors=True)

    def oracle(self, case, obs):
        fails = []
        if obs["n_errors"]:
            fails.append(C.Failure("C10/reader/unloadable/" + case["backend"],
                                   "%d of %d concurrent loads of the report file failed during a %s run: %s"
                                   % (obs["n_errors"], obs["reads"], case["strategy"], obs["errors"][:1])))
        if obs["notprefix"]:
            fails.append(C.Failure("C10/reader/not-prefix/" + case["backend"], "a concurrently loaded report is not a prefix of the final one: %s" % obs["notprefix"][:1]))
        return fails

    def nontrivial(self, case, obs):
        return obs["reads"] >= 1 and obs["distinct"] >= 2

    def features(self, case, obs):
        return [case["backend"], case["strategy"], "reads>=20" if obs["reads"] >= 20 else "reads<20",
                "distinct>=5" if obs["distinct"] >= 5 else "distinct<5"]


def _with_text(events, msg):
    ev = copy.deepcopy(events)
    for e in ev:
        if e["e"] == "log":
            e["msg"] = msg
    return ev


# minimal witnesses replayed first
Snap.corpus += [
    # a REAL run: a test starting two `lcc.Thread` workers that carry the SAME name, the first one ending first, the second one (and
    # the main thread) logging afterwards — `at_each_log` saves between the two ends: each worker's step must get its own end
    # (second case: the second worker goes on logging after the first one's end)
] + [
    {"kind": "real", "variant": 0, "alias": False, "texts": "plain", "backends": ["json", "xml"],
     "spec": {"nb_threads": 1, "suites": [{"name": "top0", "subs": [], "setup": None, "teardown": None, "tests": [
         {"name": "t0", "mode": "run", "acts": [["threads", ["a0"], bmsgs, True, ["worker", "worker"]], ["log", "info", "after"]]},
         {"name": "t1", "mode": "run", "acts": [["log", "info", "m"]]}]}]}}
    for bmsgs in (["b0"], ["b0", "b1", "b2"])
] + [
    # a failing test whose name holds the separator of path strings, in a suite whose name does too (at_each_failed_test must
    # save when it ends); the same with plain names is corpus[0]
    {"kind": "gen", "label": "wf", "nb_threads": 1, "variant": 0, "alias": False, "every": 1, "every_backend": "json",
     "clock": [10_000 + 750 * i for i in range(40)],
     "events": json.loads(json.dumps(_CORPUS_EVENTS).replace('"a"', '"compat_1.2"').replace('"s"', '"x.y"'))},
    # texts the file encoding cannot take raw: a lone surrogate (what os.fsdecode gives for an undecodable file name) in a log —
    # the JSON sessions must carry it; the XML session is the open finding C10/xml-text-limit/lone-surrogate-save-raises
    {"kind": "gen", "label": "wf", "nb_threads": 1, "variant": 2, "alias": False, "every": 1, "every_backend": "json",
     "clock": [10_000 + 750 * i for i in range(40)], "texts": "wild", "xml_strategy": "at_each_log",
     "events": _with_text(_CORPUS_EVENTS, "caf\udce9 \u65e5\u672c")},
    {"kind": "gen", "label": "wf", "nb_threads": 1, "variant": 0, "alias": False, "every": 1, "every_backend": "json",
     "clock": [10_000 + 750 * i for i in range(40)], "texts": "wild", "xml_strategy": "at_each_test",
     "events": _with_text(_CORPUS_EVENTS, "bell \x07")},
    # every file backend attached, JUnit first (no loader: well-formed at every promised point, never raises): `at_each_log` saves in
    # the middle of tests `a` and `b` — a JUnit save that raised there would freeze report.js / report.xml as well
    {"kind": "gen", "label": "wf", "nb_threads": 1, "variant": 0, "alias": False, "every": 0, "every_backend": "junit",
     "clock": [10_000 + 750 * i for i in range(40)], "events": _CORPUS_EVENTS, "backends": ["junit", "json", "xml"]},
    # ill-formed: the session start is lost, the report has no start time, the first XML save raises TypeError and stops the common
    # handler loop (a past disagreement: the model of the XML sessions, `sessRunG xmlSaveOkEnc`, now predicts where)
    {"kind": "gen", "label": "drop-event", "nb_threads": 1, "variant": 0, "alias": False, "every": 1, "every_backend": "json",
     "clock": [10_000 + 750 * i for i in range(40)], "events": _CORPUS_EVENTS[1:]},
]


def streams(ctx):
    from props import _c10x
    _c10x.Locale.corpus = [
        {"events": _with_text(_CORPUS_EVENTS, "caf\u00e9 \u65e5\u672c \U0001F600"), "nb_threads": 1, "variant": 0, "locale": "ascii",
         "strategy": "at_each_log", "texts": "safe"},
        {"events": _with_text(_CORPUS_EVENTS, "caf\udce9"), "nb_threads": 1, "variant": 3, "locale": "utf8",
         "strategy": "at_each_test", "texts": "wild"},
    ]
    return [Snap(), _c10x.Cli(), Crash(), _c10x.Locale(), Reader()]

"""
Stream `sched`: the REAL `lemoncheesecake.task.run_tasks` driven with synthetic `BaseTask` objects on
generated dependency DAGs, forced completion orders (gates) and injected keyboard interrupts; the
globally sequenced trace is replayed on the Lean scheduler model M1 (trace inclusion) and checked by an
independent oracle.  Shared by C01 (termination / exactly once), C04 (ordering / skip propagation) and
C08 (interrupt).
"""
import threading

import common as C
from obs import schedrec

KF_LOST_TASK = "sched/interrupt-during-dispatch-loses-task"


def gen_dag(rng, max_tasks=40):
    k = rng.randint(1, max_tasks if rng.random() < 0.25 else 12)
    order = list(range(k))
    # topological numbering: deps only on smaller "level index"; list order is then shuffled partially
    topo = list(range(k))
    rng.shuffle(topo)
    pos = {t: i for i, t in enumerate(topo)}
    tasks = []
    dens = rng.choice([0.05, 0.15, 0.3, 0.6])
    for t in order:
        cands = [d for d in order if pos[d] < pos[t]]
        succ, compl = [], []
        for d in cands:
            if rng.random() < dens * (1.0 if len(cands) < 8 else 8.0 / len(cands)):
                (succ if rng.random() < 0.65 else compl).append(d)
        if succ and rng.random() < 0.1:
            succ.append(succ[0])     # duplicated dependency (lists, not sets, in the code)
        beh = rng.choices(["ok", "fail", "exc", "skipexc"], weights=[70, 15, 8, 7])[0]
        tasks.append({"id": t, "succ": succ, "compl": compl, "beh": beh, "gate": rng.random() < 0.8,
                      "lvl": pos[t]})
    if rng.random() < 0.5:
        # list order = a topological order (what build_tasks mostly produces); otherwise arbitrary
        tasks.sort(key=lambda x: x["lvl"])
    return tasks


class SchedStream(C.Stream):
    name = "sched"
    quick_cases = 150
    thorough_cases = 3000
    quick_seconds = 35
    thorough_seconds = 400
    chunk = 40
    with_interrupts = True
    interrupt_apply = False     # also inject the interrupt inside pool.apply_async (lost-task window)
    corpus = []

    def gen(self, rng, i):
        tasks = gen_dag(rng)
        n = rng.choice([1, 1, 2, 2, 3, 4, 8])
        case = {"n": n, "tasks": tasks, "strategy": rng.choice(["fifo", "lifo", "random", "random", "off"]),
                "gseed": rng.randrange(1 << 30), "interrupt_at": None, "stop_after_abort": True}
        if self.with_interrupts and rng.random() < 0.3:
            kind = "get"
            if self.interrupt_apply and rng.random() < 0.4:
                kind = "apply"
            case["interrupt_at"] = [kind, rng.randint(1, max(1, len(tasks)))]
        return case

    def impl(self, case):
        import random

        import lemoncheesecake.task as T
        from lemoncheesecake.exceptions import LemoncheesecakeException, TaskFailure

        rec = schedrec.Recorder(
            case["n"], strategy=case["strategy"], rng=random.Random(case["gseed"]),
            interrupt_at=tuple(case["interrupt_at"]) if case["interrupt_at"] else None, watchdog=15.0,
        )
        user = []
        ulock = threading.Lock()

        class Task(T.BaseTask):
            def __init__(self, spec):
                super().__init__()
                self.spec = spec
                self.succ, self.compl = [], []

            def get_on_success_dependencies(self):
                return self.succ

            def get_on_completion_dependencies(self):
                return self.compl

            def run(self, context):
                with ulock:
                    user.append(["run", self.spec["id"]])
                if self.spec["gate"]:
                    rec.gate(("task", self.spec["id"]))
                if self.spec["beh"] == "fail":
                    raise TaskFailure("task %d failed" % self.spec["id"])
                if self.spec["beh"] == "exc":
                    raise RuntimeError("task %d crashed" % self.spec["id"])

            def skip(self, context, reason=None):
                with ulock:
                    user.append(["skip", self.spec["id"], reason])
                if self.spec["beh"] == "skipexc":
                    raise RuntimeError("skip of task %d crashed" % self.spec["id"])

            def __str__(self):
                return "T%d" % self.spec["id"]

        objs = {s["id"]: Task(s) for s in case["tasks"]}
        for s in case["tasks"]:
            objs[s["id"]].succ = [objs[d] for d in s["succ"]]
            objs[s["id"]].compl = [objs[d] for d in s["compl"]]
        tasks = [objs[s["id"]] for s in case["tasks"]]
        for s in case["tasks"]:           # fix the id mapping of the recorder = spec ids
            rec.ids[id(objs[s["id"]])] = s["id"]
        context = schedrec.wrap_context(rec, T.TaskContext())
        outcome = "returned"
        with schedrec.patched(rec):
            try:
                T.run_tasks(tasks, context, case["n"])
            except LemoncheesecakeException:
                outcome = "raised-LemoncheesecakeException"
            except schedrec.HangDetected:
                outcome = "hang"
            except KeyboardInterrupt:
                outcome = "raised-KeyboardInterrupt"
            except AssertionError:
                outcome = "raised-AssertionError"
        return {
            "trace": rec.trace, "labels": schedrec.to_labels(rec.trace), "outcome": outcome, "user": user,
            "results": {str(s["id"]): type(objs[s["id"]].result).__name__.replace("TaskResult", "").lower()
                        for s in case["tasks"]},
            "reasons": {str(s["id"]): getattr(objs[s["id"]].result, "reason", None) for s in case["tasks"]},
            "watchdog": rec.watchdog_fired,
        }

    # ---- oracle: stated on the observation only ------------------------------------------------
    def oracle(self, case, obs):
        fails = []
        specs = {s["id"]: s for s in case["tasks"]}
        tr = obs["trace"]
        if obs["outcome"] == "hang":
            sig = KF_LOST_TASK if (case["interrupt_at"] and case["interrupt_at"][0] == "apply") else "sched/hang"
            fails.append(C.Failure(sig, "run_tasks waits for a completion while nothing is in flight (the run never terminates)"))
            return fails
        if obs["watchdog"]:
            fails.append(C.Failure("sched/gate-watchdog", "no progress for 15 s with tasks held at gates"))
        pos = {}
        for i, r in enumerate(tr):
            pos.setdefault((r[0], r[1] if len(r) > 1 else None), []).append(i)
        intr = pos.get(("interrupt", None), [None])[0]
        for t, s in specs.items():
            st, fi, rc = pos.get(("start", t), []), pos.get(("finish", t), []), pos.get(("receive", t), [])
            if len(st) != 1 or len(fi) != 1 or len(rc) != 1:
                fails.append(C.Failure("sched/not-exactly-once", f"task {t}: started {len(st)}×, finished {len(fi)}×, received {len(rc)}×"))
                continue
            ran = [u for u in obs["user"] if u[1] == t]
            if len(ran) != 1:
                fails.append(C.Failure("sched/body-not-once", f"task {t}: run/skip invoked {len(ran)} times"))
                continue
            # handed to the pool after the interrupt: goes straight to skip_task
            forced = intr is not None and not any(r[0] == "dispatch" and r[1] == t for r in tr[:intr])
            # dependency order holds for EVERY task, interrupted run or not (a teardown-like task that is skipped still
            # does its teardown work: it must not start while a task it depends on is still in flight)
            for d in s["succ"] + s["compl"]:
                if not pos.get(("receive", d)) or pos[("receive", d)][0] > st[0]:
                    fails.append(C.Failure("sched/started-before-dependency-completed",
                                           f"task {t} started before dependency {d} completed" + (" (after a keyboard interrupt)" if forced else "")))
            bad = [d for d in s["succ"] if obs["results"][str(d)] != "success"]
            if ran[0][0] == "run" and (bad or forced):
                fails.append(C.Failure("sched/ran-despite-failed-dependency", f"task {t} was run although {bad} did not succeed / forced={forced}"))
            ctxp = [i for i, r in enumerate(tr) if r[0] == "ctx" and r[1] == t]
            if ran[0][0] == "skip" and not bad and not forced:
                # only the context may ask for a skip: TaskContext does so only after an interrupt
                if intr is None or not ctxp or ctxp[0] < intr or not tr[ctxp[0]][2]:
                    fails.append(C.Failure("sched/skipped-without-cause", f"task {t} skipped without a failed dependency or abort"))
            if ran[0][0] == "run" and intr is not None and ctxp and ctxp[0] > intr:
                fails.append(C.Failure("sched/ran-after-interrupt", f"task {t} was run although the abort flag was set before its skip check"))
            exp = {"ok": "success", "fail": "failure", "exc": "exception"}.get(s["beh"], "success") if ran[0][0] == "run" else \
                ("exception" if s["beh"] == "skipexc" else "skipped")
            if obs["results"][str(t)] != exp:
                fails.append(C.Failure("sched/wrong-result-class", f"task {t}: result {obs['results'][str(t)]}, expected {exp}"))
            if ran[0][0] == "skip" and bad and not forced:
                first = bad[0]
                want = obs["reasons"][str(first)] if obs["results"][str(first)] in ("failure", "skipped") else None
                if ran[0][2] != want:
                    fails.append(C.Failure("sched/wrong-skip-reason", f"task {t}: skip reason {ran[0][2]!r}, first failed dependency gives {want!r}"))
        anyexc = any(v == "exception" for v in obs["results"].values())
        if anyexc != (obs["outcome"] == "raised-LemoncheesecakeException") and obs["outcome"] != "hang":
            fails.append(C.Failure("sched/exception-not-reported", f"outcome {obs['outcome']} with exception results={anyexc}"))
        # worker bound
        running = 0
        for r in tr:
            if r[0] == "start":
                running += 1
                if running > case["n"]:
                    fails.append(C.Failure("sched/too-many-workers", "more tasks inside workers than threads"))
                    break
            elif r[0] == "finish":
                running -= 1
        return fails

    def request(self, case, obs):
        return {
            "n": case["n"], "tasks": [s["id"] for s in case["tasks"]],
            "succ": [[s["id"], s["succ"]] for s in case["tasks"]],
            "compl": [[s["id"], s["compl"]] for s in case["tasks"]],
            "lvl": [[s["id"], s["lvl"]] for s in case["tasks"]],
            "labels": obs["labels"],
        }

    def compare(self, case, obs, ans):
        if "error" in ans:
            return "model error: " + ans["error"]
        if not ans["wf"]:
            return "model: generated graph not well-formed (generator bug)"
        if obs["outcome"] == "hang":
            # the run never terminated: the oracle reports it (the model has no transition that loses a task, so the
            # trace cannot be accepted beyond the point where the task was lost)
            return None
        if ans["reject"] is not None:
            return f"trace rejected at label {ans['accepted']}: {ans['reject']}"
        if obs["outcome"] != "hang" and not ans["final"]:
            return "implementation returned but the model state is not final"
        mres = {str(t): r for t, r in ans["results"]}
        if obs["outcome"] != "hang" and mres != obs["results"]:
            return f"results differ: model {mres} impl {obs['results']}"
        return None

    def nontrivial(self, case, obs):
        if len(case["tasks"]) < 2:
            return False
        edges = sum(len(s["succ"]) + len(s["compl"]) for s in case["tasks"])
        fin = [r[1] for r in obs["trace"] if r[0] == "finish"]
        order = [s["id"] for s in case["tasks"]]
        reordered = fin != [t for t in order if t in fin]
        return edges >= 1 and (case["n"] == 1 or reordered or case["interrupt_at"] is not None)

    def features(self, case, obs):
        f = [f"n={case['n']}", f"strategy={case['strategy']}", "tasks<=12" if len(case["tasks"]) <= 12 else "tasks>12",
             "outcome=" + obs["outcome"]]
        if case["interrupt_at"]:
            f.append("interrupt-" + case["interrupt_at"][0])
            if any(r[0] == "interrupt" for r in obs["trace"]):
                f.append("interrupt-delivered")
        fin = [r[1] for r in obs["trace"] if r[0] == "finish"]
        order = [s["id"] for s in case["tasks"]]
        if fin != [t for t in order if t in fin]:
            f.append("completion-order-differs-from-list-order")
        f += sorted({"res=" + v for v in obs["results"].values()})
        return f

    def shrink(self, case):
        ts = case["tasks"]
        for i in range(len(ts)):
            rid = ts[i]["id"]
            rest = [dict(t, succ=[d for d in t["succ"] if d != rid], compl=[d for d in t["compl"] if d != rid])
                    for t in ts if t["id"] != rid]
            yield dict(case, tasks=rest)
        if case["interrupt_at"]:
            yield dict(case, interrupt_at=None)
        if case["n"] > 1:
            yield dict(case, n=case["n"] - 1)

"""
Stream `em` (C11): the REAL `lemoncheesecake.events.AsyncEventManager` with a handler that raises on chosen events,
fed by 1..3 producer threads, against the event-manager model (`Model/EventManager.lean`, `drivers/EM.lean`).
Also the table `emQueueBound` (the bound of the real queue, read inside `handle_events`).

Observation: did every `fire` and the exit of `handle_events` return (watchdog), which events the handlers saw, in
which order, the pending failure and whether it carries the original text.
"""
import threading
import time

import common as C

BOOM = "backend boom é #%d"


_MAXSIZE = []


def _real_queue_maxsize():
    """the bound of the queue the REAL `handle_events` creates (0 = unbounded); read once per process"""
    if not _MAXSIZE:
        from lemoncheesecake import events as E
        em = E.AsyncEventManager.load()
        with em.handle_events():
            _MAXSIZE.append(int(getattr(em._queue, "maxsize", 0) or 0))
    return _MAXSIZE[0]


# the largest extracted bound the stream still tries to overflow (events are cheap: ~10 µs each)
MAX_OVERFLOWED_BOUND = 200000


def resolved_n(case, maxsize):
    """`over` = k: the case asks for MORE events after the first handler failure than the queue can hold, whatever
    the extracted bound is: at least bound + k events are fired after the first failing one (nothing consumes them).
    On an unbounded queue (bound 0) the case is its own `n`."""
    n, fails = case["n"], sorted(case["fails"])
    k = case.get("over")
    if k and fails and 0 < maxsize <= MAX_OVERFLOWED_BOUND:
        n = max(n, fails[0] + 1 + maxsize + k)
    return n


def em_table():
    m = _real_queue_maxsize()
    return C.Table("emQueueBound", "List (String × Nat)", [('"queue_maxsize"', str(m), {"queue_maxsize": m})])


class EMStream(C.Stream):
    name = "em"
    driver = "drivers/EM.lean"
    quick_cases = 60
    thorough_cases = 600
    quick_seconds = 12
    thorough_seconds = 120
    chunk = 20
    # a long tail of events after the failure (nobody consumes them any more), from several producers
    hang_signature = "C11/event-manager-hang"
    only_termination = False        # the C01 registration judges termination only (the rest is C11's statement)
    corpus = [{"n": 2600, "fails": [3], "producers": 2, "sched": []},
              # more events after the failure than ANY finite bound the real queue has (resolved against the extracted bound)
              {"n": 12, "fails": [3], "producers": 1, "sched": [], "over": 1},
              {"n": 30, "fails": [0], "producers": 3, "sched": [1, 1, 1], "over": 7},
              {"n": 1200, "fails": [0, 700], "producers": 3, "sched": []},
              {"n": 40, "fails": [], "producers": 1, "sched": [1] * 40}]
    watchdog = 20.0         # whole case
    stall = 1.5             # no event fired / handled for that long while a call is pending = blocked

    def gen(self, rng, i):
        n = rng.choice([0, 1, 2, 5, 17, 40, 120, 400, 1500, 3000])
        k = rng.choice([0, 1, 1, 1, 2])
        fails = sorted(set(rng.randrange(n) for _ in range(k))) if n else []
        if fails and rng.random() < 0.5:
            fails[0] = rng.randrange(min(n, 8))     # an early failure: many events after it
            fails = sorted(set(fails))
        sched = [rng.choice([0, 0, 1, 2]) for _ in range(min(n, 64))]     # model-side interleaving of the handler thread
        case = {"n": n, "fails": fails, "producers": rng.choice([1, 1, 2, 3]), "sched": sched}
        if fails and rng.random() < 0.4:
            case["over"] = rng.choice([1, 1, 2, 5, 50])      # overflow whatever bound the real queue has
        return case

    def impl(self, case):
        from lemoncheesecake import events as E
        fails = set(case["fails"])
        n = resolved_n(case, _real_queue_maxsize())
        em = E.AsyncEventManager.load()
        handled = []

        def handler(event):
            handled.append(event.idx)
            if event.idx in fails:
                raise RuntimeError(BOOM % event.idx)
        em.subscribe_to_event(E.TestSessionSetupStartEvent, handler)
        state = {"fired": 0, "closed": False, "maxsize": None, "error": None, "in_fire": {}, "closing": False}
        turn = threading.Condition()
        nprod = case["producers"]

        def producer(p):
            # the producers take turns so that the firing order is the index order
            while True:
                with turn:
                    while state["fired"] < n and state["fired"] % nprod != p:
                        turn.wait(0.05)
                    if state["fired"] >= n:
                        return
                    i = state["fired"]
                ev = E.TestSessionSetupStartEvent()
                ev.idx = i
                state["in_fire"][p] = i
                em.fire(ev)                     # may block forever if the queue is bounded: the watchdog sees it
                state["in_fire"].pop(p, None)
                with turn:
                    state["fired"] = i + 1
                    turn.notify_all()

        def body():
            try:
                with em.handle_events():
                    state["maxsize"] = int(getattr(em._queue, "maxsize", 0) or 0)
                    ths = [threading.Thread(target=producer, args=(p,), daemon=True) for p in range(nprod)]
                    for t in ths:
                        t.start()
                    for t in ths:
                        t.join()
                    state["closing"] = True
                state["closed"] = True
            except BaseException as e:      # classified, not propagated
                state["error"] = "%s: %s" % (type(e).__name__, e)
        th = threading.Thread(target=body, daemon=True)
        t0 = time.time()
        th.start()
        # the calls under observation run in helper threads: a blocked `fire` / exit is OBSERVED (no progress for
        # `stall` seconds while the call is pending), never suffered
        last, last_t = None, time.time()
        while th.is_alive() and time.time() - t0 < self.watchdog:
            th.join(0.05)
            prog = (state["fired"], len(handled), state["closing"])
            if prog != last:
                last, last_t = prog, time.time()
            elif time.time() - last_t > self.stall:
                break
        hang = th.is_alive()
        blocked_in = None
        if hang:
            blocked_in = "fire" if state["in_fire"] else "close" if state["closing"] else "other"
        exc, text = em.get_pending_failure()
        pending = None
        if exc is not None:
            for i in sorted(fails):
                if str(exc) == BOOM % i:
                    pending = i
        return {"hang": hang, "blocked_in": blocked_in, "blocked_fire": sorted(state["in_fire"].values())[:1] if hang else [],
                "n": n, "fired": state["fired"], "closed": state["closed"], "error": state["error"],
                "handled": list(handled), "pending": pending, "pending_raw": None if exc is None else str(exc),
                "text_ok": exc is None or (pending is not None and (BOOM % pending) in (text or "")),
                "maxsize": state["maxsize"], "wall": round(time.time() - t0, 2)}

    def oracle(self, case, obs):
        out = []
        n, fails = obs.get("n", case["n"]), sorted(case["fails"])
        if obs["hang"] or not obs["closed"]:
            out.append(C.Failure(self.hang_signature % {"where": obs.get("blocked_in") or "exit"} if "%" in self.hang_signature
                                 else self.hang_signature,
                                 "%d of %d events fired, blocked in: %s%s, handle_events exited: %s, after %.1f s (first failing "
                                 "event: %s, queue bound: %s)"
                                 % (obs["fired"], n, obs.get("blocked_in"), " of event %s" % obs["blocked_fire"][0] if obs.get("blocked_fire") else "",
                                    obs["closed"], obs["wall"], fails[:1], obs["maxsize"])))
            return out
        if self.only_termination:
            if obs["error"]:
                out.append(C.Failure(self.hang_signature.split("/")[0] + "/event-manager-raised", obs["error"]))
            return out
        if obs["error"]:
            out.append(C.Failure("C11/event-manager-raised", obs["error"]))
        if fails:
            first = fails[0]
            if obs["pending"] != first:
                out.append(C.Failure("C11/fault-not-recorded", "handler of event %d raised, pending failure is %r"
                                     % (first, obs["pending_raw"])))
            elif not obs["text_ok"]:
                out.append(C.Failure("C11/original-text-lost/event-manager", "the serialized pending failure lacks the original text"))
            if any(i > first for i in obs["handled"]):
                out.append(C.Failure("C11/handled-after-fault", "events handled after the failing one: %s"
                                     % [i for i in obs["handled"] if i > first][:5]))
        elif obs["pending_raw"] is not None:
            out.append(C.Failure("C11/spurious-pending-failure", obs["pending_raw"]))
        return out

    def request(self, case, obs):
        return {"cap": obs["maxsize"] or 0, "n": obs.get("n", case["n"]), "fails": case["fails"], "sched": case["sched"]}

    def compare(self, case, obs, ans):
        if "error" in ans:
            return "model error: " + str(ans["error"])
        m_hang = ans["blocked"] is not None
        if m_hang != bool(obs["hang"]):
            return "model blocked=%r, implementation hang=%r" % (ans["blocked"], obs["hang"])
        if m_hang:
            return None
        if ans["handled"] != obs["handled"]:
            return "handled differ: model %s… impl %s…" % (ans["handled"][-5:], obs["handled"][-5:])
        if ans["pending"] != obs["pending"]:
            return "pending failure differs: model %r impl %r" % (ans["pending"], obs["pending"])
        return None

    def nontrivial(self, case, obs):
        return case["n"] >= 2

    def features(self, case, obs):
        n, fails = case["n"], case["fails"]
        f = ["n=%s" % ("0-5" if n <= 5 else "6-120" if n <= 120 else "121-1000" if n <= 1000 else ">1000"),
             "producers=%d" % case["producers"], "failing=%d" % len(fails)]
        f.append("queue-bound=%s" % ("unbounded" if not obs.get("maxsize") else "finite"))
        if case.get("over"):
            f.append("asks-for-more-than-the-bound")
        if fails:
            after = obs.get("n", n) - 1 - fails[0]
            f.append("events-after-failure=%s" % ("0" if after == 0 else "1-100" if after <= 100 else "101-1000" if after <= 1000 else ">1000"))
        return f

    def shrink(self, case):
        n = case["n"]
        for m in (n // 2, n - 1):
            if 0 <= m < n:
                yield dict(case, n=m, fails=[i for i in case["fails"] if i < m], sched=case["sched"][:m])
        if case["producers"] > 1:
            yield dict(case, producers=1)
        if case.get("over", 0) > 1:
            yield dict(case, over=1)
        for i in range(len(case["fails"])):
            yield dict(case, fails=case["fails"][:i] + case["fails"][i + 1:])

"""
Stream `em` (C11): the REAL `lemoncheesecake.events.AsyncEventManager` with a handler that raises on chosen events,
fed by 1..3 producer threads, against the event-manager model (`Model/EventManager.lean`, `drivers/EM.lean`).
Also the table `emQueueBound` (the bound of the real queue, read inside `handle_events`).

Observation: did every `fire` and the exit of `handle_events` return (watchdog), which events the handlers saw, in
which order, the pending failure and whether it carries the original text.

TIME SCALING (round 5): the outcome of a run must not depend on a wall-clock limit, and a quick check cannot wait for one.  For
the duration of every case the module globals `threading` and `Queue` of lemoncheesecake.events are replaced by shims
(`scaled_time`) whose `Thread.join(timeout=t)`, `Event.wait(t)`, `Condition.wait(t)`, `Queue.get/put(timeout=t)` wait t / 1000
instead (no timeout = wait forever, as before) and which record the timeouts they were given and the threads that were
created.  A handler may be BLOCKED on a harness gate (`case["block"]`) from the moment it is called until the exit of
`handle_events` has been attempted for BLOCK_SECONDS (or has returned): an exit that gives up waiting returns early, and
what it leaves behind is observed at that moment (`obs["at_close"]`).  Tables `emJoinLimit` (the timeout of the join of the
handler thread and the number of timed queue operations, read under the shim).
"""
import queue as _queue
import threading
import time
from contextlib import contextmanager

import common as C

BOOM = "backend boom é #%d"
TIME_SCALE = 1000.0
BLOCK_SECONDS = 0.15


def _scale(t):
    return None if t is None else max(0.0, t / TIME_SCALE)


@contextmanager
def scaled_time():
    """replaces the `threading` / `Queue` globals of lemoncheesecake.events; yields the log
    {"joins": [timeout…], "waits": [...], "queue_timeouts": [...], "threads": [Thread…]}"""
    from lemoncheesecake import events as E
    log = {"joins": [], "waits": [], "queue_timeouts": [], "threads": []}

    class Thread(threading.Thread):
        def __init__(self, *a, **k):
            threading.Thread.__init__(self, *a, **k)
            # (the inherited flag says nothing: the harness runs the case on a daemon thread) — what the code ASKED for
            self.daemon_requested = k.get("daemon")
            log["threads"].append(self)

        def join(self, timeout=None):
            log["joins"].append(timeout)
            return threading.Thread.join(self, _scale(timeout))

    class Event(threading.Event):
        def wait(self, timeout=None):
            log["waits"].append(timeout)
            return threading.Event.wait(self, _scale(timeout))

    class Condition(threading.Condition):
        def wait(self, timeout=None):
            log["waits"].append(timeout)
            return threading.Condition.wait(self, _scale(timeout))

    class Queue(_queue.Queue):
        def get(self, block=True, timeout=None):
            if timeout is not None:
                log["queue_timeouts"].append(timeout)
            return _queue.Queue.get(self, block, _scale(timeout))

        def put(self, item, block=True, timeout=None):
            if timeout is not None:
                log["queue_timeouts"].append(timeout)
            return _queue.Queue.put(self, item, block, _scale(timeout))

    class Shim:
        def __getattr__(self, name):
            return getattr(threading, name)
    shim = Shim()
    shim.Thread, shim.Event, shim.Condition = Thread, Event, Condition
    saved = (E.threading, E.Queue)
    E.threading, E.Queue = shim, Queue
    try:
        yield log
    finally:
        E.threading, E.Queue = saved


_MAXSIZE = []


def _real_queue_maxsize():
    """the bound of the queue the REAL `handle_events` creates (0 = unbounded); read once per process"""
    if not _MAXSIZE:
        from lemoncheesecake import events as E
        em = E.AsyncEventManager.load()
        with em.handle_events():
            _MAXSIZE.append(int(getattr(em._queue, "maxsize", 0) or 0))
    return _MAXSIZE[0]


# the largest extracted bound the stream still tries to overflow (events are cheap: ~10 µs each)
MAX_OVERFLOWED_BOUND = 200000


def resolved_n(case, maxsize):
    """`over` = k: the case asks for MORE events after the first handler failure than the queue can hold, whatever
    the extracted bound is: at least bound + k events are fired after the first failing one (nothing consumes them).
    On an unbounded queue (bound 0) the case is its own `n`."""
    n, fails = case["n"], sorted(case["fails"])
    k = case.get("over")
    if k and fails and 0 < maxsize <= MAX_OVERFLOWED_BOUND:
        n = max(n, fails[0] + 1 + maxsize + k)
    return n


def em_table():
    m = _real_queue_maxsize()
    return C.Table("emQueueBound", "List (String × Nat)", [('"queue_maxsize"', str(m), {"queue_maxsize": m})])


def _ms(t):
    return 0 if t is None else max(1, int(t * 1000))


def em_join_table():
    """the wall-clock limits of the real `handle_events`, read under the time shim on a run of three events: the timeout given to
    the join of the handler thread (0 = none: `thread.join()`) and the number of queue operations with a timeout"""
    from lemoncheesecake import events as E
    with scaled_time() as log:
        em = E.AsyncEventManager.load()
        em.subscribe_to_event(E.TestSessionSetupStartEvent, lambda event: None)
        with em.handle_events():
            for _ in range(3):
                em.fire(E.TestSessionSetupStartEvent())
    j = max([_ms(t) for t in log["joins"]] or [0])
    rows = [('"join_timeout_ms"', str(j), {"join_timeouts": [repr(t) for t in log["joins"]]}),
            ('"timed_queue_operations"', str(len(log["queue_timeouts"])), {"queue_timeouts": [repr(t) for t in log["queue_timeouts"]]}),
            ('"handler_thread_joined"', str(0 if log["joins"] else 1), {"joins": len(log["joins"])})]
    return C.Table("emJoinLimit", "List (String × Nat)", rows)


class EMStream(C.Stream):
    name = "em"
    driver = "drivers/EM.lean"
    quick_cases = 60
    thorough_cases = 600
    quick_seconds = 15
    thorough_seconds = 120
    chunk = 20
    # a long tail of events after the failure (nobody consumes them any more), from several producers
    hang_signature = "C11/event-manager-hang"
    only_termination = False        # the C01 registration judges termination only (the rest is C11's statement)
    corpus = [{"n": 2600, "fails": [3], "producers": 2, "sched": []},
              # more events after the failure than ANY finite bound the real queue has (resolved against the extracted bound)
              {"n": 12, "fails": [3], "producers": 1, "sched": [], "over": 1},
              {"n": 30, "fails": [0], "producers": 3, "sched": [1, 1, 1], "over": 7},
              {"n": 1200, "fails": [0, 700], "producers": 3, "sched": []},
              {"n": 40, "fails": [], "producers": 1, "sched": [1] * 40},
              # a handler blocked while the exit of handle_events is attempted; a later handler raises / nothing raises
              {"n": 6, "fails": [4], "producers": 1, "sched": [], "block": {"at": 1}},
              {"n": 3, "fails": [], "producers": 1, "sched": [], "block": {"at": 0}},
              {"n": 300, "fails": [299], "producers": 2, "sched": [1] * 10, "block": {"at": 10}}]
    watchdog = 20.0         # whole case
    stall = 1.5             # no event fired / handled for that long while a call is pending = blocked
    p_block = 0.35

    def gen(self, rng, i):
        n = rng.choice([0, 1, 2, 5, 17, 40, 120, 400, 1500, 3000])
        k = rng.choice([0, 1, 1, 1, 2])
        fails = sorted(set(rng.randrange(n) for _ in range(k))) if n else []
        if fails and rng.random() < 0.5:
            fails[0] = rng.randrange(min(n, 8))     # an early failure: many events after it
            fails = sorted(set(fails))
        sched = [rng.choice([0, 0, 1, 2]) for _ in range(min(n, 64))]     # model-side interleaving of the handler thread
        case = {"n": n, "fails": fails, "producers": rng.choice([1, 1, 2, 3]), "sched": sched}
        if n and rng.random() < self.p_block:
            # the handler of event `at` is blocked until the exit of handle_events has been attempted for BLOCK_SECONDS: half of the
            # time before the first failing event (the failure happens after the block)
            at = rng.randrange(fails[0]) if fails and fails[0] > 0 and rng.random() < 0.5 else rng.randrange(n)
            case["block"] = {"at": at}
            case["sched"] = [k if j < at else 0 for j, k in enumerate(sched)]     # model side: the handler thread does not get past `at`
        if fails and not case.get("block") and rng.random() < 0.4:
            case["over"] = rng.choice([1, 1, 2, 5, 50])      # overflow whatever bound the real queue has
        return case

    def impl(self, case):
        from lemoncheesecake import events as E
        with scaled_time() as tlog:
            return self._impl(case, E, tlog)

    def _impl(self, case, E, tlog):
        fails = set(case["fails"])
        n = resolved_n(case, _real_queue_maxsize())
        block_at = (case.get("block") or {}).get("at")
        closing, release = threading.Event(), threading.Event()
        em = E.AsyncEventManager.load()
        handled = []

        def handler(event):
            handled.append(event.idx)
            if event.idx == block_at:
                state["blocked"] = True
                closing.wait(self.watchdog)             # ... until the exit of handle_events is attempted
                release.wait(BLOCK_SECONDS)             # ... and has been waiting for BLOCK_SECONDS (or has returned)
            if event.idx in fails:
                raise RuntimeError(BOOM % event.idx)
        em.subscribe_to_event(E.TestSessionSetupStartEvent, handler)
        state = {"fired": 0, "closed": False, "maxsize": None, "error": None, "blocked": False, "at_close": None,
                 "in_fire": {}, "closing": False}
        turn = threading.Condition()
        nprod = case["producers"]

        def producer(p):
            # the producers take turns so that the firing order is the index order
            while True:
                with turn:
                    while state["fired"] < n and state["fired"] % nprod != p:
                        turn.wait(0.05)
                    if state["fired"] >= n:
                        return
                    i = state["fired"]
                ev = E.TestSessionSetupStartEvent()
                ev.idx = i
                state["in_fire"][p] = i
                em.fire(ev)                     # may block forever if the queue is bounded: the watchdog sees it
                state["in_fire"].pop(p, None)
                with turn:
                    state["fired"] = i + 1
                    turn.notify_all()

        def body():
            try:
                with em.handle_events():
                    state["maxsize"] = int(getattr(em._queue, "maxsize", 0) or 0)
                    ths = [threading.Thread(target=producer, args=(p,), daemon=True) for p in range(nprod)]
                    for t in ths:
                        t.start()
                    for t in ths:
                        t.join()
                    state["closing"] = True
                    closing.set()
                # what the caller of handle_events finds when it returns
                exc0 = em.get_pending_failure()[0]
                state["at_close"] = {"handled": list(handled), "pending_raw": None if exc0 is None else str(exc0),
                                     "threads_alive": sum(1 for t in tlog["threads"] if t.is_alive()),
                                     "daemon": [t.daemon_requested for t in tlog["threads"]]}
                state["closed"] = True
            except BaseException as e:      # classified, not propagated
                state["error"] = "%s: %s" % (type(e).__name__, e)
            finally:
                closing.set()
                release.set()
        th = threading.Thread(target=body, daemon=True)
        t0 = time.time()
        th.start()
        # the calls under observation run in helper threads: a blocked `fire` / exit is OBSERVED (no progress for
        # `stall` seconds while the call is pending), never suffered
        last, last_t = None, time.time()
        while th.is_alive() and time.time() - t0 < self.watchdog:
            th.join(0.05)
            prog = (state["fired"], len(handled), state["closing"])
            if prog != last:
                last, last_t = prog, time.time()
            elif time.time() - last_t > self.stall:
                break
        hang = th.is_alive()
        blocked_in = None
        if hang:
            blocked_in = "fire" if state["in_fire"] else "close" if state["closing"] else "other"
            closing.set()
            release.set()
        for t in list(tlog["threads"]):         # a handler thread left behind by the exit gets the time to finish what it does
            threading.Thread.join(t, 2.0)
        exc, text = em.get_pending_failure()
        pending = None
        if exc is not None:
            for i in sorted(fails):
                if str(exc) == BOOM % i:
                    pending = i
        return {"hang": hang, "blocked_in": blocked_in, "blocked_fire": sorted(state["in_fire"].values())[:1] if hang else [],
                "n": n, "fired": state["fired"], "closed": state["closed"], "error": state["error"],
                "handled": list(handled), "pending": pending, "pending_raw": None if exc is None else str(exc),
                "text_ok": exc is None or (pending is not None and (BOOM % pending) in (text or "")),
                "maxsize": state["maxsize"], "wall": round(time.time() - t0, 2),
                "blocked": state["blocked"], "at_close": state["at_close"],
                "join_timeouts": [None if t is None else float(t) for t in tlog["joins"]],
                "queue_timeouts": [float(t) for t in tlog["queue_timeouts"]]}

    def oracle(self, case, obs):
        out = []
        n, fails = obs.get("n", case["n"]), sorted(case["fails"])
        if obs["hang"] or not obs["closed"]:
            out.append(C.Failure(self.hang_signature % {"where": obs.get("blocked_in") or "exit"} if "%" in self.hang_signature
                                 else self.hang_signature,
                                 "%d of %d events fired, blocked in: %s%s, handle_events exited: %s, after %.1f s (first failing "
                                 "event: %s, queue bound: %s)"
                                 % (obs["fired"], n, obs.get("blocked_in"), " of event %s" % obs["blocked_fire"][0] if obs.get("blocked_fire") else "",
                                    obs["closed"], obs["wall"], fails[:1], obs["maxsize"])))
            return out
        if self.only_termination:
            if obs["error"]:
                out.append(C.Failure(self.hang_signature.split("/")[0] + "/event-manager-raised", obs["error"]))
            return out
        if obs["error"]:
            out.append(C.Failure("C11/event-manager-raised", obs["error"]))
        if fails:
            first = fails[0]
            if obs["pending"] != first:
                out.append(C.Failure("C11/fault-not-recorded", "handler of event %d raised, pending failure is %r"
                                     % (first, obs["pending_raw"])))
            elif not obs["text_ok"]:
                out.append(C.Failure("C11/original-text-lost/event-manager", "the serialized pending failure lacks the original text"))
            if any(i > first for i in obs["handled"]):
                out.append(C.Failure("C11/handled-after-fault", "events handled after the failing one: %s"
                                     % [i for i in obs["handled"] if i > first][:5]))
        elif obs["pending_raw"] is not None:
            out.append(C.Failure("C11/spurious-pending-failure", obs["pending_raw"]))
        # ---- at the moment handle_events returned (nothing is silently lost, whatever the time the handlers take) ----
        ac = obs.get("at_close")
        if ac is not None:
            blk = " (the handler of event %d was blocked while the exit was attempted)" % case["block"]["at"] if case.get("block") else ""
            missing = [i for i in range(obs["fired"]) if i not in set(ac["handled"])]
            if missing and ac["pending_raw"] is None:
                out.append(C.Failure("C11/events-lost-after-close", "handle_events returned with %d of %d fired events not handled (first: %s) "
                                     "and no pending failure%s" % (len(missing), obs["fired"], missing[:3], blk)))
            if fails and ac["pending_raw"] != BOOM % fails[0]:
                out.append(C.Failure("C11/failure-not-reported", "handle_events returned, the pending failure the caller reads is %r although the handler "
                                     "of event %d raises%s" % (ac["pending_raw"], fails[0], blk)))
            if ac["threads_alive"]:
                out.append(C.Failure("C11/handler-thread-alive-after-close", "%d event-handling thread(s) still alive when handle_events returned "
                                     "(daemon: %s)%s" % (ac["threads_alive"], ac["daemon"], blk)))
            if obs["handled"] != ac["handled"]:
                out.append(C.Failure("C11/handled-after-close", "%d event(s) were handled after handle_events had returned"
                                     % (len(obs["handled"]) - len(ac["handled"]))))
        return out

    def request(self, case, obs):
        return {"cap": obs["maxsize"] or 0, "n": obs.get("n", case["n"]), "fails": case["fails"], "sched": case["sched"], "join_limit": None}

    def compare(self, case, obs, ans):
        if "error" in ans:
            return "model error: " + str(ans["error"])
        m_hang = ans["blocked"] is not None
        if m_hang != bool(obs["hang"]):
            return "model blocked=%r, implementation hang=%r" % (ans["blocked"], obs["hang"])
        if m_hang:
            return None
        if ans["handled"] != obs["handled"]:
            return "handled differ: model %s… impl %s…" % (ans["handled"][-5:], obs["handled"][-5:])
        if ans["pending"] != obs["pending"]:
            return "pending failure differs: model %r impl %r" % (ans["pending"], obs["pending"])
        if any(t is not None for t in obs.get("join_timeouts") or []) or obs.get("queue_timeouts"):
            return ("handle_events waits with a wall-clock limit (join timeouts %r, queue timeouts %r): the model's exit is the unlimited one "
                    "(EM.closeWithin none)" % (obs.get("join_timeouts"), obs.get("queue_timeouts")))
        ac = obs.get("at_close")
        if ac is not None:
            if ans["handled"] != ac["handled"]:
                return "handled when handle_events returned differ: model %s… impl %s…" % (ans["handled"][-5:], ac["handled"][-5:])
            mp = None if ans["pending"] is None else BOOM % ans["pending"]
            if mp != ac["pending_raw"]:
                return "pending failure when handle_events returned differs: model %r impl %r" % (mp, ac["pending_raw"])
            if ans.get("thread_ended") != (ac["threads_alive"] == 0):
                return "handler thread ended: model %r, impl alive threads %d" % (ans.get("thread_ended"), ac["threads_alive"])
        return None

    def nontrivial(self, case, obs):
        return case["n"] >= 2

    def features(self, case, obs):
        n, fails = case["n"], case["fails"]
        f = ["n=%s" % ("0-5" if n <= 5 else "6-120" if n <= 120 else "121-1000" if n <= 1000 else ">1000"),
             "producers=%d" % case["producers"], "failing=%d" % len(fails)]
        f.append("queue-bound=%s" % ("unbounded" if not obs.get("maxsize") else "finite"))
        if case.get("over"):
            f.append("asks-for-more-than-the-bound")
        if fails:
            after = obs.get("n", n) - 1 - fails[0]
            f.append("events-after-failure=%s" % ("0" if after == 0 else "1-100" if after <= 100 else "101-1000" if after <= 1000 else ">1000"))
        if case.get("block"):
            f.append("handler-blocked-at-exit" if obs.get("blocked") else "block-not-reached")
            if obs.get("blocked"):
                f.append("blocked-handler+" + ("failure-after-the-block" if fails and fails[0] >= case["block"]["at"] else
                                               "failure-before-the-block" if fails else "no-failure"))
        ac = obs.get("at_close") or {}
        if ac.get("daemon"):
            f.append("handler-thread-daemon-requested=%s" % ac["daemon"][0])
        return f

    def shrink(self, case):
        n = case["n"]
        for m in (n // 2, n - 1):
            if 0 <= m < n:
                yield dict(case, n=m, fails=[i for i in case["fails"] if i < m], sched=case["sched"][:m])
        if case.get("block"):
            b = case["block"]["at"]
            if b > 0:
                yield dict(case, block={"at": b // 2}, sched=[k if j < b // 2 else 0 for j, k in enumerate(case["sched"])])
        if case["producers"] > 1:
            yield dict(case, producers=1)
        if case.get("over", 0) > 1:
            yield dict(case, over=1)
        for i in range(len(case["fails"])):
            yield dict(case, fails=case["fails"][:i] + case["fails"][i + 1:])

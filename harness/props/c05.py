"""C05 — the report does not depend on the schedule: N threads equals one thread."""
import common as C
from props._runcommon import RUN_TRUSTED, RUN_ASSUMPTIONS, PropRunStream
from run import selftest as W
from run import witnesses2 as W2

PROPERTY = "C05"
LEAN_MODULES = ["LccModel.Props.C05", "LccModel.Props.C05Run"]
PROPS_FILES = ["LccModel/Props/C05.lean", "LccModel/Props/C05Run.lean"]
NAMESPACES = {"LccModel/Props/C05.lean": "LccModel.C05", "LccModel/Props/C05Run.lean": "LccModel.C05Run"}
DRIVER = "drivers/Run.lean"
TRUSTED_BASE = RUN_TRUSTED + ["C05.sched: before the verified check runs, times are replaced by positions and thread ids by one id per (result location, real thread) in the N-thread stream, and the 1-thread stream is re-labelled with the labels of the matching N-thread events (harness/props/c05.py `relabel`); that such a re-labelling does not change the folded report is validated per pair (views_equal; C05.run folds the un-relabelled stream and compares it with the real report), not proved", "every N-thread run is compared with a 1-thread run of the same project by the oracle (timestamp-free normal forms, attachments by content)"]
ASSUMPTIONS = RUN_ASSUMPTIONS + ["schedule-independent features only (profile 'independent': no Abort*, no --stop-on-failure, no per-thread fixtures); sibling ranks pairwise distinct (declared tests always have distinct ranks; tests added with add_test_into_suite get one since fix a149e47)"]
RULE = 'generated project (harness/run/gen.py) × nb_threads 1..8 × gate strategy (off/fifo/lifo/random) forcing completion orders; non-trivial = ≥ 2 tests, ≥ 1 body entered, ≥ 8 events; distinct = hash of the case (project + schedule parameters); C05 additionally needs N ≥ 2 and a completion order that differs from the declaration order'
EXPLANATION = "Two streams with the same events that order every two dependent events alike are swap-equivalent (projection lemma, Lemmas/WriterTrace.lean) and therefore fold to reports with the same content and, under distinct sibling ranks, equal views (report_independent_of_schedule); the hypotheses are decided by the verified boolean scheduleCheckB on every pair (N-thread run, 1-thread run) of real fired streams (stream C05.sched). The writer's result is invariant under swaps of independent events and the rank-sorted view removes arrival order under distinct sibling ranks (Lean theorems); every N-thread run is replayed on the composed model (whose per-task outputs are functions of the project, not of the schedule) and compared by the oracle with the 1-thread run."


def witness(title_prefix):
    """corpus case built from the hand-written witness table of harness/run/selftest.py"""
    for title, sig, project, cfg in W.WITNESSES:
        if title.startswith(title_prefix):
            return {"project": dict(project, nb_threads=cfg["n"]), "strategy": cfg["strategy"], "gseed": cfg["gseed"],
                    "interrupt": cfg["interrupt"], "fault": cfg["fault"]}
    raise KeyError(title_prefix)



def distinct_ranks(project):
    """the C05 hypothesis: sibling ranks pairwise distinct (re-number in declaration order)"""
    import copy
    p = copy.deepcopy(project)

    def fix(suites):
        for i, s in enumerate(suites):
            s["rank"] = i + 1
            for j, t in enumerate(s["tests"]):
                t["rank"] = j + 1
            fix(s["suites"])
    fix(p["suites"])
    return p


class Run(PropRunStream):
    name = "C05.run"
    prop = "C05"
    profile = "independent"
    oracles = ("C05",)
    threads = (2, 2, 3, 4, 8)
    strategies = ("fifo", "lifo", "random", "random")
    quick_cases = 330
    quick_seconds = 60
    corpus = [witness("(control) distinct ranks")] + W2.CONTROLS

    def gen(self, rng, i):
        case = super().gen(rng, i)
        case["project"] = distinct_ranks(case["project"])
        return case


import re as _re
from gen import reports as _R
from run import observe as _O

_ATT = _re.compile(r"^(attachments/)\d{4}_")


def _key(e):
    """what identifies an event across two schedules of one run: everything but thread id, time and the global
    attachment counter"""
    d = {k: v for k, v in e.items() if k not in ("tid", "t")}
    if d.get("e") == "att" and isinstance(d.get("file"), str):
        d["file"] = _ATT.sub(r"\1", d["file"])
    return C.case_hash(d)


def relabel(base, ref):
    """the events of `base` (1-thread run), each carrying the thread id / time / attachment number of the event of `ref`
    (N-thread run) with the same key and the same occurrence number; None when the two runs did not fire the same events"""
    pool = {}
    for e in ref:
        pool.setdefault(_key(e), []).append(e)
    out = []
    for e in base:
        lst = pool.get(_key(e))
        if not lst:
            return None
        out.append(lst.pop(0))
    return out if not any(pool.values()) else None


class Sched(PropRunStream):
    """The hypotheses of `C05.report_independent_of_schedule`, checked by the VERIFIED boolean `scheduleCheckB`
    (Lemmas/WriterTrace.lean, theorem `checked_schedules_give_the_same_report`) on every pair (N-thread run, 1-thread run)
    of real fired streams: same events, no event twice, every two dependent events in the same order, handled without
    error by the writer.  The 1-thread stream is re-labelled with the thread ids / times of the matching N-thread events
    (thread ids and times are the only things two schedules of one run may differ in)."""
    name = "C05.sched"
    prop = "C05"
    driver = "drivers/C05.lean"
    profile = "independent"
    oracles = ()
    threads = (2, 2, 3, 4, 8)
    strategies = ("fifo", "lifo", "random", "random")
    quick_cases = 90
    quick_seconds = 25
    thorough_cases = 900
    thorough_seconds = 250
    max_events = 170
    corpus = [witness("(control) distinct ranks")] + W2.CONTROLS[:1]

    def gen(self, rng, i):
        case = super().gen(rng, i)
        case["project"] = distinct_ranks(case["project"])
        return case

    def impl(self, case):
        obs = _O.run_project(case["project"], strategy=case["strategy"], gate_seed=case["gseed"])
        base = _O.run_project(dict(case["project"], nb_threads=1), strategy="off")
        fired = lambda o: [r[2] for r in o["trace"] if r[0] == "fire"]
        return {"outcome": obs["outcome"], "outcome1": base["outcome"], "fired": fired(obs), "fired1": fired(base),
                "trace": [], "report": obs.get("report")}

    def oracle(self, case, obs):
        return []           # the statement-level comparison of the two reports is C05.run's oracle

    def request(self, case, obs):
        if "returned" not in obs["outcome"] or "returned" not in obs["outcome1"]:
            return None
        if len(obs["fired"]) > self.max_events:
            return None
        # labels: time := position in the N-thread stream (the observer blanks wall-clock times; events must be
        # distinguishable), thread id := one id per (result location, real thread) — a worker that runs two tests one
        # after the other is two "threads" for the writer, whose only use of the id is the key of the open step
        table = {}
        a = []
        for i, e in enumerate(obs["fired"]):
            e = dict(e, t=i + 1)
            if "tid" in e:
                e["tid"] = table.setdefault((C.case_hash(e.get("loc")), e["tid"]), len(table) + 1)
            a.append(e)
        b = relabel(obs["fired1"], a)
        if b is None:
            b = [dict(e, t=i + 1) for i, e in enumerate(obs["fired1"])]      # not the same events: the check says so
        return {"a": _R.wire(a), "b": _R.wire(b)}

    def compare(self, case, obs, ans):
        if "error" in ans:
            return "model error: " + str(ans["error"])
        if not ans["check"]:
            return ("the two schedules do not satisfy the hypotheses of C05.report_independent_of_schedule: nodup=%s perm=%s "
                    "dependent-order=%s disciplined=%s first offending pair: %s"
                    % (ans["nodup"], ans["perm"], ans["order"], ans["disciplined"], _R.unwire(ans["bad_pair"])))
        if not ans["views_equal"] or not ans["disciplined_b"]:
            return "the check holds but the folded views differ (would contradict the theorem)"
        return None

    def nontrivial(self, case, obs):
        return len(obs["fired"]) >= 8 and obs["fired"] != obs["fired1"]

    def features(self, case, obs):
        n = len(obs["fired"])
        f = ["events=%s" % ("<=40" if n <= 40 else "41-100" if n <= 100 else "101-170" if n <= 170 else ">170 (not checked)"),
             "threads=%d" % case["project"]["nb_threads"]]
        same = [dict(e, tid=0, t=0) for e in obs["fired"]] == [dict(e, tid=0, t=0) for e in obs["fired1"]]
        f.append("same-order-as-1-thread" if same else "reordered")
        return f


def streams(ctx):
    return [Run(), Sched()]

"""C05 — the report does not depend on the schedule: N threads equals one thread.

Streams
  C05.run    generated projects through the REAL runner with N threads and forced completion orders, replayed on the run
             acceptor and compared by the oracle with the 1-thread run of the same project.
  C05.desc   the matching layer under line-level pre-emption: 2..4 real threads, each a test of one real Session, perform
             check_that / require_that / assert_that / check_that_in with real matchers (not_(), composites, user-defined
             Matcher subclasses whose build_description applies the transformer several times) while the sys.settrace line
             scheduler pre-empts between any two source lines of lemoncheesecake/matching/**; oracle: every thread records
             exactly the checks (description, outcome, details) it records when the same calls are made by ONE thread;
             model: the recorded descriptions are Matcher.checkDescription (drivers/C17.lean) and no
             MatcherDescriptionTransformer object is touched by two threads (the hypothesis of LccModel.C05Desc).
"""
import os
import shutil
import tempfile
import threading

import common as C
from props._runcommon import RUN_TRUSTED, RUN_ASSUMPTIONS, PropRunStream
from run import selftest as W
from run import witnesses2 as W2

PROPERTY = "C05"
LEAN_MODULES = ["LccModel.Props.C05", "LccModel.Props.C05Run", "LccModel.Props.C05Desc",
                "LccModel.Model.MatcherJson", "LccModel.Proto"]        # the last two: what drivers/C17.lean (stream C05.desc) imports
PROPS_FILES = ["LccModel/Props/C05.lean", "LccModel/Props/C05Run.lean", "LccModel/Props/C05Desc.lean"]
NAMESPACES = {"LccModel/Props/C05.lean": "LccModel.C05", "LccModel/Props/C05Run.lean": "LccModel.C05Run",
              "LccModel/Props/C05Desc.lean": "LccModel.C05Desc"}
DRIVER = "drivers/Run.lean"
TRUSTED_BASE = RUN_TRUSTED + ["C05.sched: the 'real stream' of a run is what the recording event manager saw in fire(): event.time (rounded to ms), event.thread_id, the raw attachment name attachments/%04d_name (harness/run/observe.py `fire_raw`, `att_names`; harness/props/c05.py `real_stream`). The harness's re-labelling (times := positions, one thread id per (result location, real thread), the 1-thread events matched onto the N-thread ones) is NOT trusted: the verified boolean nThreadsCheckB checks that the re-labelled streams are the real ones up to a thread-id table (injective on (location, thread id) pairs, or lookup-preserving where CPython re-used thread idents), times and attachment counters, and C05.n_threads_equals_one_thread carries the conclusion back to the real streams", "every N-thread run is compared with a 1-thread run of the same project by the oracle (timestamp-free normal forms, attachments by content)",
                              "hand-written models Model/Matcher.lean (descriptions, shared with C16/C17) and Model/Interleave.lean (M12c: threads taking atomic steps on a heap of "
                              "MatcherDescriptionTransformer objects); stream C05.desc: harness/props/c05.py + harness/sched/linesched.py (pre-emption between source lines of "
                              "lemoncheesecake/matching/**, not inside a line); the transformer objects a thread applies or writes are observed through the class's own __call__ / __setattr__"]
ASSUMPTIONS = RUN_ASSUMPTIONS + ["schedule-independent features only (profile 'independent': no Abort*, no --stop-on-failure, no per-thread fixtures); sibling ranks pairwise distinct (declared tests always have distinct ranks — the variants of one parametrized test too since fix N5: `rank + idx / (idx + 1)`, theorem C05Decl.loaded_suite_sibling_ranks_distinct; tests added with add_test_into_suite get one since fix a149e47)"]
RULE = 'C05.desc: 2..4 real threads × 1..5 checks each (check_that / require_that / assert_that / check_that_in; matcher expressions of harness/gen/matchers.py incl. not_, composites, user-defined Matcher subclasses under not_/composites) under the seeded line scheduler over lemoncheesecake/matching/**; non-trivial = the recorded line trace switches threads inside the matching layer and ≥ 2 threads recorded a check.  C05.run / C05.sched: generated project (harness/run/gen.py) × nb_threads 1..8 × gate strategy (off/fifo/lifo/random) forcing completion orders; non-trivial = ≥ 2 tests, ≥ 1 body entered, ≥ 8 events; distinct = hash of the case (project + schedule parameters); C05 additionally needs N ≥ 2 and a completion order that differs from the declaration order'
EXPLANATION = "Description building by several threads at once: threads that only touch transformer objects of their own compute under any schedule what they compute alone (LccModel.C05Desc, generic over the threads' code, instantiated on in-place negating description programs, refuted for a shared transformer); the hypothesis is observed on every real call. n_threads_equals_one_thread: the REAL streams of an N-thread run and of a 1-thread run (real thread ids, times, attachment names), both inside the discipline, whose re-labelled versions (thread ids through tables injective on (location, thread id) pairs or lookup-preserving; times and attachment counters changed, zero-ness of step-end times kept) have the same events and order every two dependent events alike, fold to reports with the same content up to timestamps and, under distinct sibling ranks, equal rank-sorted views up to timestamps (eraseTimes). Ingredients: projection lemma + swap-equivalence (report_independent_of_schedule), the writer commutes with re-labellings of the labels it only copies (only_timestamps_differ), thread ids are only keys of active_steps (thread_ids_are_only_keys). All hypotheses are decided by the verified boolean nThreadsCheckB on every pair (N-thread run, 1-thread run) of real fired streams (stream C05.sched). Every N-thread run is also replayed on the composed model (whose per-task outputs are functions of the project, not of the schedule) and compared by the oracle with the 1-thread run."


def witness(title_prefix):
    """corpus case built from the hand-written witness table of harness/run/selftest.py"""
    for title, sig, project, cfg in W.WITNESSES:
        if title.startswith(title_prefix):
            return {"project": dict(project, nb_threads=cfg["n"]), "strategy": cfg["strategy"], "gseed": cfg["gseed"],
                    "interrupt": cfg["interrupt"], "fault": cfg["fault"]}
    raise KeyError(title_prefix)



def distinct_ranks(project):
    """the C05 hypothesis: sibling ranks pairwise distinct (re-number in declaration order)"""
    import copy
    p = copy.deepcopy(project)

    def fix(suites):
        for i, s in enumerate(suites):
            s["rank"] = i + 1
            for j, t in enumerate(s["tests"]):
                t["rank"] = j + 1
            fix(s["suites"])
    fix(p["suites"])
    return p


class Run(PropRunStream):
    name = "C05.run"
    prop = "C05"
    profile = "independent"
    oracles = ("C05",)
    threads = (2, 2, 3, 4, 8)
    strategies = ("fifo", "lifo", "random", "random")
    quick_cases = 330
    quick_seconds = 60
    p_files = 0.5               # the real json backend + a --save-report strategy: the SAVED report.js is compared too
    corpus = [W2.SAVED_ORDER] + [witness("(control) distinct ranks")] + W2.CONTROLS4 + W2.CONTROLS

    def gen(self, rng, i):
        case = super().gen(rng, i)
        case["project"] = distinct_ranks(case["project"])
        return case


import re as _re
from gen import reports as _R
from run import observe as _O

_ATT = _re.compile(r"^(attachments/)\d{4}_")


def _key(e):
    """what identifies an event across two schedules of one run: everything but thread id, time and the global
    attachment counter"""
    d = {k: v for k, v in e.items() if k not in ("tid", "t")}
    if d.get("e") == "att" and isinstance(d.get("file"), str):
        d["file"] = _ATT.sub(r"\1", d["file"])
    return C.case_hash(d)


def match(base, ref):
    """for every event of `base` (1-thread run) the index of the event of `ref` (N-thread run) with the same key and the same
    occurrence number; None when the two runs did not fire the same events.  (An untrusted matching: what is built from it
    is checked by the verified boolean.)"""
    pool = {}
    for i, e in enumerate(ref):
        pool.setdefault(_key(e), []).append(i)
    out = []
    for e in base:
        lst = pool.get(_key(e))
        if not lst:
            return None
        out.append(lst.pop(0))
    return out if not any(pool.values()) else None


def labels(real_n, real_1, m):
    """thread-id tables for the two real streams: one label per class of (result location, real thread id) pairs, two pairs
    being in one class when a matched pair of events connects them.  Without thread-ident re-use this is one label per
    (location, real thread) of the N-thread run and the 1-thread pairs get the label of their matching pair; CPython re-uses
    the ident of an ended thread, so either run may identify two lcc.Threads (run one after the other) that the other run
    tells apart — the classes then merge their ids in the run that separates them."""
    parent = {}

    def find(x):
        parent.setdefault(x, x)
        while parent[x] != x:
            parent[x] = parent[parent[x]]
            x = parent[x]
        return x
    pair = lambda side, e: (side, C.case_hash(e.get("loc")), e["tid"])
    for e in real_n:
        if "tid" in e:
            find(pair("N", e))
    if m is not None:
        for e1, i in zip(real_1, m):
            if "tid" in e1:
                parent[find(pair("1", e1))] = find(pair("N", real_n[i]))
    ids, tabs = {}, {"N": [], "1": []}
    for side, stream in (("N", real_n), ("1", real_1 if m is not None else [])):
        seen = set()
        for e in stream:
            if "tid" in e and pair(side, e) not in seen:
                seen.add(pair(side, e))
                tabs[side].append([e["loc"], e["tid"], ids.setdefault(find(pair(side, e)), len(ids) + 1)])
    return tabs["N"], tabs["1"]


def real_stream(o):
    """the fired events AS THE WRITER RECEIVES THEM: the event's own thread_id and time (ms), the raw attachment file name
    (`attachments/%04d_name`) — the recorder's canonical trace has thread numbers, t = 0 and un-prefixed names instead"""
    raw_names = {i: n for i, n in o.get("att_names", [])}
    out, k = [], 0
    for i, r in enumerate(o["trace"]):
        if r[0] != "fire":
            continue
        e = dict(r[2])
        t, tid = o["fire_raw"][k]
        k += 1
        e["t"] = t
        if "tid" in e:
            e["tid"] = tid
        if i in raw_names:
            e["file"] = raw_names[i]
        out.append(e)
    return out


class Sched(PropRunStream):
    """The hypotheses of `C05.n_threads_equals_one_thread`, checked by the VERIFIED boolean `nThreadsCheckB`
    (Lemmas/WriterNThreads.lean, soundness theorem `C05.n_threads_check_sound`) on every pair (N-thread run, 1-thread run) of
    REAL fired streams — real thread ids, real times, raw attachment names:
      * both real streams are handled without error within the (strengthened) discipline;
      * the harness's re-labelled streams a, b ARE the real streams with thread ids re-labelled through the two tables it
        sends along (each injective on the (location, thread id) pairs of its stream, or at least keeping every lookup of
        active_steps on the same binding: CPython re-uses the idents of ended threads, so a table may merge the ids of two
        lcc.Threads that ran one after the other), up to times and attachment counters;
      * a, b pass `scheduleCheckB`: same events, no event twice, every two dependent events in the same order."""
    name = "C05.sched"
    prop = "C05"
    driver = "drivers/C05.lean"
    profile = "independent"
    oracles = ()
    threads = (2, 2, 3, 4, 8)
    strategies = ("fifo", "lifo", "random", "random")
    quick_cases = 90
    quick_seconds = 25
    thorough_cases = 900
    thorough_seconds = 250
    max_events = 170
    corpus = [witness("(control) distinct ranks")] + W2.CONTROLS[:1]

    def gen(self, rng, i):
        case = super().gen(rng, i)
        case["project"] = distinct_ranks(case["project"])
        return case

    def impl(self, case):
        obs = _O.run_project(case["project"], strategy=case["strategy"], gate_seed=case["gseed"])
        base = _O.run_project(dict(case["project"], nb_threads=1), strategy="off")
        fired = lambda o: [r[2] for r in o["trace"] if r[0] == "fire"]
        return {"outcome": obs["outcome"], "outcome1": base["outcome"], "fired": fired(obs), "fired1": fired(base),
                "real": real_stream(obs), "real1": real_stream(base), "trace": [], "report": obs.get("report")}

    def oracle(self, case, obs):
        return []           # the statement-level comparison of the two reports is C05.run's oracle

    def request(self, case, obs):
        if "returned" not in obs["outcome"] or "returned" not in obs["outcome1"]:
            return None
        if len(obs["fired"]) > self.max_events:
            return None
        # the re-labelling: thread id := one id per class of (result location, real thread) pairs (`labels`) — a worker that
        # runs two tests one after the other is two "threads" for the writer, whose only use of the id is the key of the
        # open step —, time := position in the N-thread stream (events must be distinguishable); the 1-thread events are
        # replaced by the matching re-labelled N-thread events.  tabN / tab1 are the two thread-id tables, explicitly.
        m = match(obs["real1"], obs["real"])
        tab_n, tab_1 = labels(obs["real"], obs["real1"], m)
        rho_n = {(C.case_hash(l), t): k for l, t, k in tab_n}
        a = []
        for i, e in enumerate(obs["real"]):
            e = dict(e, t=i + 1)
            if "tid" in e:
                e["tid"] = rho_n[(C.case_hash(e.get("loc")), e["tid"])]
            a.append(e)
        if m is None:
            b = [dict(e, t=i + 1) for i, e in enumerate(obs["real1"])]      # not the same events: the check says so
        else:
            b = [a[i] for i in m]
        return {"realN": _R.wire(obs["real"]), "real1": _R.wire(obs["real1"]), "a": _R.wire(a), "b": _R.wire(b),
                "tabN": _R.wire(tab_n), "tab1": _R.wire(tab_1)}

    def compare(self, case, obs, ans):
        if "error" in ans:
            return "model error: " + str(ans["error"])
        if not ans["check"]:
            return ("the two schedules do not satisfy the hypotheses of C05.report_independent_of_schedule: nodup=%s perm=%s "
                    "dependent-order=%s disciplined=%s first offending pair: %s"
                    % (ans["nodup"], ans["perm"], ans["order"], ans["disciplined"], _R.unwire(ans["bad_pair"])))
        if not ans["n_threads_check"]:
            return ("the real streams do not satisfy the hypotheses of C05.n_threads_equals_one_thread: real N-thread stream "
                    "disciplined=%s, real 1-thread stream disciplined=%s, thread-id table injective or lookup-preserving N=%s 1=%s, re-labelled "
                    "stream = real stream re-labelled (up to times / attachment counters) N=%s 1=%s; first difference: %s"
                    % (ans["disciplined_realN"], ans["disciplined_real1"], ans["tid_ok_N"], ans["tid_ok_1"], ans["labels_N"],
                       ans["labels_1"], _R.unwire(ans["labels_N_diff"] or ans["labels_1_diff"])))
        if not ans["views_equal"] or not ans["disciplined_b"] or not ans["real_views_equal"]:
            return "the check holds but the folded views differ (would contradict the theorem)"
        return None

    def nontrivial(self, case, obs):
        return len(obs["fired"]) >= 8 and obs["fired"] != obs["fired1"]

    def features(self, case, obs):
        n = len(obs["fired"])
        f = ["events=%s" % ("<=40" if n <= 40 else "41-100" if n <= 100 else "101-170" if n <= 170 else ">170 (not checked)"),
             "threads=%d" % case["project"]["nb_threads"]]
        same = [dict(e, tid=0, t=0) for e in obs["fired"]] == [dict(e, tid=0, t=0) for e in obs["fired1"]]
        f.append("same-order-as-1-thread" if same else "reordered")
        locs = {}
        for e in obs.get("real", []):
            if "tid" in e:
                locs.setdefault(e["tid"], set()).add(C.case_hash(e.get("loc")))
        f.append("a-real-thread-id-at-several-locations" if any(len(v) > 1 for v in locs.values()) else "one-location-per-thread-id")
        m = match(obs.get("real1", []), obs.get("real", []))
        if m is not None:
            tab_n, tab_1 = labels(obs["real"], obs["real1"], m)
            if len({k for _, _, k in tab_n}) < len(tab_n) or len({k for _, _, k in tab_1}) < len(tab_1):
                f.append("thread-ident-reuse: a table merges two ids")
        if any(e.get("e") == "att" for e in obs["fired"]):
            f.append("attachments")
        return f


# =================================================================================================
# C05.desc — concurrent check_that under line-level pre-emption
# =================================================================================================

_HARD_TIMEOUT = 60.0
CUSTOM_SENTENCES = ["to be in the deny list 'default'", "to have a valid signature", "to match the remote schema", "can be resolved",
                    "to resolve somewhere", "is fine"]


def _contains_custom(e):
    from gen import matchers as G
    return e[0] == "custom" or any(_contains_custom(x) for x in (G.sub_exprs(e) if e[0] != "custom" else [e[3]]))


def to_matcher_x(e):
    """Expr (harness/gen/matchers.py) extended with ["custom", sentence, n, inner]: a user-defined Matcher subclass — a
    documented extension point — whose build_description assembles its sentence in n + 1 applications of the transformer it
    was handed (a slow description, e.g. looked up remotely) and whose matches() is the inner matcher's"""
    import lemoncheesecake.matching as M
    from gen import matchers as G
    from lemoncheesecake.matching.matcher import Matcher

    if not _contains_custom(e):
        return G.to_matcher(e)
    c = e[0]
    if c == "custom":
        inner = to_matcher_x(e[3])
        sentence, n = e[1], e[2]

        class RemoteLookup(Matcher):
            def build_description(self, transformation):
                for _ in range(n):
                    transformation("to be looked up")        # intermediate lookups: the result is dropped
                return transformation(sentence)

            def matches(self, actual):
                return inner.matches(actual)
        return RemoteLookup()
    if c in ("not_", "is_"):
        return getattr(M, c)(to_matcher_x(e[1]))
    if c == "hide":
        return to_matcher_x(e[1]).hide_result_details()
    if c in ("all_of", "any_of"):
        return getattr(M, c)(*[G.to_py(a[1]) if a[0] == "val" else to_matcher_x(a) for a in e[1]])
    raise ValueError("custom matcher under %s is not generated" % c)


def model_expr(e):
    """the same expression in the model's syntax: the user-defined matcher reads like `inner.override_description(sentence)`
    (one sentence through the transformer, the inner matcher's result)"""
    if e[0] == "custom":
        return ["override", e[1], model_expr(e[3])]
    if not _contains_custom(e):
        return e
    if e[0] in ("not_", "is_", "hide"):
        return [e[0], model_expr(e[1])]
    return [e[0], [model_expr(a) for a in e[1]]]


def _matching_files():
    import lemoncheesecake.matching as M
    root = os.path.dirname(os.path.abspath(M.__file__))
    out = []
    for d, _, fs in os.walk(root):
        out += [os.path.join(d, f) for f in fs if f.endswith(".py")]
    return sorted(out)


def _perform(o):
    """one operation of a test body -> what it did to its caller"""
    from gen import matchers as G
    from lemoncheesecake.exceptions import AbortTest
    from lemoncheesecake.matching import assert_that, check_that, check_that_in, require_that
    from props.c16 import _result_obs
    m = to_matcher_x(o["expr"])
    v = G.to_py(o["value"])
    try:
        if o["op"] == "check_in":
            rs = check_that_in({"k": v}, "k", m, quiet=o["quiet"])
            return {"returned": [_result_obs(lambda r=r: r) for r in rs]}
        r = {"check": check_that, "require": require_that, "assert": assert_that}[o["op"]](o["hint"], v, m, quiet=o["quiet"])
        return {"returned": _result_obs(lambda: r)}
    except AbortTest:
        return {"raised": "AbortTest"}
    except Exception as e:  # noqa: BLE001 — classified
        return {"raised": type(e).__name__}


def run_checks(case, concurrent):
    """the checks of every thread on one real Session: by k real threads under the line scheduler (`concurrent`), or the
    same calls made by ONE thread, test after test.  -> per thread: [{"checks": [...], "result": …} per operation]"""
    import random as _random
    import lemoncheesecake.events as E
    import lemoncheesecake.session as S
    from gen import reports as R
    from lemoncheesecake.matching.matcher import MatcherDescriptionTransformer as MDT
    from lemoncheesecake.reporting import Report
    from lemoncheesecake.testtree import BaseTest
    from props import _session
    from sched import linesched as LS

    k = case["threads"]
    lock = threading.Lock()
    recorded = {}            # test name -> check events in firing order
    tags = {}                # thread object -> tag
    touched = []             # (transformer object, tag) — the objects are kept alive so that ids are not reused
    line_rec = []

    class RecEM(E.EventManager):
        def fire(self, event):
            if type(event).__name__ == "CheckEvent":
                with lock:
                    recorded.setdefault(event.location.node_hierarchy[-1], []).append(
                        {"description": event.check_description, "ok": event.check_is_successful, "details": event.check_details})

    def note(obj):
        t = tags.get(threading.current_thread())
        if t is not None:
            with lock:
                if not any(o is obj and u == t for o, u in touched):
                    touched.append((obj, t))

    orig_call = MDT.__call__

    def rec_call(self, description):
        note(self)
        return orig_call(self, description)

    def rec_setattr(self, name, value):
        note(self)
        object.__setattr__(self, name, value)

    tmp = tempfile.mkdtemp(prefix="lccverif-c05d-")
    old_inst = S.Session._instance
    sched = None
    results = {t: [] for t in range(k)}
    try:
        session = S.Session(RecEM.load(), tmp, Report())
        S.Session._instance = session
        MDT.__call__ = rec_call
        MDT.__setattr__ = rec_setattr

        def test_body(t, tag):
            tags[threading.current_thread()] = tag
            node = R._node_chain(["s", "t%d" % t], _session.md_of("t%d" % t, t), BaseTest)
            session.start_test(node)
            session.set_step("checks")
            for j, o in enumerate(case["checks"][t]):
                before = len(recorded.get("t%d" % t, []))
                res = _perform(o)
                with lock:
                    results[t].append({"checks": list(recorded.get("t%d" % t, []))[before:], "result": res})
            session.end_test(node)

        if not concurrent:
            def go():
                for t in range(k):
                    test_body(t, 0)
        else:
            ln = case["line"]
            sched = LS.LineScheduler(_matching_files(), _random.Random(ln["seed"]), strategy=ln["strategy"], p=ln.get("p", 0.35),
                                     depth=ln.get("depth", 3), steal_after=0.05, record=line_rec, tag_of=lambda th: tags.get(th, -1),
                                     rendezvous=k)
            start = threading.Barrier(k, timeout=10)

            def worker(t):
                tags[threading.current_thread()] = t
                try:
                    start.wait()
                except threading.BrokenBarrierError:
                    pass
                test_body(t, t)

            def go():
                sched.install()
                ths = [threading.Thread(target=worker, args=(t,), name="lccverif-desc%d" % t) for t in range(k)]
                for th in ths:
                    th.start()
                for th in ths:
                    th.join(40)
        finished, _, exc = LS.run_with_timeout(go, _HARD_TIMEOUT)
        if sched is not None:
            sched.uninstall()
        if not finished:
            raise C.InfraError("C05.desc: hard time-out")
        if exc is not None:
            raise exc
        shared = []
        for i, (obj, t) in enumerate(touched):
            others = sorted({u for o, u in touched if o is obj})
            if len(others) > 1 and not any(o is obj for o, _ in touched[:i]):
                shared.append({"threads": others, "state": [bool(getattr(obj, "conjugate", None)), bool(getattr(obj, "negative", None))]})
        switches, last = 0, None
        for tag, fname, _, _ in line_rec:
            if fname == "<resume>":
                continue
            if last is not None and tag != last:
                switches += 1
            last = tag
        return {"per_thread": [results[t] for t in range(k)], "shared_transformers": shared, "transformer_objects": len({id(o) for o, _ in touched}),
                "switches": switches, "steals": 0 if sched is None else sched.steals, "points": 0 if sched is None else sched.points}
    finally:
        if sched is not None and sched.enabled:
            sched.uninstall()
        MDT.__call__ = orig_call
        try:
            del MDT.__setattr__
        except AttributeError:
            pass
        S.Session._instance = old_inst
        shutil.rmtree(tmp, ignore_errors=True)


class Desc(C.Stream):
    name = "C05.desc"
    driver = "drivers/C17.lean"
    quick_cases = 260
    thorough_cases = 4000
    quick_seconds = 25
    thorough_seconds = 300
    chunk = 40
    _eq3 = ["equal_to", ["i", 3]]
    corpus = [
        # a negated user-defined matcher with a slow description in one test, plain successful checks in the others
        {"threads": 2, "line": {"strategy": "random", "p": 0.5, "depth": 3, "seed": 1},
         "checks": [[{"op": "check", "hint": "user", "value": ["s", "alice"], "quiet": False,
                      "expr": ["not_", ["custom", "to be in the deny list 'default'", 4, ["equal_to", ["s", "bob"]]]]}],
                    [{"op": "check", "hint": "count", "value": ["i", 3], "expr": _eq3, "quiet": False},
                     {"op": "check_in", "hint": None, "value": ["i", 10], "expr": ["greater_than", ["i", 5]], "quiet": False},
                     {"op": "require", "hint": "count", "value": ["i", 3], "expr": _eq3, "quiet": False}]]},
        # negations everywhere: not_ over leaves, over composites, double negation, is_not_none, inside has_item
        {"threads": 3, "line": {"strategy": "priority", "p": 0.35, "depth": 4, "seed": 2},
         "checks": [[{"op": "check", "hint": "a", "value": ["i", 1], "expr": ["not_", ["not_", ["equal_to", ["i", 1]]]], "quiet": False},
                     {"op": "assert", "hint": "b", "value": None, "expr": ["is_not_none"], "quiet": False}],
                    [{"op": "check", "hint": None, "value": ["l", [["i", 1]]], "expr": ["has_item", ["not_", ["equal_to", ["i", 2]]]], "quiet": True},
                     {"op": "check", "hint": "c", "value": ["i", 0],
                      "expr": ["all_of", [["not_", ["greater_than", ["i", 1]]], ["custom", "to be fine by me", 2, ["anything"]]]], "quiet": False}],
                    [{"op": "check_in", "hint": None, "value": ["s", "x"], "expr": ["not_", ["starts_with", "a"]], "quiet": False},
                     {"op": "check", "hint": "d", "value": ["i", 5], "expr": ["any_of", [["equal_to", ["i", 5]], ["not_", ["is_none"]]]], "quiet": False}]]},
        # minimised failing input of the seeded change C05-6 (module-level default transformer + Not flipping it in place)
        {"threads": 2, "line": {"strategy": "random", "p": 0.6, "depth": 3, "seed": 3},
         "checks": [[{"op": "check", "hint": "user", "value": ["i", 1], "quiet": False,
                      "expr": ["not_", ["custom", "to be looked up", 6, ["equal_to", ["i", 2]]]]}] * 2,
                    [{"op": "check", "hint": "count", "value": ["i", 3], "expr": _eq3, "quiet": False}] * 4]},
    ]

    def gen(self, rng, i):
        from gen import matchers as G
        from props.c16 import HINTS

        def expr():
            r = rng.random()
            e = G.gen_expr(rng, rng.choice([1, 1, 2, 2, 3]))
            if r < 0.25:
                return e
            custom = ["custom", rng.choice(CUSTOM_SENTENCES), rng.randint(0, 6), G.gen_leaf(rng)]
            if r < 0.5:
                return ["not_", e]
            if r < 0.7:
                return ["not_", custom]
            if r < 0.8:
                return custom
            if r < 0.9:
                return [rng.choice(["all_of", "any_of"]), [["not_", custom], e]]
            return ["not_", ["not_", e]]
        k = rng.choice([2, 2, 2, 3, 4])
        checks = []
        for _ in range(k):
            ops = []
            for _ in range(rng.randint(1, 5)):
                e = expr()
                ops.append({"op": rng.choice(["check", "check", "check", "require", "assert", "check_in"]), "hint": rng.choice(HINTS),
                            "value": G.gen_actual(rng, model_expr(e)), "expr": e, "quiet": rng.random() < 0.2})
            checks.append(ops)
        return {"threads": k, "checks": checks,
                "line": {"strategy": rng.choice(["random", "random", "priority"]), "p": rng.choice([0.2, 0.35, 0.6]),
                         "depth": rng.randint(1, 5), "seed": rng.randrange(1 << 30)}}

    def impl(self, case):
        conc = run_checks(case, True)
        base = run_checks(case, False)
        return {"concurrent": conc["per_thread"], "one_thread": base["per_thread"], "shared_transformers": conc["shared_transformers"],
                "transformer_objects": conc["transformer_objects"], "switches": conc["switches"], "steals": conc["steals"], "points": conc["points"]}

    def oracle(self, case, obs):
        fails = []
        for t, (a, b) in enumerate(zip(obs["concurrent"], obs["one_thread"])):
            for j, (x, y) in enumerate(zip(a, b)):
                o = case["checks"][t][j]
                if [c["description"] for c in x["checks"]] != [c["description"] for c in y["checks"]]:
                    fails.append(C.Failure("C05/desc/check-description-differs-from-1-thread-run",
                                           f"test t{t}, operation {j} ({o['op']} {o['expr']}): with {case['threads']} threads the recorded "
                                           f"description is {[c['description'] for c in x['checks']]}, with 1 thread {[c['description'] for c in y['checks']]}"))
                elif x["checks"] != y["checks"]:
                    fails.append(C.Failure("C05/desc/check-differs-from-1-thread-run",
                                           f"test t{t}, operation {j} ({o['op']}): {case['threads']} threads {x['checks']} vs 1 thread {y['checks']}"))
                if x["result"] != y["result"]:
                    fails.append(C.Failure("C05/desc/operation-outcome-differs-from-1-thread-run",
                                           f"test t{t}, operation {j} ({o['op']}): {case['threads']} threads {x['result']} vs 1 thread {y['result']}"))
            if len(a) != len(b):
                fails.append(C.Failure("C05/desc/operations-lost", f"test t{t}: {len(a)} operations completed with threads, {len(b)} with 1 thread"))
        seen, out = set(), []
        for f in fails:
            if f.signature not in seen:
                seen.add(f.signature)
                out.append(f)
        return out

    # ---- the model: descriptions are Matcher.checkDescription; no transformer object is touched by two threads ----------
    def _flat(self, case):
        return [(t, j, o) for t, ops in enumerate(case["checks"]) for j, o in enumerate(ops) if o["op"] != "check_in"]

    def request(self, case, obs):
        return {"ops": [{"op": o["op"], "expr": model_expr(o["expr"]), "value": o["value"], "hint": o["hint"], "quiet": o["quiet"]}
                        for _, _, o in self._flat(case)]}

    def compare(self, case, obs, ans):
        if obs["shared_transformers"]:
            return ("the no-shared-state hypothesis of LccModel.C05Desc does not hold on the real calls: a MatcherDescriptionTransformer "
                    f"object was applied / written by the check_that calls of several threads: {obs['shared_transformers'][:3]}")
        if "steps" not in ans:
            return "model error: " + str(ans.get("error"))
        for (t, j, o), m in zip(self._flat(case), ans["steps"]):
            if j >= len(obs["concurrent"][t]):
                return f"test t{t}: operation {j} did not complete"
            x = obs["concurrent"][t][j]
            if m["checks"] != x["checks"]:
                return f"test t{t}, operation {j} ({o['op']} {o['expr']}): checks: model {m['checks']} vs {case['threads']} threads {x['checks']}"
            if m["result"] != x["result"]:
                return f"test t{t}, operation {j} ({o['op']}): result: model {m['result']} vs implementation {x['result']}"
        return None

    def nontrivial(self, case, obs):
        return obs["switches"] > 0 and sum(1 for a in obs["concurrent"] if any(x["checks"] for x in a)) >= 2

    def features(self, case, obs):
        from gen import matchers as G
        f = ["threads=%d" % case["threads"], "line=" + case["line"]["strategy"]]
        if obs["switches"] > 0:
            f.append("preempted-inside-the-matching-layer")
        if obs["switches"] >= 20:
            f.append("switches>=20")
        if obs["steals"]:
            f.append("steal")
        for ops in case["checks"]:
            for o in ops:
                f.append("op:" + o["op"])
                cs = G.constructors_of(model_expr(o["expr"]))
                if "not_" in cs or "is_not_none" in cs:
                    f.append("negated-matcher")
                if _contains_custom(o["expr"]):
                    f.append("user-defined-matcher")
                    if o["expr"][0] == "not_" and o["expr"][1][0] == "custom":
                        f.append("negated-user-defined-matcher")
                if cs & {"all_of", "any_of"}:
                    f.append("composite")
        n_neg = sum(1 for ops in case["checks"] if any("not_" in G.constructors_of(model_expr(o["expr"])) for o in ops))
        if n_neg >= 1 and len(case["checks"]) - n_neg >= 1:
            f.append("one-test-negates-while-another-does-not")
        for a in obs["concurrent"]:
            for x in a:
                r = x["result"]
                f.append("result:" + ("raised:" + r["raised"] if "raised" in r else "returned"))
        return sorted(set(f))

    def shrink(self, case):
        from gen import matchers as G
        k = case["threads"]
        if k > 2:
            for t in range(k):
                yield dict(case, threads=k - 1, checks=case["checks"][:t] + case["checks"][t + 1:])
        for t, ops in enumerate(case["checks"]):
            if len(ops) > 1:
                for j in range(len(ops)):
                    c = dict(case)
                    c["checks"] = case["checks"][:t] + [ops[:j] + ops[j + 1:]] + case["checks"][t + 1:]
                    yield c
        for t, ops in enumerate(case["checks"]):
            for j, o in enumerate(ops):
                if not _contains_custom(o["expr"]):
                    for e in G.shrink_expr(o["expr"]):
                        c = dict(case)
                        c["checks"] = case["checks"][:t] + [ops[:j] + [dict(o, expr=e)] + ops[j + 1:]] + case["checks"][t + 1:]
                        yield c


# ---- the declaration path: parametrized variants (one callback, one fixture signature) running concurrently -----------------
from props._declrun import DeclRunStream, DECLRUN_TRUSTED, DECLRUN_RULE, normalise_project
from props import _declrun_corpus as DC
from props._decl import DECL_TRUSTED


class DeclRun(DeclRunStream):
    """schedule-independent projects DECLARED as classes — runs of tests as ONE parametrized declaration whose variants use
    test / suite / session fixtures and are held at gates while their siblings start — N threads against one thread"""
    name = "C05.declrun"
    prop = "C05"
    profile = "independent"
    oracles = ("C05",)
    threads = (2, 2, 3, 4, 8)
    strategies = ("fifo", "lifo", "random", "random")
    quick_cases = 120
    quick_seconds = 16
    thorough_cases = 2000
    thorough_seconds = 300
    decl_opts = dict(p_group=0.75, p_base=0.3, p_shared=0.2)
    corpus = DC.C05_CORPUS
    p_start_gates = 0.35

    def prepare_project(self, project, rng=None):
        return normalise_project(distinct_ranks(project))


LEAN_MODULES = LEAN_MODULES + ["LccModel.Props.C05Decl", "LccModel.Props.C05Saved"]
PROPS_FILES = PROPS_FILES + ["LccModel/Props/C05Decl.lean", "LccModel/Props/C05Saved.lean"]
NAMESPACES = dict(NAMESPACES, **{"LccModel/Props/C05Decl.lean": "LccModel.C05Decl", "LccModel/Props/C05Saved.lean": "LccModel.C05Saved"})
TRUSTED_BASE = TRUSTED_BASE + DECL_TRUSTED + DECLRUN_TRUSTED
RULE = RULE + "; " + DECLRUN_RULE


# ---- the exact ranks of the loader: declaration order survives parametrization, for every number of parameter sets ----------
import shutil as _shutil
import tempfile as _tempfile
import textwrap as _textwrap

RANK_SAMPLE = list(range(41)) + [100, 1023, 1024, 1025, 5000]


def _rank_source(decls):
    """decls: [{"name", "sets": None | n, "slow": bool, "dep": None | name}] -> source of a suite class `S`"""
    out = ["import time", "import lemoncheesecake.api as lcc", "", "@lcc.suite('S')", "class S:"]
    for d in decls:
        out.append("    @lcc.test(%r)" % d["name"])
        if d.get("dep"):
            out.append("    @lcc.depends_on(%r)" % ("S." + d["dep"]))
        if d["sets"] is not None:
            out.append("    @lcc.parametrized([{'i': i} for i in range(%d)])" % d["sets"])
        out.append("    def %s(self%s):" % (d["name"], ", i" if d["sets"] is not None else ""))
        out.append("        time.sleep(0.04)" if d.get("slow") else "        pass")
    return "\n".join(out) + "\n"


def _load_rank_suite(decls):
    from lemoncheesecake.suite import load_suite_from_class
    ns = {}
    exec(compile(_rank_source(decls), "<C05.rank suite>", "exec"), ns)
    return load_suite_from_class(ns["S"])


def _run_rank_suite(decls, nb_threads):
    """-> (names in report order, names in the order the results were added)"""
    from lemoncheesecake import runner
    from lemoncheesecake.events import AsyncEventManager
    from lemoncheesecake.fixture import FixtureRegistry
    from lemoncheesecake.session import Session
    from lemoncheesecake.testtree import BaseSuite
    from lemoncheesecake.suite.core import resolve_tests_dependencies
    suite = _load_rank_suite(decls)
    resolve_tests_dependencies([suite], [suite])        # what PreparedProject.create does between loading and running
    d = _tempfile.mkdtemp(prefix="lccverif-c05rank-")
    try:
        session = Session.create(AsyncEventManager.load(), [], d, None, nb_threads=nb_threads)
        runner.run_suites([suite], FixtureRegistry(), session, nb_threads=nb_threads)
    finally:
        _shutil.rmtree(d, ignore_errors=True)
    sr = session.report.get_suites()[0]
    return [t.name for t in sr.get_tests()], [t.name for t in BaseSuite.get_tests(sr)]


def _declared_names(decls):
    out = []
    for d in decls:
        out += [d["name"]] if d["sets"] is None else ["%s_%d" % (d["name"], k + 1) for k in range(d["sets"])]
    return out


_BIG = [{"name": "warm_up", "sets": None, "slow": True, "dep": None}, {"name": "case", "sets": 1030, "slow": False, "dep": "warm_up"},
        {"name": "wrap_up", "sets": None, "slow": False, "dep": None}]


class Rank(C.Stream):
    """a declared suite (plain and parametrized tests, one slow test others depend on) run with N threads and with one: the report
    lists the tests in declaration order both times, whatever order the results arrived in"""
    name = "C05.rank"
    prop = "C05"
    driver = "drivers/C05Rank.lean"
    quick_cases = 14
    quick_seconds = 14
    thorough_cases = 150
    thorough_seconds = 150
    chunk = 4
    corpus = [
        # more parameter sets than any fixed rank increment can hold (minimised failing input of seeded/C05-11): the test declared
        # after the parametrized one starts BEFORE the expansions with 2 threads (they wait for the slow test), last with 1 thread
        {"threads": 2, "decls": _BIG},
        {"threads": 3, "decls": [{"name": "a", "sets": None, "slow": True, "dep": None}, {"name": "p", "sets": 70, "slow": False, "dep": "a"},
                                 {"name": "q", "sets": 3, "slow": False, "dep": None}, {"name": "z", "sets": None, "slow": False, "dep": None}]},
    ]

    def gen(self, rng, i):
        n = rng.choice([2, 3, 3, 4, 5])
        decls = []
        for k in range(n):
            sets = None if rng.random() < 0.45 else rng.choice([0, 1, 2, 3, 5, 9, 17, 40, 130])
            decls.append({"name": "t%d" % k, "sets": sets, "slow": False, "dep": None})
        slow = rng.choice([0, 0, 0, 1, rng.randrange(n)])
        decls[slow]["slow"] = True
        if rng.random() < 0.8:
            decls[slow]["sets"] = None            # a plain slow test the others can depend on
        elif decls[slow]["sets"] is not None:
            decls[slow]["sets"] = min(decls[slow]["sets"], 2)
        for k, d in enumerate(decls):
            if k != slow and (decls[slow]["sets"] is None) and rng.random() < 0.6:
                d["dep"] = decls[slow]["name"]
        return {"threads": rng.choice([2, 2, 3, 4, 8]), "decls": decls}

    def impl(self, case):
        suite = _load_rank_suite(case["decls"])
        loaded = [t.name for t in suite.get_tests()]
        ranks_distinct = len({t.rank for t in suite.get_tests()}) == len(loaded)
        repN, arrN = _run_rank_suite(case["decls"], case["threads"])
        rep1, arr1 = _run_rank_suite(case["decls"], 1)
        return {"loaded": loaded, "ranks_distinct": ranks_distinct, "reportN": repN, "arrivalN": arrN, "report1": rep1, "arrival1": arr1}

    def oracle(self, case, obs):
        want = _declared_names(case["decls"])
        fails = []

        def first_diff(a, b):
            k = next((i for i, (x, y) in enumerate(zip(a, b)) if x != y), min(len(a), len(b)))
            return "position %d: %s vs %s" % (k, a[k:k + 3], b[k:k + 3])

        if obs["reportN"] != obs["report1"]:
            fails.append(C.Failure("C05/rank/report-order-differs-from-1-thread-run",
                                   f"the report of the {case['threads']}-thread run lists the tests in another order than the 1-thread run: "
                                   + first_diff(obs["reportN"], obs["report1"])))
        for label, rep in (("%d threads" % case["threads"], obs["reportN"]), ("1 thread", obs["report1"])):
            if rep != want:
                fails.append(C.Failure("C05/declared-order-lost",
                                       f"report ({label}) does not list the tests in declaration order: " + first_diff(rep, want)))
                break
        if not obs["ranks_distinct"]:
            fails.append(C.Failure("C05/rank/sibling-ranks-not-distinct", "two loaded tests of one suite share a rank"))
        return fails

    def request(self, case, obs):
        return {"decls": [[d["name"], d["sets"]] for d in case["decls"]], "arrival": obs["arrivalN"]}

    def compare(self, case, obs, ans):
        if "report" not in ans:
            return "model error: " + str(ans.get("error"))
        if ans["loaded"] != obs["loaded"]:
            return "loaded tests: model vs implementation differ"
        if ans["report"] != obs["reportN"]:
            k = next((i for i, (x, y) in enumerate(zip(ans["report"], obs["reportN"])) if x != y), -1)
            return f"report order: model {ans['report'][k:k + 3]} vs implementation {obs['reportN'][k:k + 3]} at position {k}"
        return None

    def nontrivial(self, case, obs):
        return obs["arrivalN"] != obs["arrival1"]

    def features(self, case, obs):
        f = ["threads=%d" % case["threads"]]
        n = max([d["sets"] or 0 for d in case["decls"]])
        f.append("max-sets:" + (">=1025" if n >= 1025 else ">=64" if n >= 64 else ">=8" if n >= 8 else "<8"))
        if obs["arrivalN"] != obs["arrival1"]:
            f.append("arrival-order-differs-from-1-thread-run")
        if obs["arrivalN"] != obs["reportN"]:
            f.append("arrival-order-is-not-declaration-order")
        ds = case["decls"]
        if any(ds[k]["sets"] and k + 1 < len(ds) for k in range(len(ds))):
            f.append("test-declared-after-a-parametrized-one")
        return f

    def shrink(self, case):
        ds = case["decls"]
        for k in range(len(ds)):
            if len(ds) > 1 and not any(d.get("dep") == ds[k]["name"] for d in ds):
                yield dict(case, decls=ds[:k] + ds[k + 1:])
        for k, d in enumerate(ds):
            if d["sets"] and d["sets"] > 1:
                for m in sorted({d["sets"] // 2, d["sets"] - 1}):
                    yield dict(case, decls=ds[:k] + [dict(d, sets=m)] + ds[k + 1:])


def tables(ctx):
    """the ranks the real loader gives the expansions of a parametrized test with 5001 parameter sets declared between two tests,
    as exact fractions"""
    suite = _load_rank_suite([{"name": "before", "sets": None}, {"name": "case", "sets": 5001}, {"name": "after", "sets": None}])
    tests = {t.name: t for t in suite.get_tests()}
    frac = lambda x: "(%d, %d)" % float(x).as_integer_ratio()
    decl = tests["case_1"].rank            # the first expansion keeps the rank of the declaration
    rows = [(str(k), frac(tests["case_%d" % (k + 1)].rank), "rank(case_%d) = %r" % (k + 1, tests["case_%d" % (k + 1)].rank)) for k in RANK_SAMPLE]
    bounds = [(frac(decl), frac(tests["after"].rank), "declared at %r, next test at %r" % (decl, tests["after"].rank))]
    return [C.Table("variantRanks", "List (Nat × (Nat × Nat))", rows), C.Table("variantBounds", "List ((Nat × Nat) × (Nat × Nat))", bounds)]


LEAN_MODULES = LEAN_MODULES + ["LccModel.Props.C05Rank", "LccModel.Model.RankFrac"]
PROPS_FILES = PROPS_FILES + ["LccModel/Props/C05Rank.lean"]
NAMESPACES = dict(NAMESPACES, **{"LccModel/Props/C05Rank.lean": "LccModel.C05Rank"})


def streams(ctx):
    return [Run(), Sched(), Desc(), DeclRun(), Rank()]

"""C05 — the report does not depend on the schedule: N threads equals one thread."""
import common as C
from props._runcommon import RUN_TRUSTED, RUN_ASSUMPTIONS, PropRunStream
from run import selftest as W
from run import witnesses2 as W2

PROPERTY = "C05"
LEAN_MODULES = ["LccModel.Props.C05", "LccModel.Props.C05Run"]
PROPS_FILES = ["LccModel/Props/C05.lean", "LccModel/Props/C05Run.lean"]
NAMESPACES = {"LccModel/Props/C05.lean": "LccModel.C05", "LccModel/Props/C05Run.lean": "LccModel.C05Run"}
DRIVER = "drivers/Run.lean"
TRUSTED_BASE = RUN_TRUSTED + ["every N-thread run is compared with a 1-thread run of the same project by the oracle (timestamp-free normal forms, attachments by content)"]
ASSUMPTIONS = RUN_ASSUMPTIONS + ["schedule-independent features only (profile 'independent': no Abort*, no --stop-on-failure, no per-thread fixtures); sibling ranks pairwise distinct (declared tests always have distinct ranks; tests added with add_test_into_suite get one since fix a149e47)"]
RULE = 'generated project (harness/run/gen.py) × nb_threads 1..8 × gate strategy (off/fifo/lifo/random) forcing completion orders; non-trivial = ≥ 2 tests, ≥ 1 body entered, ≥ 8 events; distinct = hash of the case (project + schedule parameters); C05 additionally needs N ≥ 2 and a completion order that differs from the declaration order'
EXPLANATION = "The writer's result is invariant under swaps of independent events and the rank-sorted view removes arrival order under distinct sibling ranks (Lean theorems); every N-thread run is replayed on the composed model (whose per-task outputs are functions of the project, not of the schedule) and compared by the oracle with the 1-thread run."


def witness(title_prefix):
    """corpus case built from the hand-written witness table of harness/run/selftest.py"""
    for title, sig, project, cfg in W.WITNESSES:
        if title.startswith(title_prefix):
            return {"project": dict(project, nb_threads=cfg["n"]), "strategy": cfg["strategy"], "gseed": cfg["gseed"],
                    "interrupt": cfg["interrupt"], "fault": cfg["fault"]}
    raise KeyError(title_prefix)



def distinct_ranks(project):
    """the C05 hypothesis: sibling ranks pairwise distinct (re-number in declaration order)"""
    import copy
    p = copy.deepcopy(project)

    def fix(suites):
        for i, s in enumerate(suites):
            s["rank"] = i + 1
            for j, t in enumerate(s["tests"]):
                t["rank"] = j + 1
            fix(s["suites"])
    fix(p["suites"])
    return p


class Run(PropRunStream):
    name = "C05.run"
    prop = "C05"
    profile = "independent"
    oracles = ("C05",)
    threads = (2, 2, 3, 4, 8)
    strategies = ("fifo", "lifo", "random", "random")
    quick_cases = 330
    quick_seconds = 60
    corpus = [witness("(control) distinct ranks")] + W2.CONTROLS

    def gen(self, rng, i):
        case = super().gen(rng, i)
        case["project"] = distinct_ranks(case["project"])
        return case


# ---- the declaration path: parametrized variants (one callback, one fixture signature) running concurrently -----------------
from props._declrun import DeclRunStream, DECLRUN_TRUSTED, DECLRUN_RULE, normalise_project
from props import _declrun_corpus as DC
from props._decl import DECL_TRUSTED


class DeclRun(DeclRunStream):
    """schedule-independent projects DECLARED as classes — runs of tests as ONE parametrized declaration whose variants use
    test / suite / session fixtures and are held at gates while their siblings start — N threads against one thread"""
    name = "C05.declrun"
    prop = "C05"
    profile = "independent"
    oracles = ("C05",)
    threads = (2, 2, 3, 4, 8)
    strategies = ("fifo", "lifo", "random", "random")
    quick_cases = 170
    quick_seconds = 26
    thorough_cases = 2000
    thorough_seconds = 300
    decl_opts = dict(p_group=0.75, p_base=0.3, p_shared=0.2)
    corpus = DC.C05_CORPUS

    p_start_gates = 0.35

    def prepare_project(self, project, rng=None):
        return normalise_project(distinct_ranks(project))


LEAN_MODULES = LEAN_MODULES + ["LccModel.Props.C05Decl"]
PROPS_FILES = PROPS_FILES + ["LccModel/Props/C05Decl.lean"]
NAMESPACES = dict(NAMESPACES, **{"LccModel/Props/C05Decl.lean": "LccModel.C05Decl"})
TRUSTED_BASE = TRUSTED_BASE + DECL_TRUSTED + DECLRUN_TRUSTED
RULE = RULE + "; " + DECLRUN_RULE


def streams(ctx):
    return [Run(), DeclRun()]

"""C05 — the report does not depend on the schedule: N threads equals one thread."""
import common as C
from props._runcommon import RUN_TRUSTED, RUN_ASSUMPTIONS, PropRunStream
from run import selftest as W
from run import witnesses2 as W2

PROPERTY = "C05"
LEAN_MODULES = ["LccModel.Props.C05", "LccModel.Props.C05Run"]
PROPS_FILES = ["LccModel/Props/C05.lean", "LccModel/Props/C05Run.lean"]
NAMESPACES = {"LccModel/Props/C05.lean": "LccModel.C05", "LccModel/Props/C05Run.lean": "LccModel.C05Run"}
DRIVER = "drivers/Run.lean"
TRUSTED_BASE = RUN_TRUSTED + ["C05.sched: the 'real stream' of a run is what the recording event manager saw in fire(): event.time (rounded to ms), event.thread_id, the raw attachment name attachments/%04d_name (harness/run/observe.py `fire_raw`, `att_names`; harness/props/c05.py `real_stream`). The harness's re-labelling (times := positions, one thread id per (result location, real thread), the 1-thread events matched onto the N-thread ones) is NOT trusted: the verified boolean nThreadsCheckB checks that the re-labelled streams are the real ones up to a thread-id table (injective on (location, thread id) pairs, or lookup-preserving where CPython re-used thread idents), times and attachment counters, and C05.n_threads_equals_one_thread carries the conclusion back to the real streams", "every N-thread run is compared with a 1-thread run of the same project by the oracle (timestamp-free normal forms, attachments by content)"]
ASSUMPTIONS = RUN_ASSUMPTIONS + ["schedule-independent features only (profile 'independent': no Abort*, no --stop-on-failure, no per-thread fixtures); sibling ranks pairwise distinct (declared tests always have distinct ranks; tests added with add_test_into_suite get one since fix a149e47)"]
RULE = 'generated project (harness/run/gen.py) × nb_threads 1..8 × gate strategy (off/fifo/lifo/random) forcing completion orders; non-trivial = ≥ 2 tests, ≥ 1 body entered, ≥ 8 events; distinct = hash of the case (project + schedule parameters); C05 additionally needs N ≥ 2 and a completion order that differs from the declaration order'
EXPLANATION = "n_threads_equals_one_thread: the REAL streams of an N-thread run and of a 1-thread run (real thread ids, times, attachment names), both inside the discipline, whose re-labelled versions (thread ids through tables injective on (location, thread id) pairs or lookup-preserving; times and attachment counters changed, zero-ness of step-end times kept) have the same events and order every two dependent events alike, fold to reports with the same content up to timestamps and, under distinct sibling ranks, equal rank-sorted views up to timestamps (eraseTimes). Ingredients: projection lemma + swap-equivalence (report_independent_of_schedule), the writer commutes with re-labellings of the labels it only copies (only_timestamps_differ), thread ids are only keys of active_steps (thread_ids_are_only_keys). All hypotheses are decided by the verified boolean nThreadsCheckB on every pair (N-thread run, 1-thread run) of real fired streams (stream C05.sched). Every N-thread run is also replayed on the composed model (whose per-task outputs are functions of the project, not of the schedule) and compared by the oracle with the 1-thread run."


def witness(title_prefix):
    """corpus case built from the hand-written witness table of harness/run/selftest.py"""
    for title, sig, project, cfg in W.WITNESSES:
        if title.startswith(title_prefix):
            return {"project": dict(project, nb_threads=cfg["n"]), "strategy": cfg["strategy"], "gseed": cfg["gseed"],
                    "interrupt": cfg["interrupt"], "fault": cfg["fault"]}
    raise KeyError(title_prefix)



def distinct_ranks(project):
    """the C05 hypothesis: sibling ranks pairwise distinct (re-number in declaration order)"""
    import copy
    p = copy.deepcopy(project)

    def fix(suites):
        for i, s in enumerate(suites):
            s["rank"] = i + 1
            for j, t in enumerate(s["tests"]):
                t["rank"] = j + 1
            fix(s["suites"])
    fix(p["suites"])
    return p


class Run(PropRunStream):
    name = "C05.run"
    prop = "C05"
    profile = "independent"
    oracles = ("C05",)
    threads = (2, 2, 3, 4, 8)
    strategies = ("fifo", "lifo", "random", "random")
    quick_cases = 330
    quick_seconds = 60
    corpus = [witness("(control) distinct ranks")] + W2.CONTROLS

    def gen(self, rng, i):
        case = super().gen(rng, i)
        case["project"] = distinct_ranks(case["project"])
        return case


import re as _re
from gen import reports as _R
from run import observe as _O

_ATT = _re.compile(r"^(attachments/)\d{4}_")


def _key(e):
    """what identifies an event across two schedules of one run: everything but thread id, time and the global
    attachment counter"""
    d = {k: v for k, v in e.items() if k not in ("tid", "t")}
    if d.get("e") == "att" and isinstance(d.get("file"), str):
        d["file"] = _ATT.sub(r"\1", d["file"])
    return C.case_hash(d)


def match(base, ref):
    """for every event of `base` (1-thread run) the index of the event of `ref` (N-thread run) with the same key and the same
    occurrence number; None when the two runs did not fire the same events.  (An untrusted matching: what is built from it
    is checked by the verified boolean.)"""
    pool = {}
    for i, e in enumerate(ref):
        pool.setdefault(_key(e), []).append(i)
    out = []
    for e in base:
        lst = pool.get(_key(e))
        if not lst:
            return None
        out.append(lst.pop(0))
    return out if not any(pool.values()) else None


def labels(real_n, real_1, m):
    """thread-id tables for the two real streams: one label per class of (result location, real thread id) pairs, two pairs
    being in one class when a matched pair of events connects them.  Without thread-ident re-use this is one label per
    (location, real thread) of the N-thread run and the 1-thread pairs get the label of their matching pair; CPython re-uses
    the ident of an ended thread, so either run may identify two lcc.Threads (run one after the other) that the other run
    tells apart — the classes then merge their ids in the run that separates them."""
    parent = {}

    def find(x):
        parent.setdefault(x, x)
        while parent[x] != x:
            parent[x] = parent[parent[x]]
            x = parent[x]
        return x
    pair = lambda side, e: (side, C.case_hash(e.get("loc")), e["tid"])
    for e in real_n:
        if "tid" in e:
            find(pair("N", e))
    if m is not None:
        for e1, i in zip(real_1, m):
            if "tid" in e1:
                parent[find(pair("1", e1))] = find(pair("N", real_n[i]))
    ids, tabs = {}, {"N": [], "1": []}
    for side, stream in (("N", real_n), ("1", real_1 if m is not None else [])):
        seen = set()
        for e in stream:
            if "tid" in e and pair(side, e) not in seen:
                seen.add(pair(side, e))
                tabs[side].append([e["loc"], e["tid"], ids.setdefault(find(pair(side, e)), len(ids) + 1)])
    return tabs["N"], tabs["1"]


def real_stream(o):
    """the fired events AS THE WRITER RECEIVES THEM: the event's own thread_id and time (ms), the raw attachment file name
    (`attachments/%04d_name`) — the recorder's canonical trace has thread numbers, t = 0 and un-prefixed names instead"""
    raw_names = {i: n for i, n in o.get("att_names", [])}
    out, k = [], 0
    for i, r in enumerate(o["trace"]):
        if r[0] != "fire":
            continue
        e = dict(r[2])
        t, tid = o["fire_raw"][k]
        k += 1
        e["t"] = t
        if "tid" in e:
            e["tid"] = tid
        if i in raw_names:
            e["file"] = raw_names[i]
        out.append(e)
    return out


class Sched(PropRunStream):
    """The hypotheses of `C05.n_threads_equals_one_thread`, checked by the VERIFIED boolean `nThreadsCheckB`
    (Lemmas/WriterNThreads.lean, soundness theorem `C05.n_threads_check_sound`) on every pair (N-thread run, 1-thread run) of
    REAL fired streams — real thread ids, real times, raw attachment names:
      * both real streams are handled without error within the (strengthened) discipline;
      * the harness's re-labelled streams a, b ARE the real streams with thread ids re-labelled through the two tables it
        sends along (each injective on the (location, thread id) pairs of its stream, or at least keeping every lookup of
        active_steps on the same binding: CPython re-uses the idents of ended threads, so a table may merge the ids of two
        lcc.Threads that ran one after the other), up to times and attachment counters;
      * a, b pass `scheduleCheckB`: same events, no event twice, every two dependent events in the same order."""
    name = "C05.sched"
    prop = "C05"
    driver = "drivers/C05.lean"
    profile = "independent"
    oracles = ()
    threads = (2, 2, 3, 4, 8)
    strategies = ("fifo", "lifo", "random", "random")
    quick_cases = 90
    quick_seconds = 25
    thorough_cases = 900
    thorough_seconds = 250
    max_events = 170
    corpus = [witness("(control) distinct ranks")] + W2.CONTROLS[:1]

    def gen(self, rng, i):
        case = super().gen(rng, i)
        case["project"] = distinct_ranks(case["project"])
        return case

    def impl(self, case):
        obs = _O.run_project(case["project"], strategy=case["strategy"], gate_seed=case["gseed"])
        base = _O.run_project(dict(case["project"], nb_threads=1), strategy="off")
        fired = lambda o: [r[2] for r in o["trace"] if r[0] == "fire"]
        return {"outcome": obs["outcome"], "outcome1": base["outcome"], "fired": fired(obs), "fired1": fired(base),
                "real": real_stream(obs), "real1": real_stream(base), "trace": [], "report": obs.get("report")}

    def oracle(self, case, obs):
        return []           # the statement-level comparison of the two reports is C05.run's oracle

    def request(self, case, obs):
        if "returned" not in obs["outcome"] or "returned" not in obs["outcome1"]:
            return None
        if len(obs["fired"]) > self.max_events:
            return None
        # the re-labelling: thread id := one id per class of (result location, real thread) pairs (`labels`) — a worker that
        # runs two tests one after the other is two "threads" for the writer, whose only use of the id is the key of the
        # open step —, time := position in the N-thread stream (events must be distinguishable); the 1-thread events are
        # replaced by the matching re-labelled N-thread events.  tabN / tab1 are the two thread-id tables, explicitly.
        m = match(obs["real1"], obs["real"])
        tab_n, tab_1 = labels(obs["real"], obs["real1"], m)
        rho_n = {(C.case_hash(l), t): k for l, t, k in tab_n}
        a = []
        for i, e in enumerate(obs["real"]):
            e = dict(e, t=i + 1)
            if "tid" in e:
                e["tid"] = rho_n[(C.case_hash(e.get("loc")), e["tid"])]
            a.append(e)
        if m is None:
            b = [dict(e, t=i + 1) for i, e in enumerate(obs["real1"])]      # not the same events: the check says so
        else:
            b = [a[i] for i in m]
        return {"realN": _R.wire(obs["real"]), "real1": _R.wire(obs["real1"]), "a": _R.wire(a), "b": _R.wire(b),
                "tabN": _R.wire(tab_n), "tab1": _R.wire(tab_1)}

    def compare(self, case, obs, ans):
        if "error" in ans:
            return "model error: " + str(ans["error"])
        if not ans["check"]:
            return ("the two schedules do not satisfy the hypotheses of C05.report_independent_of_schedule: nodup=%s perm=%s "
                    "dependent-order=%s disciplined=%s first offending pair: %s"
                    % (ans["nodup"], ans["perm"], ans["order"], ans["disciplined"], _R.unwire(ans["bad_pair"])))
        if not ans["n_threads_check"]:
            return ("the real streams do not satisfy the hypotheses of C05.n_threads_equals_one_thread: real N-thread stream "
                    "disciplined=%s, real 1-thread stream disciplined=%s, thread-id table injective or lookup-preserving N=%s 1=%s, re-labelled "
                    "stream = real stream re-labelled (up to times / attachment counters) N=%s 1=%s; first difference: %s"
                    % (ans["disciplined_realN"], ans["disciplined_real1"], ans["tid_ok_N"], ans["tid_ok_1"], ans["labels_N"],
                       ans["labels_1"], _R.unwire(ans["labels_N_diff"] or ans["labels_1_diff"])))
        if not ans["views_equal"] or not ans["disciplined_b"] or not ans["real_views_equal"]:
            return "the check holds but the folded views differ (would contradict the theorem)"
        return None

    def nontrivial(self, case, obs):
        return len(obs["fired"]) >= 8 and obs["fired"] != obs["fired1"]

    def features(self, case, obs):
        n = len(obs["fired"])
        f = ["events=%s" % ("<=40" if n <= 40 else "41-100" if n <= 100 else "101-170" if n <= 170 else ">170 (not checked)"),
             "threads=%d" % case["project"]["nb_threads"]]
        same = [dict(e, tid=0, t=0) for e in obs["fired"]] == [dict(e, tid=0, t=0) for e in obs["fired1"]]
        f.append("same-order-as-1-thread" if same else "reordered")
        locs = {}
        for e in obs.get("real", []):
            if "tid" in e:
                locs.setdefault(e["tid"], set()).add(C.case_hash(e.get("loc")))
        f.append("a-real-thread-id-at-several-locations" if any(len(v) > 1 for v in locs.values()) else "one-location-per-thread-id")
        m = match(obs.get("real1", []), obs.get("real", []))
        if m is not None:
            tab_n, tab_1 = labels(obs["real"], obs["real1"], m)
            if len({k for _, _, k in tab_n}) < len(tab_n) or len({k for _, _, k in tab_1}) < len(tab_1):
                f.append("thread-ident-reuse: a table merges two ids")
        if any(e.get("e") == "att" for e in obs["fired"]):
            f.append("attachments")
        return f


def streams(ctx):
    return [Run(), Sched()]

"""
The PROJECT-LEVEL entry point of a run (C11, round 5): `PreparedProject.run` — what `lcc run` calls — of a `Project` subclass with
pre_run / post_run hooks of every kind (observe.PROJECT_HOOK_KINDS: not overridden / passing / raising lcc.UserError / raising another
exception / raising only when the run did not complete), around the run-level cases of the property (generated project × threads ×
gate strategy × backend fault × keyboard interrupt).  The observation is the one of `observe.run_project` (same recorder, same
trace), `obs["outcome"]` being what the caller of `PreparedProject.run` saw, plus `obs["project_calls"]`.

Model: `Model/ProjectRun.lean` (`run pre post <outcome of run_suites>`), theorems `Props/C11Project.lean`; tied by
  * the table `projectRunTable` (every pre kind × post kind × backend failed or not, EXECUTED on the real code; re-proved equal to the model
    on every run: `Generated/C11TablesCheck.lean: project_run_table_agrees`),
  * case by case: `drivers/Run.lean` answers `project` = the model's calls and outcome for the hooks of the case and the facts of the
    replayed trace; `compare` checks it against `classify(obs)`.
The oracle is the property's own (run/oracles.py `c11`): the error the caller gets carries the backend's original text, the run is not
silent, bodies stop, teardowns run — evaluated on what the PROJECT-level caller saw.
"""
import common as C
from props._runcommon import PropRunStream
from run import observe as O

PRE_KINDS = ("none", "pass", "user", "other")
POST_KINDS = O.PROJECT_HOOK_KINDS
PROJECT_TRUSTED = ["project-level entry point: hand-written model Model/ProjectRun.lean of PreparedProject.run (project.py, 40 lines), tied by the "
                   "extracted table projectRunTable (executed real code, every hook kind x hook kind x backend failure; obligation "
                   "project_run_table_agrees) and by the stream C11.project (drivers/Run.lean answer `project`); seams: module globals "
                   "AsyncEventManager / run_suites of lemoncheesecake.project replaced by the recording ones for the duration of a run"]
PROJECT_RULE = ("project stream: the same run-level cases started through PreparedProject.run of a Project subclass, pre_run in {not overridden, "
                "passing, raising UserError, raising RuntimeError} x post_run in {the same, raising UserError / RuntimeError only when a "
                "backend failed} x backend fault (70 %) x keyboard interrupt")


def run_suites_own_errors(obs):
    """`run_suites` raised the LemoncheesecakeException joining the errors of its own pre_run-fixture loops (Model/PreRun.lean
    `raisedErrors`: a pre_run fixture's setup failed — the session never started — or its teardown failed after the session) and no
    backend failed: for the project-level model a raised run outcome without backend text"""
    oc = obs["outcome"]
    return (oc.get("raised") == "LemoncheesecakeException" and "run_suites" in (obs.get("project_calls") or [])
            and not any(r[0] == "backend-raise" for r in obs["trace"])
            and "project's post_run method" not in (oc.get("text") or ""))


def classify(obs, text):
    """'calls => outcome' as the model renders it (Model/ProjectRun.lean `render`), read from the observation; `text` = the
    backend's original text ("" when there is no fault)"""
    oc = obs["outcome"]
    t = oc.get("text", "") or ""
    if "returned" in oc:
        out = "returned:%s" % str(bool(oc["returned"])).lower()
    elif oc.get("hang"):
        out = "hang"
    elif oc.get("raised") == "UserError" and t == O.PRE_RUN_TEXT:
        out = "pre_run-UserError"
    elif oc.get("raised") == "UserError" and t == O.POST_RUN_TEXT:
        out = "post_run-UserError"
    elif oc.get("raised") == "LemoncheesecakeException" and "project's pre_run method" in t:
        out = "pre_run-wrapped"
    elif oc.get("raised") == "LemoncheesecakeException" and "project's post_run method" in t:
        out = "post_run-wrapped"
    elif "raised" in oc and any(r[0] == "backend-raise" for r in obs["trace"]) and (not text.strip() or text.strip() in t):
        out = "raised-backend-error:T"
    elif run_suites_own_errors(obs):
        out = "raised-internal"
    elif "raised" in oc:
        out = "raised-other:" + oc["raised"]
    else:
        out = "?"
    return " ".join(obs.get("project_calls") or []) + " => " + out


def project_run_table():
    """How a PROJECT run ends for its caller and which hooks are called, obtained by EXECUTING the real `PreparedProject.run` (under
    the run-level recorder) on a three-test project for every combination of pre_run kind x post_run kind x (a reporting backend
    raising on an early event / on the last events / never).  Row input: (pre, post, backend failed); output: the calls in order and
    what the caller saw."""
    from run.selftest import _p, _s, _t, _LOG
    project = _p([_s("s0", [_t("t0", [], [_LOG]), _t("t1", [], [_LOG], rank=2), _t("t2", [], [_LOG], rank=3)])])
    rows, seen = [], set()
    for pre in PRE_KINDS:
        for post in POST_KINDS:
            for fault_k in (None, 1, 9):
                fault = None if fault_k is None else {"k": fault_k, "cls": "Custom", "text": "T"}
                obs = O.run_project(project, strategy="off", backend_fault=fault, project_hooks={"pre": pre, "post": post})
                failed = any(r[0] == "backend-raise" for r in obs["trace"])
                out = classify(obs, "T")
                key = (pre, post, failed)
                if (key, out) in seen:
                    continue
                seen.add((key, out))
                lean_in = '("%s", "%s", %s)' % (pre, post, "true" if failed else "false")
                rows.append((lean_in, '"%s"' % out, {"pre_run": pre, "post_run": post, "fault_at_event": fault_k, "backend_raised": failed, "out": out}))
    return C.Table("projectRunTable", "List ((String × String × Bool) × String)", rows)


class ProjectRunStream(PropRunStream):
    """a run-level stream whose runs are started through `PreparedProject.run`"""
    name = "project"
    p_pre_fails = 0.1

    def gen(self, rng, i):
        case = super().gen(rng, i)
        r = rng.random()
        pre = "user" if r < self.p_pre_fails / 2 else "other" if r < self.p_pre_fails else rng.choice(["none", "pass", "pass"])
        case["hooks"] = {"pre": pre, "post": rng.choice(list(POST_KINDS))}
        return case

    def impl(self, case):
        files = case.get("files") or {}
        fkw = dict(file_backends=files.get("backends"), saving=files.get("saving")) if files else {}
        return O.run_project(case["project"], strategy=case["strategy"], gate_seed=case["gseed"],
                             interrupt_at=case["interrupt"], backend_fault=case["fault"], listeners=case.get("listeners"),
                             start_gates=bool(case.get("start_gates")), project_hooks=case["hooks"], **fkw)

    def request(self, case, obs):
        if obs.get("graph") is None:
            if "invalid" in obs["outcome"]:
                return None
            return {"project_only": True, "project_hooks": case["hooks"], "run_errors": run_suites_own_errors(obs)}
        req = super().request(case, obs)
        if req is not None:
            req["project_hooks"] = case["hooks"]
            req["run_errors"] = run_suites_own_errors(obs)
        return req

    def compare(self, case, obs, ans):
        if "accepted" in ans or "project" not in ans:
            d = super().compare(case, obs, ans)
            if d:
                return d
        if obs["outcome"].get("hang"):
            return None
        if ans.get("project") is None:
            return "the model gave no answer for the project-level entry point"
        mine = classify(obs, (case.get("fault") or {}).get("text") or "")
        if mine != ans["project"]:
            return "PreparedProject.run: model says %r, the real code did %r" % (ans["project"], mine)
        return None

    def nontrivial(self, case, obs):
        return super().nontrivial(case, obs) if obs.get("graph") is not None else False

    def features(self, case, obs):
        f = super().features(case, obs) if obs.get("graph") is not None else ["run-not-started"]
        h = case["hooks"]
        f += ["entry=PreparedProject.run", "pre_run=" + h["pre"], "post_run=" + h["post"]]
        calls = obs.get("project_calls") or []
        f.append("post_run-called" if any(c.startswith("post_run") for c in calls) else "post_run-not-called")
        if case.get("fault") and obs.get("graph") is not None and any(r[0] == "backend-raise" for r in obs["trace"]):
            f.append("backend-failed+post_run=" + h["post"])
        return f

    def shrink(self, case):
        for c in super().shrink(case):
            yield dict(c, hooks=case["hooks"])
        h = case["hooks"]
        if h["pre"] != "none":
            yield dict(case, hooks=dict(h, pre="none"))


def _corpus():
    from run import witnesses2 as W2
    base = W2.EMPTY_BACKEND_ERROR
    fault = {"k": 3, "cls": "Custom", "text": "backend boom"}
    # a post_run hook that publishes what the backend was to produce (fails when the run failed) x a failing backend; the control
    # without fault; a failing pre_run; post_run raising unconditionally after a failed run
    return [dict(base, fault=dict(fault), hooks={"pre": "pass", "post": "user-if-failed"}),
            dict(base, fault=dict(fault, k=0), hooks={"pre": "none", "post": "user"}),
            dict(base, fault=dict(fault), hooks={"pre": "pass", "post": "other-if-failed"}),
            dict(base, fault=None, hooks={"pre": "pass", "post": "user-if-failed"}),
            dict(base, fault=dict(fault), hooks={"pre": "user", "post": "pass"})]


CORPUS = _corpus()

"""
C14.reconfig — ONE `MetadataPolicy` / `Project` object that is configured, used for a check, RECONFIGURED and used again.

Property C14: "Preparing a project (lcc check, lcc run) rejects, before anything executes, exactly the structurally invalid
projects: … and violations of the metadata policy."  The metadata policy of a project is what `project.metadata_policy` says
WHEN the project is prepared: a rule added or redefined between two preparations (two `PreparedProject.create`, or a direct
`check_test_compliance` / `check_suite_compliance` / `check_suites_compliance` followed by a preparation — a `project.py` that
validates while it builds its policy, a long-lived process, a test-suite of a project file) must be applied by the next check.

A case is a small suite tree carrying properties and tags + a sequence of steps on one policy object:
    configuration calls  add_property_rule / add_tag_rule (one name, list, tuple) / disallow_unknown_properties / disallow_unknown_tags
                         (rules for new names, REDEFINITIONS of existing rules, calls the code refuses with an AssertionError)
    checks               via check_test_compliance(test) | check_suite_compliance(suite) | check_suites_compliance(all) |
                         PreparedProject.create(project)       — the same policy object every time.
Observed for every check: the verdict of the used object AND the verdict of a FRESH `MetadataPolicy()` configured with the
configuration calls made so far (real code both times; for `create` a fresh Project object too).

Oracle (real code + the property text only):
  * used verdict == fresh verdict (same acceptance, same message): a check depends on the current rules only;
  * the statement itself, against the rules as they are at that moment (last declaration of a rule wins): a visited node carrying
    a tag / property forbidden for its node type, an unknown tag / property under disallow_unknown_*, a missing required
    property, a value outside the accepted ones -> rejected with a ValidationError naming such a violation; otherwise accepted.
Model (`Model/PolicySeq.lean`, driver `drivers/C14.lean` `handleSeq`): `Policy.run Policy.empty steps` gives every verdict (exact
error kind and arguments, first violation in the code's order), `Op.raises` the refused calls, `confAll` the final rule order.
Theorems: `Props/C14Reconfig.lean`.
"""
import copy
import shutil
import tempfile

import common as C

PROP_KEYS = ["prio", "owner"]
PROP_VALUES = ["low", "high", "x"]
TAGS = ["slow", "fast", "net"]
VIAS = ("test", "suite", "suites", "create")


# --------------------------------------------------------------------------------------------
# case helpers
# --------------------------------------------------------------------------------------------

def walk(suites, prefix=""):
    """(path, suite) in the order of `flatten_suites` (pre-order)"""
    for s in suites:
        path = (prefix + "." if prefix else "") + s["name"]
        yield path, s
        yield from walk(s["subs"], path)


def nodes_of(case, step):
    """the nodes a check visits, in order: (kind, path, node)"""
    out = []
    via = step["via"]
    for path, s in walk(case["suites"]):
        if via in ("suites", "create") or (via == "suite" and path == step["path"]):
            out.append(("suite", path, s))
        for t in s["tests"]:
            tpath = path + "." + t["name"]
            if via in ("suites", "create") or (via == "suite" and path == step["path"]) or (via == "test" and tpath == step["path"]):
                out.append(("test", tpath, t))
    return out


def well_formed(case):
    if not case["suites"] or not any(st["op"] == "check" for st in case["steps"]):
        return False
    spaths = {p for p, _ in walk(case["suites"])}
    tpaths = {p + "." + t["name"] for p, s in walk(case["suites"]) for t in s["tests"]}
    if any(not s["tests"] for _, s in walk(case["suites"])):
        return False
    for st in case["steps"]:
        if st["op"] == "check":
            if st["via"] == "test" and st["path"] not in tpaths:
                return False
            if st["via"] == "suite" and st["path"] not in spaths:
                return False
        if st["op"] == "tag_rule" and (not st["names"] or (st["form"] == "str" and len(st["names"]) != 1)):
            return False
    return True


def c14_case(case):
    """the same suite tree in the case language of props/c14.py (source rendering + real loaders)"""
    from props import c14

    def conv(s):
        return c14._s(s["name"], [c14._t(t["name"], props=t["props"], tags=t["tags"]) for t in s["tests"]],
                      subs=[conv(x) for x in s["subs"]], props=s["props"], tags=s["tags"])
    return {"policy": dict(c14.NOPOL), "decls": [], "fd": False, "keep": None, "defects": [], "suites": [conv(s) for s in case["suites"]]}


# --------------------------------------------------------------------------------------------
# the statement, read against the rules as they are at a given moment
# --------------------------------------------------------------------------------------------

def application(on_test, on_suite):
    """doc of add_*_rule: "If neither on_test or on_suite argument are set, then the … is only available for tests";
    a rule available nowhere is refused ("either on_test or on_suite need to be True")"""
    if on_test is None and on_suite is None:
        return True, False
    if not on_test and not on_suite:
        return None
    return bool(on_test), bool(on_suite)


def current_rules(ops):
    """the policy as the configuration calls made so far define it: the LAST declaration of a rule is the current one"""
    pol = {"props": {}, "tags": {}, "no_unknown_props": False, "no_unknown_tags": False}
    for o in ops:
        if o["op"] == "prop_rule":
            app = application(o["on_test"], o["on_suite"])
            if app is not None:
                pol["props"][o["name"]] = {"values": o["values"], "test": app[0], "suite": app[1], "required": o["required"]}
        elif o["op"] == "tag_rule":
            app = application(o["on_test"], o["on_suite"])
            if app is not None:
                for n in o["names"]:
                    pol["tags"][n] = {"test": app[0], "suite": app[1]}
        else:
            pol[o["op"]] = True
    return pol


def violations(pol, visited):
    """set of (kind, path, name) the visited nodes violate"""
    V = set()
    for kind, path, node in visited:
        for k, v in node["props"]:
            r = pol["props"].get(k)
            if r is None:
                if pol["no_unknown_props"]:
                    V.add(("prop-not-allowed", path, k))
            elif not r[kind]:
                V.add(("prop-forbidden", path, k))
                if pol["no_unknown_props"]:
                    V.add(("prop-not-allowed", path, k))     # "not allowed (available are …)": same violation, other wording
            elif r["values"] and v not in r["values"]:
                V.add(("prop-bad-value", path, k))
        keys = {k for k, _ in node["props"]}
        for name, r in pol["props"].items():
            if r[kind] and r["required"] and name not in keys:
                V.add(("prop-missing", path, name))
        for t in node["tags"]:
            r = pol["tags"].get(t)
            if r is None:
                if pol["no_unknown_tags"]:
                    V.add(("tag-not-allowed", path, t))
            elif not r[kind]:
                V.add(("tag-forbidden", path, t))
                if pol["no_unknown_tags"]:
                    V.add(("tag-not-allowed", path, t))
    return V


# --------------------------------------------------------------------------------------------
# real code
# --------------------------------------------------------------------------------------------

def apply_op(policy, o):
    """-> None | exception class name"""
    try:
        if o["op"] == "prop_rule":
            policy.add_property_rule(o["name"], accepted_values=(tuple(o["values"]) if o["values"] else None),
                                     on_test=o["on_test"], on_suite=o["on_suite"], required=o["required"])
        elif o["op"] == "tag_rule":
            names = o["names"][0] if o["form"] == "str" else (list(o["names"]) if o["form"] == "list" else tuple(o["names"]))
            policy.add_tag_rule(names, on_test=o["on_test"], on_suite=o["on_suite"])
        elif o["op"] == "no_unknown_props":
            policy.disallow_unknown_properties()
        elif o["op"] == "no_unknown_tags":
            policy.disallow_unknown_tags()
        else:
            raise ValueError(o["op"])
    except AssertionError:
        return "AssertionError"
    except Exception as e:
        return type(e).__name__
    return None


def _verdict(fn):
    from lemoncheesecake.exceptions import ValidationError
    from props import c14
    try:
        fn()
    except ValidationError as e:
        stage, kind, args = c14.classify(str(e))
        return {"accepted": False, "exc": "ValidationError", "stage": stage, "kind": kind, "args": args, "msg": str(e)[:300]}
    except BaseException as e:
        if isinstance(e, (KeyboardInterrupt, SystemExit)):
            raise
        return {"accepted": False, "exc": type(e).__name__, "stage": "?", "kind": "CRASH", "args": [], "msg": str(e)[:300]}
    return {"accepted": True}


def _find(suites, step):
    from lemoncheesecake.testtree import flatten_suites
    for s in flatten_suites(suites):
        if step["via"] == "suite" and s.path == step["path"]:
            return s
        if step["via"] == "test":
            for t in s.get_tests():
                if t.path == step["path"]:
                    return t
    raise LookupError(step["path"])


def check_with(project, policy, suites, step):
    from lemoncheesecake.project import PreparedProject
    via = step["via"]
    if via == "create":
        return _verdict(lambda: PreparedProject.create(project))       # what `lcc check` / `lcc run` do; reads project.metadata_policy
    if via == "suites":
        return _verdict(lambda: policy.check_suites_compliance(suites))
    node = _find(suites, step)
    if via == "suite":
        return _verdict(lambda: policy.check_suite_compliance(node))
    return _verdict(lambda: policy.check_test_compliance(node))


def observe(case, top):
    from lemoncheesecake.metadatapolicy import MetadataPolicy
    from props import c14
    try:
        import lemoncheesecake.suite.builder as _b
        del _b._objects_with_metadata[:]
    except Exception:
        pass
    cc = c14_case(case)
    del c14._HITS[:]
    project = c14.make_project(cc, top)
    policy = project.metadata_policy                     # THE policy object of the sequence
    suites = project.load_suites()
    done, raises, checks = [], [], []
    for st in case["steps"]:
        if st["op"] != "check":
            raises.append(apply_op(policy, st))
            done.append(st)
            continue
        used = check_with(project, policy, suites, st)
        fresh_policy = MetadataPolicy()
        for o in done:
            apply_op(fresh_policy, o)
        fresh_project = c14.make_project(cc, top)
        fresh_project.metadata_policy = fresh_policy
        fresh = check_with(fresh_project, fresh_policy, fresh_project.load_suites() if st["via"] != "create" else None, st)
        checks.append({"via": st["via"], "path": st.get("path"), "used": used, "fresh": fresh})
    return {"raises": raises, "checks": checks, "same_object": project.metadata_policy is policy,
            "rules": {"props": list(getattr(policy, "_properties", {}).keys()), "tags": list(getattr(policy, "_tags", {}).keys())},
            "hits": list(c14._HITS)}


def application_rows():
    """`tagApplicationTable` / `propApplicationTable`: (on_test, on_suite) in {None, True, False}^2 -> what the rule declared by
    add_tag_rule / add_property_rule with these arguments applies to — observed through the public interface only: a refused call
    (AssertionError) is `none`; else (a test carrying the tag / property is accepted, a suite carrying it is accepted)."""
    from lemoncheesecake.metadatapolicy import MetadataPolicy
    from lemoncheesecake.suite import Test, Suite

    def lean_opt(x):
        return "none" if x is None else "some %s" % ("true" if x else "false")

    def accepted(fn, node):
        return _verdict(lambda: fn(node))["accepted"]

    out = {"tag": [], "prop": []}
    for what in ("tag", "prop"):
        for a in (None, True, False):
            for b in (None, True, False):
                mp = MetadataPolicy()
                try:
                    if what == "tag":
                        mp.add_tag_rule("x", on_test=a, on_suite=b)
                    else:
                        mp.add_property_rule("x", on_test=a, on_suite=b)
                except AssertionError:
                    res, lean = None, "none"
                else:
                    t, s = Test("t", "t", lambda: None), Suite(None, "s", "s")
                    for n in (t, s):
                        if what == "tag":
                            n.tags.append("x")
                        else:
                            n.properties["x"] = "v"
                    res = [accepted(mp.check_test_compliance, t), accepted(mp.check_suite_compliance, s)]
                    lean = "some (%s, %s)" % tuple("true" if r else "false" for r in res)
                out[what].append(("(%s, %s)" % (lean_opt(a), lean_opt(b)), lean, {"rule": what, "on_test": a, "on_suite": b, "applies": res}))
    return out["tag"], out["prop"]


# --------------------------------------------------------------------------------------------
# oracle
# --------------------------------------------------------------------------------------------

def _vstr(v):
    return "accepted" if v["accepted"] else "rejected(%s)" % v["kind"]


def failures(case, obs):
    fails = []
    if obs["hits"]:
        fails.append(C.Failure("C14/reconfig/user-code-ran-during-preparation", "user code ran: %s" % obs["hits"][:5]))
    done, k, ci = [], 0, 0
    since_check = []
    for st in case["steps"]:
        if st["op"] != "check":
            refused = st["op"] in ("prop_rule", "tag_rule") and application(st["on_test"], st["on_suite"]) is None
            got = obs["raises"][k]
            k += 1
            if got not in (None, "AssertionError") or (got == "AssertionError" and not refused):
                fails.append(C.Failure("C14/reconfig/configuration-call-raised/%s/%s" % (st["op"], got),
                                       "%r raised %s" % (st, got)))
            done.append(st)
            since_check.append(st["op"])
            continue
        ch = obs["checks"][ci]
        ci += 1
        used, fresh = ch["used"], ch["fresh"]
        nth = "check #%d (via %s%s) after %d configuration call(s) and %d earlier check(s) on the same policy object" % (
            ci, st["via"], " " + st["path"] if st.get("path") else "", len(done), ci - 1)
        # (1) the verdict depends on the current rules only
        if used["accepted"] != fresh["accepted"] or used.get("msg") != fresh.get("msg"):
            fails.append(C.Failure(
                "C14/reconfig/verdict-differs-from-fresh-policy/via-%s/%s-but-fresh-%s" % (st["via"], _vstr(used), _vstr(fresh)),
                "%s: the used object answers %s, a fresh MetadataPolicy configured with the same %d call(s) answers %s "
                "(calls since the previous check: %s)" % (nth, used.get("msg", "accepted"), len(done), fresh.get("msg", "accepted"),
                                                          since_check)))
        # (2) the statement, against the rules as they are now
        V = violations(current_rules(done), nodes_of(case, st))
        kinds = sorted({v[0] for v in V})
        if used["accepted"]:
            if V:
                fails.append(C.Failure("C14/reconfig/violation-of-current-rules-accepted/via-%s/%s" % (st["via"], "+".join(kinds)),
                                       "%s: accepted although the visited nodes violate the current rules: %s" % (nth, sorted(V)[:4])))
        elif used["exc"] != "ValidationError":
            fails.append(C.Failure("C14/reconfig/crash-instead-of-ValidationError/" + used["exc"],
                                   "%s raised %s (%s)" % (nth, used["exc"], used["msg"])))
        elif not V:
            fails.append(C.Failure("C14/reconfig/compliant-nodes-rejected/via-%s/%s" % (st["via"], used["kind"]),
                                   "%s: rejected (%s) although every visited node complies with the current rules" % (nth, used["msg"])))
        else:
            a = used["args"]
            if used["stage"] != "policy" or (used["kind"], a[0], a[1]) not in V:
                fails.append(C.Failure("C14/reconfig/rejected-for-a-violation-that-does-not-hold/" + used["kind"],
                                       "%s: rejected with %s; violations of the current rules: %s" % (nth, used["msg"], sorted(V)[:4])))
        since_check = []
    if not obs["same_object"]:
        fails.append(C.Failure("C14/reconfig/project-replaced-its-policy-object", "project.metadata_policy is not the configured object any more"))
    return fails


# --------------------------------------------------------------------------------------------
# model side
# --------------------------------------------------------------------------------------------

def request(case):
    def suite(s, path):
        return {"path": path, "props": s["props"], "tags": s["tags"],
                "tests": [{"path": path + "." + t["name"], "props": t["props"], "tags": t["tags"]} for t in s["tests"]],
                "subs": [suite(x, path + "." + x["name"]) for x in s["subs"]]}
    steps = []
    for st in case["steps"]:
        st = {k: v for k, v in st.items() if k != "form"}
        steps.append(st)
    return {"suites": [suite(s, s["name"]) for s in case["suites"]], "steps": steps}


def compare(obs, ans):
    if "error" in ans:
        return "model error: %s" % ans["error"]
    want = [r is not None for r in obs["raises"]]
    if ans["raises"] != want:
        return "refused configuration calls: model %s, code %s" % (ans["raises"], obs["raises"])
    if len(ans["verdicts"]) != len(obs["checks"]):
        return "number of verdicts: model %d, code %d" % (len(ans["verdicts"]), len(obs["checks"]))
    for i, (m, ch) in enumerate(zip(ans["verdicts"], obs["checks"])):
        u = ch["used"]
        if u["accepted"]:
            if m["result"] != "ok":
                return "check #%d (%s): code accepts, model rejects %s %s" % (i + 1, ch["via"], m["kind"], m["args"])
        elif m["result"] == "ok":
            return "check #%d (%s): model accepts, code rejects: %s" % (i + 1, ch["via"], u["msg"])
        elif (m["stage"], m["kind"], m["args"]) != (u["stage"], u["kind"], u["args"]):
            return "check #%d (%s): model %s %s, code %s %s (%s)" % (i + 1, ch["via"], m["kind"], m["args"], u["kind"], u["args"], u["msg"])
    if ans["rules"] != obs["rules"]:
        return "rule order of the final policy: model %s, code %s" % (ans["rules"], obs["rules"])
    return None


# --------------------------------------------------------------------------------------------
# generator
# --------------------------------------------------------------------------------------------

def gen_case(rng):
    def meta():
        tags = [t for t in TAGS if rng.random() < 0.32]
        rng.shuffle(tags)
        props = [[k, rng.choice(PROP_VALUES)] for k in PROP_KEYS if rng.random() < 0.3]
        return props, tags

    counter = [0]

    def mk_suite(depth):
        counter[0] += 1
        name = ("s%d" if depth == 0 else "u%d") % counter[0]
        props, tags = meta()
        tests = []
        for i in range(rng.choice((1, 1, 2))):
            tp, tt = meta()
            tests.append({"name": "t%d" % (i + 1), "props": tp, "tags": tt})
        subs = [mk_suite(depth + 1)] if depth == 0 and rng.random() < 0.35 else []
        return {"name": name, "props": props, "tags": tags, "tests": tests, "subs": subs}

    suites = [mk_suite(0) for _ in range(rng.choice((1, 1, 2)))]
    spaths = [p for p, _ in walk(suites)]
    tpaths = [p + "." + t["name"] for p, s in walk(suites) for t in s["tests"]]
    carried_tags = sorted({t for _, s in walk(suites) for n in [s] + s["tests"] for t in n["tags"]}) or TAGS

    APPS = [(None, None)] * 4 + [(True, None)] * 2 + [(None, True)] * 4 + [(True, True)] * 3 + [(True, False)] * 2 + [(False, True)] * 3 + \
           [(False, False), (False, None)]      # the last two: refused by the code (AssertionError), 10%

    def app():
        return rng.choice(APPS)

    def conf():
        r = rng.random()
        if r < 0.5:
            n = 1 if rng.random() < 0.7 else 2
            pool = carried_tags if rng.random() < 0.7 else TAGS
            names = rng.sample(pool, min(n, len(pool)))
            form = "str" if len(names) == 1 and rng.random() < 0.8 else rng.choice(("list", "tuple"))
            a = app()
            return {"op": "tag_rule", "names": names, "form": form, "on_test": a[0], "on_suite": a[1]}
        if r < 0.82:
            a = app()
            return {"op": "prop_rule", "name": rng.choice(PROP_KEYS),
                    "values": rng.choice(([], [], ["low", "high"], ["x"])), "on_test": a[0], "on_suite": a[1],
                    "required": rng.random() < 0.2}
        return {"op": "no_unknown_tags"} if r < 0.92 else {"op": "no_unknown_props"}

    def check():
        via = rng.choice(VIAS + ("create",))
        st = {"op": "check", "via": via}
        if via == "test":
            st["path"] = rng.choice(tpaths)
        elif via == "suite":
            st["path"] = rng.choice(spaths)
        return st

    steps = []
    for seg in range(rng.choice((2, 2, 3, 3, 4))):
        lo = 0 if seg == 0 else (1 if rng.random() < 0.9 else 0)
        for _ in range(rng.randint(lo, 3)):
            steps.append(conf())
        steps.append(check())
    if rng.random() < 0.2:
        steps.append(conf())
    return {"suites": suites, "steps": steps}


def features(case, obs):
    f = []
    seen_check = False
    declared_t, declared_p = set(), set()
    n_checks = 0
    for st in case["steps"]:
        if st["op"] == "check":
            seen_check = True
            n_checks += 1
            f.append("check:" + st["via"])
            continue
        when = "after-a-check" if seen_check else "before-first-check"
        f.append("conf:%s:%s" % (st["op"], when))
        if st["op"] == "tag_rule":
            if application(st["on_test"], st["on_suite"]) is None:
                f.append("conf:refused")
            else:
                if declared_t & set(st["names"]):
                    f.append("redefinition:tag:" + when)
                declared_t |= set(st["names"])
            f.append("tag_rule:form:" + st["form"])
        if st["op"] == "prop_rule":
            if application(st["on_test"], st["on_suite"]) is None:
                f.append("conf:refused")
            else:
                if st["name"] in declared_p:
                    f.append("redefinition:prop:" + when)
                declared_p.add(st["name"])
    f.append("checks:%d" % n_checks)
    vs = [ch["used"] for ch in obs["checks"]]
    for a, b in zip(vs, vs[1:]):
        f.append("flip:%s->%s" % ("acc" if a["accepted"] else "rej", "acc" if b["accepted"] else "rej"))
    for i, v in enumerate(vs):
        if not v["accepted"]:
            f.append("rejected:%s%s" % (v["kind"], ":after-reconfiguration" if i else ""))
    return sorted(set(f))


def nontrivial(case):
    """at least two checks with a rule declaration in between"""
    idx = [i for i, st in enumerate(case["steps"]) if st["op"] == "check"]
    if len(idx) < 2:
        return False
    return any(st["op"] in ("tag_rule", "prop_rule", "no_unknown_tags", "no_unknown_props") for st in case["steps"][idx[0]:idx[-1]])


def shrink(case):
    def out(c):
        if well_formed(c):
            yield c
    for i in range(len(case["steps"])):
        c = copy.deepcopy(case)
        del c["steps"][i]
        yield from out(c)
    for i in range(len(case["suites"])):
        c = copy.deepcopy(case)
        del c["suites"][i]
        yield from out(c)

    def nodes(c):
        for _, s in walk(c["suites"]):
            yield s
            for t in s["tests"]:
                yield t
    n = len(list(nodes(case)))
    for i in range(n):
        for key in ("tags", "props"):
            c = copy.deepcopy(case)
            node = list(nodes(c))[i]
            if node[key]:
                node[key] = node[key][1:]
                yield from out(c)
    ns = len(list(walk(case["suites"])))
    for i in range(ns):
        c = copy.deepcopy(case)
        s = list(walk(c["suites"]))[i][1]
        if s["subs"]:
            s["subs"] = []
            yield from out(c)
        c = copy.deepcopy(case)
        s = list(walk(c["suites"]))[i][1]
        if len(s["tests"]) > 1:
            s["tests"] = s["tests"][:-1]
            yield from out(c)
    for i, st in enumerate(case["steps"]):
        if st["op"] == "tag_rule" and len(st["names"]) > 1:
            c = copy.deepcopy(case)
            c["steps"][i]["names"] = st["names"][:1]
            yield from out(c)
        if st["op"] == "check" and st["via"] != "create":
            c = copy.deepcopy(case)
            c["steps"][i] = {"op": "check", "via": "create"}
            yield from out(c)


# --------------------------------------------------------------------------------------------
# corpus: the minimal sequences
# --------------------------------------------------------------------------------------------

def _suite(name, tests, subs=(), props=(), tags=()):
    return {"name": name, "props": [list(p) for p in props], "tags": list(tags), "tests": list(tests), "subs": list(subs)}


def _test(name, props=(), tags=()):
    return {"name": name, "props": [list(p) for p in props], "tags": list(tags)}


def _tag(names, on_test=None, on_suite=None, form=None):
    names = [names] if isinstance(names, str) else list(names)
    return {"op": "tag_rule", "names": names, "form": form or ("str" if len(names) == 1 else "list"), "on_test": on_test, "on_suite": on_suite}


def _prop(name, values=(), on_test=None, on_suite=None, required=False):
    return {"op": "prop_rule", "name": name, "values": list(values), "on_test": on_test, "on_suite": on_suite, "required": required}


def _chk(via, path=None):
    st = {"op": "check", "via": via}
    if path:
        st["path"] = path
    return st


_TREE = [_suite("s1", [_test("t1", tags=["slow"]), _test("t2")])]
CORPUS = [
    # a suites-only tag rule declared after a first (successful) preparation of the project: the test carrying it must be rejected
    {"suites": _TREE, "steps": [_chk("create"), _tag("slow", on_suite=True), _chk("create")]},
    # … through every entry point
    {"suites": _TREE, "steps": [_chk("test", "s1.t1"), _tag("slow", on_suite=True), _chk("test", "s1.t1")]},
    {"suites": _TREE, "steps": [_chk("suite", "s1"), _tag(["slow", "net"], on_suite=True, form="tuple"), _chk("suite", "s1")]},
    {"suites": _TREE, "steps": [_chk("suites"), _tag("slow", on_suite=True), _chk("create")]},
    # redefinition under disallow_unknown_tags: tests-only, check, suites-only, check
    {"suites": _TREE, "steps": [_tag("slow", on_test=True), {"op": "no_unknown_tags"}, _chk("create"),
                                _tag("slow", on_suite=True), _chk("create")]},
    # a rule relaxed afterwards: rejected, then accepted
    {"suites": _TREE, "steps": [_tag("slow", on_suite=True), _chk("create"), _tag("slow", on_test=True, on_suite=True), _chk("create")]},
    # property rules: required property declared after a check; redefinition of the accepted values; disallow after a check
    {"suites": [_suite("s1", [_test("t1", props=[["prio", "low"]]), _test("t2")], props=[["owner", "x"]])],
     "steps": [_prop("prio", ["low", "high"]), _chk("create"), _prop("prio", ["high"]), _chk("suites"),
               _prop("prio", [], on_test=True, on_suite=True, required=True), _chk("create"), {"op": "no_unknown_props"}, _chk("create")]},
    # a refused call (AssertionError) between two checks changes nothing
    {"suites": _TREE, "steps": [_tag("slow", on_test=True), _chk("create"), _tag("slow", on_test=False), _chk("create"),
                                _prop("prio", on_test=False, on_suite=False), _chk("test", "s1.t1")]},
    # sub-suites: check_suite_compliance does not visit them, check_suites_compliance / create do
    {"suites": [_suite("s1", [_test("t1")], subs=[_suite("u1", [_test("t1", tags=["net"])], tags=["fast"])])],
     "steps": [_chk("suite", "s1"), _tag("net", on_suite=True), _chk("suite", "s1"), _chk("suites"),
               _tag(["fast", "net"], on_test=True, form="list"), _chk("create")]},
]


class Reconfig(C.Stream):
    name = "C14.reconfig"
    quick_cases = 1500
    thorough_cases = 15000
    quick_seconds = 14
    thorough_seconds = 140
    chunk = 100
    corpus = CORPUS

    def setup(self, ctx):
        self.top = tempfile.mkdtemp(prefix="lccverif-c14seq-")

    def teardown(self, ctx):
        shutil.rmtree(self.top, ignore_errors=True)

    def gen(self, rng, i):
        return gen_case(rng)

    def impl(self, case):
        return observe(case, self.top)

    def oracle(self, case, obs):
        return failures(case, obs)

    def request(self, case, obs):
        return request(case)

    def compare(self, case, obs, ans):
        return compare(obs, ans)

    def nontrivial(self, case, obs):
        return nontrivial(case)

    def features(self, case, obs):
        return features(case, obs)

    def shrink(self, case):
        return shrink(case)

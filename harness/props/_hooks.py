"""
Stream `C03.hooks`: the suite HOOKS (`setup_suite`, `teardown_suite`, `setup_test`, `teardown_test`) declared in every SHAPE the
language offers, loaded by the real loader and run by the real runner.

A case describes 1..3 top-level suites — `@lcc.suite` CLASSES (loaded with `load_suites_from_classes`) and suite MODULES (real module
objects loaded with `load_suite_from_module`) — with nested suite classes (nesting <= 2), 1..3 tests each (passing / failing /
raising / disabled) and, per suite, the declarations of its hooks.  A hook declaration is (name, shape, place, behaviour):

  place  body | base | mixin                (the dict of the suite class, of its base class, of a mixin class it also inherits from)
         init                               (`self.<hook> = ...` in `__init__`: the instance dict)
         module                             (the dict of the suite module)
  shape  method          `def teardown_suite(self): ...`                                    body / base / mixin
         staticmethod    `@staticmethod def teardown_suite(): ...`                            body / base / mixin
         classmethod     `@classmethod def teardown_suite(cls): ...`                          body / base / mixin
         lambda          `teardown_suite = lambda self: ...` (class dict: bound like a method) | `lambda: ...` (init, module)
         function        `def teardown_suite(): ...` in the module | `self.teardown_suite = release` in `__init__`
         boundmethod     `self.teardown_suite = self._cleanup` in `__init__`                  init
         partial         `functools.partial(release, "tag")`                                  everywhere
         callable        an instance of a class with `__call__`                               everywhere
         alias           `from helpers import release as teardown_suite`                      module
         none / string   `teardown_suite = None` / `= "cleanup"` (NOT callable: observation only)   everywhere

The same hook may be declared in two places of one suite (the lookup order of Python decides: instance dict, class, base, mixin).
Every hook and every test body records events in one global sequence.  The case is rendered to Python source, executed, loaded,
validated (`PreparedProject.create`) and run with `run_suites` under a 30 s watchdog.

ORACLE (C03's statement on the observation of the real code; never the model):
  * a hook declared in a CALLABLE shape is an attribute of the suite object, hence a hook of the loaded suite (`suite.has_hook`);
  * every suite whose `setup_suite` completed (or that declares none and ran a test): its `teardown_suite`, if declared, ran exactly
    once, after every test body / test hook of the suite's own tests, and before the teardown of the session fixture;
  * every test whose `setup_test` completed (or whose suite declares none and whose body ran): `teardown_test`, if declared, ran
    exactly once, after the body, with THAT test;
  * no teardown without its completed setup when the setup is declared; a failed setup's consumers are not executed;
  * where a hook is declared twice, the declaration Python's attribute lookup finds is the one that runs.
Model side (`drivers/Hooks.lean`, `Model/Hooks.lean`): `loadHooks` of the declarations against `has_hook` of the loaded suites.
"""
import functools
import itertools
import shutil
import sys
import tempfile
import threading
import types

import common as C

import lemoncheesecake.api as lcc
import lemoncheesecake.project as LP
import lemoncheesecake.suite.builder as LB
from lemoncheesecake.events import AsyncEventManager
from lemoncheesecake.fixture import load_fixtures_from_func
from lemoncheesecake.runner import run_suites
from lemoncheesecake.session import Session
from lemoncheesecake.suite import load_suites_from_classes, load_suite_from_module

from props._decl import _Backend, _report_tests

HOOKS = ("setup_suite", "teardown_suite", "setup_test", "teardown_test")
HOOK_ARGS = {"setup_suite": [], "teardown_suite": [], "setup_test": ["test"], "teardown_test": ["test", "status"]}
COUNTERPART = {"setup_suite": "teardown_suite", "setup_test": "teardown_test"}
CLASS_PLACES = ("init", "body", "base", "mixin")          # Python's lookup order on an instance
PLACES = CLASS_PLACES + ("module",)
SHAPES = ("method", "staticmethod", "classmethod", "lambda", "function", "boundmethod", "partial", "callable", "alias", "none", "string")
NON_CALLABLE = ("none", "string")
SHAPES_AT = {
    "body": ("method", "staticmethod", "classmethod", "lambda", "partial", "callable", "none", "string"),
    "base": ("method", "staticmethod", "classmethod", "lambda", "partial", "callable", "none", "string"),
    "mixin": ("method", "staticmethod", "classmethod", "lambda", "partial", "callable", "none", "string"),
    "init": ("function", "lambda", "boundmethod", "partial", "callable", "none", "string"),
    "module": ("function", "lambda", "partial", "callable", "alias", "none", "string"),
}
# shapes whose signature can name a fixture for setup_suite (a partial object shows `(*args, **kwargs)` to get_callable_args)
FIXTURE_SHAPES = ("method", "staticmethod", "classmethod", "lambda", "function", "boundmethod", "callable", "alias")
THREADS = (1, 2, 4)
HELPERS = "lccverif_hook_helpers"
HOOKS_TRUSTED = [
    "hooks stream: harness/props/_hooks.py renders generated suite classes / suite modules whose hooks are declared in every shape "
    "(method, staticmethod, classmethod, lambda, function or bound method assigned in __init__, functools.partial, callable object, imported "
    "function, non-callable value) and place (class body, base class, mixin, __init__, module) to Python source, loads them with the real "
    "load_suites_from_classes / load_suite_from_module and runs them with the real run_suites; hand-written model Model/Hooks.lean (shape x "
    "place -> attribute layers of Model/SuiteObject.lean -> hasattr) evaluated by drivers/Hooks.lean; the decision table shape x place x hook "
    "-> registered is extracted from the real loader on every run (Generated/C03TablesCheck.lean hook_shape_table_agrees)",
]
HOOKS_RULE = ("hooks stream: 1..3 suites (classes and modules, nesting <= 2), 1..3 tests each (failing / raising / disabled), every hook present "
              "with p ~ 0.6 in an independent random shape and place, 12 % declared twice, 8 % failing setups, nb_threads {1,2,4}; "
              "non-trivial = loaded, >= 1 hook in a shape other than an ordinary method registered and run")


# ------------------------------------------------------------------------------------------------
# description helpers
# ------------------------------------------------------------------------------------------------

def iter_suites(suites, prefix=()):
    """(suite description, path of names)"""
    for s in suites:
        p = prefix + (s["name"],)
        yield s, p
        yield from iter_suites(s.get("subs", []), p)


def place_rank(s, place):
    return 0 if s["kind"] == "module" else CLASS_PLACES.index(place)


def effective(s, hook):
    """the declaration of `hook` Python's attribute lookup finds on the suite object (None: not declared)"""
    ds = [d for d in s.get("hooks", []) if d["name"] == hook]
    if not ds:
        return None
    return min(ds, key=lambda d: place_rank(s, d["place"]))     # min is stable: the first declaration of a place wins... see render


def label(d):
    return "%s@%s" % (d["shape"], d["place"])


def is_callable_decl(d):
    return d is not None and d["shape"] not in NON_CALLABLE


# ------------------------------------------------------------------------------------------------
# generation
# ------------------------------------------------------------------------------------------------

def gen_hook(rng, kind, name, place=None):
    places = ("module",) if kind == "module" else CLASS_PLACES
    place = place or rng.choice(places)
    shapes = SHAPES_AT[place]
    r = rng.random()
    if r < 0.06:
        shape = rng.choice(NON_CALLABLE)
    elif r < 0.30:
        shape = shapes[0]                                        # the ordinary method / module-level function
    else:
        shape = rng.choice([s for s in shapes if s not in NON_CALLABLE])
    if name == "setup_suite" and shape in ("partial", "string") and rng.random() < 0.85:
        # the unchanged code REJECTS these at validation (get_callable_args of a partial object answers ['self']: "unknown fixture
        # 'self'"; of a string: ValueError) — kept rare so that most cases reach the runner
        shape = shapes[0]
    d = {"name": name, "shape": shape, "place": place, "behav": "pass", "fixture": False}
    if name.startswith("setup") and rng.random() < 0.08:
        d["behav"] = rng.choice(["raise", "log_error"])
    if name.startswith("teardown") and rng.random() < 0.04:
        d["behav"] = "raise"
    if name == "setup_suite" and shape in FIXTURE_SHAPES and rng.random() < 0.3:
        d["fixture"] = True
    return d


def gen_case(rng):
    ctr = itertools.count(1)

    def mk_suite(kind, depth):
        n = next(ctr)
        s = {"kind": kind, "name": "s%d" % n, "tests": [], "subs": [], "hooks": []}
        for k in range(rng.choice([1, 2, 2, 3])):
            r = rng.random()
            s["tests"].append({"name": "t%d_%d" % (n, k + 1), "behav": "fail" if r < 0.15 else "raise" if r < 0.25 else "pass",
                               "disabled": rng.random() < 0.12})
        for h in HOOKS:
            if rng.random() < 0.6:
                d = gen_hook(rng, kind, h)
                s["hooks"].append(d)
                if kind == "class" and rng.random() < 0.12:
                    others = [p for p in CLASS_PLACES if p != d["place"]]
                    s["hooks"].append(gen_hook(rng, kind, h, rng.choice(others)))
        if depth < 2 and rng.random() < 0.3:
            s["subs"] = [mk_suite("class", depth + 1) for _ in range(rng.choice([1, 1, 2]))]
        return s

    ntop = rng.choice([1, 1, 2, 2, 3])
    suites = [mk_suite("module" if rng.random() < 0.35 else "class", 1) for _ in range(ntop)]
    return {"suites": suites, "nb_threads": rng.choice(THREADS)}


# ------------------------------------------------------------------------------------------------
# rendering
# ------------------------------------------------------------------------------------------------

def _rec(sid, d, args):
    """the body of a hook: one call of the recorder"""
    return "_hook(%r, %r, %r, {%s})" % (sid, d["name"], d["place"], ", ".join("%r: %s" % (a, a) for a in args))


def _sig(d, first=None):
    args = ([first] if first else []) + (["res"] if d.get("fixture") else []) + HOOK_ARGS[d["name"]]
    return ", ".join(args)


def _rec_args(d):
    return (["res"] if d.get("fixture") else []) + HOOK_ARGS[d["name"]]


def helper_name(sid, d):
    return "_f_%s_%s_%s" % (sid.replace(".", "_"), d["name"], d["place"])


def render_helpers(case):
    """the helper module (`import`-able: functions to alias / assign, the target of the partials, the callable classes)"""
    out = ["def _generic(sid, hook, place, *args):", "    _hook(sid, hook, place, dict(zip(HOOK_ARGS[hook], args)))", ""]
    for s, path in iter_suites(case["suites"]):
        sid = ".".join(path)
        for d in s.get("hooks", []):
            if d["shape"] in ("function", "alias"):
                out += ["def %s(%s):" % (helper_name(sid, d), _sig(d)), "    " + _rec(sid, d, _rec_args(d)), ""]
            elif d["shape"] == "callable":
                out += ["class _C%s:" % helper_name(sid, d), "    def __call__(%s):" % _sig(d, "self"), "        " + _rec(sid, d, _rec_args(d)), ""]
    return "\n".join(out)


def hook_value(sid, d):
    """the expression assigned to the hook name (shapes written as an assignment)"""
    sh = d["shape"]
    if sh == "partial":
        return "functools.partial(H._generic, %r, %r, %r)" % (sid, d["name"], d["place"])
    if sh == "callable":
        return "H._C%s()" % helper_name(sid, d)
    if sh in ("function", "alias"):
        return "H.%s" % helper_name(sid, d)
    if sh == "none":
        return "None"
    if sh == "string":
        return "%r" % ("do " + d["name"])
    raise KeyError(sh)


def render_class_dict(sid, decls, pad, out):
    """hook declarations written in a class body"""
    for d in decls:
        sh, h = d["shape"], d["name"]
        if sh == "method":
            out += [pad + "def %s(%s):" % (h, _sig(d, "self")), pad + "    " + _rec(sid, d, _rec_args(d)), ""]
        elif sh == "staticmethod":
            out += [pad + "@staticmethod", pad + "def %s(%s):" % (h, _sig(d)), pad + "    " + _rec(sid, d, _rec_args(d)), ""]
        elif sh == "classmethod":
            out += [pad + "@classmethod", pad + "def %s(%s):" % (h, _sig(d, "cls")), pad + "    " + _rec(sid, d, _rec_args(d)), ""]
        elif sh == "lambda":
            out += [pad + "%s = lambda %s: %s" % (h, _sig(d, "self"), _rec(sid, d, _rec_args(d)))]
        else:
            out += [pad + "%s = %s" % (h, hook_value(sid, d))]


def render_init(sid, decls, pad, out):
    if not decls:
        return
    out += [pad + "def __init__(self):", pad + "    super().__init__()"]
    extra = []
    for d in decls:
        sh, h = d["shape"], d["name"]
        if sh == "lambda":
            out += [pad + "    self.%s = lambda %s: %s" % (h, _sig(d), _rec(sid, d, _rec_args(d)))]
        elif sh == "boundmethod":
            out += [pad + "    self.%s = self._do_%s" % (h, h)]
            extra += [pad + "def _do_%s(%s):" % (h, _sig(d, "self")), pad + "    " + _rec(sid, d, _rec_args(d)), ""]
        else:
            out += [pad + "    self.%s = %s" % (h, hook_value(sid, d))]
    out += [""] + extra


def render_tests(s, sid, pad, out, is_module):
    for t in s["tests"]:
        if t["disabled"]:
            out.append(pad + "@lcc.disabled()")
        out.append(pad + "@lcc.test(%r)" % ("test " + t["name"]))
        out.append(pad + "def %s(%s):" % (t["name"], "" if is_module else "self"))
        out.append(pad + "    _body(%r, %r)" % (sid, t["name"]))
        out.append("")


def render_class(s, path, ind, out):
    """a suite class (+ its base / mixin classes, emitted just before it at the same level)"""
    pad = "    " * ind
    sid = ".".join(path)
    by_place = {p: [d for d in s.get("hooks", []) if d["place"] == p] for p in CLASS_PLACES}
    bases = []
    for p, cname in (("base", "Base_%s" % s["name"]), ("mixin", "Mixin_%s" % s["name"])):
        if by_place[p]:
            out.append(pad + "class %s:" % cname)
            render_class_dict(sid, _dedup(by_place[p]), pad + "    ", out)
            out.append("")
            bases.append(cname)
    out.append(pad + "@lcc.suite(%r)" % ("suite " + s["name"]))
    out.append(pad + "class %s%s:" % (s["name"], "(%s)" % ", ".join(bases) if bases else ""))
    render_init(sid, _dedup(by_place["init"]), pad + "    ", out)
    render_class_dict(sid, _dedup(by_place["body"]), pad + "    ", out)
    render_tests(s, sid, pad + "    ", out, False)
    for x in s.get("subs", []):
        render_class(x, path + (x["name"],), ind + 1, out)
    out.append("")


def _dedup(decls):
    """one declaration per hook name and place (the first one)"""
    seen, out = set(), []
    for d in decls:
        if d["name"] not in seen:
            seen.add(d["name"])
            out.append(d)
    return out


def render_module(s, path, out):
    sid = ".".join(path)
    for d in _dedup(s.get("hooks", [])):
        sh, h = d["shape"], d["name"]
        if sh == "function":
            out += ["def %s(%s):" % (h, _sig(d)), "    " + _rec(sid, d, _rec_args(d)), ""]
        elif sh == "lambda":
            out += ["%s = lambda %s: %s" % (h, _sig(d), _rec(sid, d, _rec_args(d)))]
        elif sh == "alias":
            out += ["from %s import %s as %s" % (HELPERS, helper_name(sid, d), h)]
        else:
            out += ["%s = %s" % (h, hook_value(sid, d))]
    out.append("")
    render_tests(s, sid, "", out, True)
    for x in s.get("subs", []):
        render_class(x, path + (x["name"],), 0, out)


def render(case):
    """[(top-level suite description, source)] + the helper module's source"""
    tops = []
    for s in case["suites"]:
        out = ["import functools", "import lemoncheesecake.api as lcc", "import %s as H" % HELPERS, ""]
        if s["kind"] == "module":
            render_module(s, (s["name"],), out)
        else:
            render_class(s, (s["name"],), 0, out)
        tops.append((s, "\n".join(out)))
    return tops, render_helpers(case)


# ------------------------------------------------------------------------------------------------
# the real loader and runner
# ------------------------------------------------------------------------------------------------

_lock_modules = threading.Lock()


def _hook_obs(suite):
    """what the loaded suite says about its hooks"""
    out = {}
    for h in HOOKS:
        if not suite.has_hook(h):
            out[h] = None
            continue
        v = suite.get_hook(h)
        try:
            params = list(suite.get_hook_params(h))
        except BaseException as e:
            params = "raises " + type(e).__name__
        out[h] = {"type": type(v).__name__, "callable": callable(v), "params": params}
    return out


def loaded_hooks(suites, prefix=()):
    out = []
    for s in suites:
        p = prefix + (s.name,)
        out.append([list(p), _hook_obs(s)])
        out += loaded_hooks(s.get_suites(), p)
    return out


def run_case(case, watchdog=30.0):
    tops, helpers_src = render(case)
    events = []
    lock = threading.Lock()
    behav = {}
    for s, path in iter_suites(case["suites"]):
        sid = ".".join(path)
        for t in s["tests"]:
            behav[(sid, t["name"])] = t["behav"]
        for d in s.get("hooks", []):
            behav[(sid, d["name"], d["place"])] = d.get("behav", "pass")

    def _act(b):
        if b == "raise":
            raise RuntimeError("declared to raise")
        if b in ("fail", "log_error"):
            lcc.log_error("declared to fail")

    def _body(sid, test):
        with lock:
            events.append(["body", sid, test])
        _act(behav.get((sid, test), "pass"))
        with lock:
            events.append(["body-end", sid, test])

    def _hook(sid, hook, place, args):
        t = args.get("test")
        with lock:
            events.append(["hook", sid, hook, place, getattr(t, "name", None), args.get("status"), args.get("res")])
        _act(behav.get((sid, hook, place), "pass"))
        with lock:
            events.append(["hook-end", sid, hook, place, getattr(t, "name", None)])

    def res():
        with lock:
            events.append(["fixture", "res", "setup"])
        yield "res-value"
        with lock:
            events.append(["fixture", "res", "teardown"])

    obs = {"sources": [src for _, src in tops], "helpers": helpers_src}
    tmp0 = tempfile.mkdtemp(prefix="lccverif-hooks-")
    keep = len(LB._objects_with_metadata)
    with _lock_modules:
        helpers = types.ModuleType(HELPERS)
        helpers.__dict__.update({"_hook": _hook, "HOOK_ARGS": HOOK_ARGS})
        old_helpers = sys.modules.get(HELPERS)
        sys.modules[HELPERS] = helpers
        try:
            exec(compile(helpers_src, "<lccverif-hook-helpers>", "exec"), helpers.__dict__)
            compiled = [(s, compile(src, "<lccverif-hooks-%s>" % s["name"], "exec")) for s, src in tops]

            def load_suites():
                out = []
                for s, code in compiled:
                    if s["kind"] == "module":
                        mod = types.ModuleType(s["name"])
                        mod.__file__ = "%s/%s.py" % (tmp0, s["name"])
                        mod.__dict__.update({"_body": _body, "_hook": _hook})
                        exec(code, mod.__dict__)
                        suite = load_suite_from_module(mod)
                        if not suite.hidden:
                            out.append(suite)
                    else:
                        ns = {"_body": _body, "_hook": _hook, "__name__": "lccverif_hooks_ns"}
                        exec(code, ns)
                        out.extend(load_suites_from_classes([ns[s["name"]]]))
                return out

            class HooksProject(LP.Project):
                def __init__(self):
                    LP.Project.__init__(self, tmp0)

                def load_suites(self):
                    return load_suites()

                def load_fixtures(self):
                    return load_fixtures_from_func(lcc.fixture(scope="session")(res))

            project = HooksProject()
            try:
                suites = project.load_suites()
            except BaseException as e:
                obs["load"] = {"error": [type(e).__name__, str(e)[:300]]}
                return obs
            obs["load"] = {"hooks": loaded_hooks(suites)}
            try:
                prepared = LP.PreparedProject.create(project, None)
            except BaseException as e:
                obs["prepare_error"] = [type(e).__name__, str(e)[:300]]
                return obs
            obs["executed_during_validation"] = len(events)
            del events[:]
            n = case.get("nb_threads", 1)
            tmp = tempfile.mkdtemp(prefix="lccverif-hooks-")
            old = Session._instance
            side = {}

            def body():
                try:
                    session = Session.create(AsyncEventManager.load(), [_Backend()], tmp, None, nb_threads=n)
                    side["session"] = session
                    side["returned"] = bool(run_suites(prepared.suites, prepared.fixture_registry, session, nb_threads=n))
                except BaseException as e:
                    side["raised"] = [type(e).__name__, str(e)[:300]]
            try:
                th = threading.Thread(target=body, daemon=True, name="lccverif-hooks")
                th.start()
                th.join(watchdog)
                run = {"n": n}
                if th.is_alive():
                    run["outcome"] = {"hang": True}
                elif "raised" in side:
                    run["outcome"] = {"raised": side["raised"][0], "text": side["raised"][1]}
                else:
                    run["outcome"] = {"returned": side["returned"]}
                session = side.get("session")
                if session is not None and not th.is_alive():
                    run["tests"] = _report_tests(session.report)
                with lock:
                    run["events"] = [list(e) for e in events]
                obs["run"] = run
            finally:
                Session._instance = old
                shutil.rmtree(tmp, ignore_errors=True)
            return obs
        finally:
            del LB._objects_with_metadata[keep:]
            if old_helpers is None:
                sys.modules.pop(HELPERS, None)
            else:
                sys.modules[HELPERS] = old_helpers
            shutil.rmtree(tmp0, ignore_errors=True)


# ------------------------------------------------------------------------------------------------
# oracle
# ------------------------------------------------------------------------------------------------

def oracle(case, obs):
    out = []

    def fail(sig, msg):
        out.append(C.Failure("C03/hooks/" + sig, msg))

    load = obs.get("load", {})
    if "hooks" not in load:
        return out
    loaded = {".".join(p): h for p, h in load["hooks"]}
    descr = {".".join(path): s for s, path in iter_suites(case["suites"])}
    # 1. a hook declared in a callable shape is an attribute of the suite object: it is a hook of the loaded suite
    for sid, s in descr.items():
        if sid not in loaded:
            continue
        for h in HOOKS:
            d = effective(s, h)
            if is_callable_decl(d) and loaded[sid].get(h) is None:
                fail("declared-hook-not-registered/" + label(d), "suite %s declares %s as %s; the loaded suite has no such hook" % (sid, h, label(d)))
    run = obs.get("run")
    if run is None:
        return out
    if "returned" not in run["outcome"]:
        fail("run-" + sorted(run["outcome"])[0], "n=%d: %r" % (run["n"], run["outcome"]))
        return out
    evs = run["events"]
    tag = "n=%d" % run["n"]
    fx_teardown = [i for i, e in enumerate(evs) if e[0] == "fixture" and e[2] == "teardown"]

    def positions(kind, sid, *rest):
        return [i for i, e in enumerate(evs) if e[0] == kind and e[1] == sid and tuple(e[2:2 + len(rest)]) == rest]

    def inside(sid):
        """positions of every event of the suite's CONSUMERS: its own tests (bodies, setup_test / teardown_test).  A sub-suite is
        not a consumer of the parent's hooks: the runner neither makes it wait for the parent's setup_suite nor the parent's
        teardown_suite wait for it (runner.build_suite_tasks; C01Graph / C03.suite_teardown_after_setup_and_tests say the same)"""
        return [i for i, e in enumerate(evs) if e[0] != "fixture" and e[1] == sid
                and not (e[0].startswith("hook") and e[2] in ("setup_suite", "teardown_suite"))]

    for sid, s in descr.items():
        d_set, d_td = effective(s, "setup_suite"), effective(s, "teardown_suite")
        bodies = [i for i, e in enumerate(evs) if e[0] == "body" and e[1] == sid]
        starts = positions("hook", sid, "setup_suite")
        done = positions("hook-end", sid, "setup_suite")
        tds = positions("hook", sid, "teardown_suite")
        # the declaration the lookup finds is the one that runs
        for h, d in (("setup_suite", d_set), ("teardown_suite", d_td), ("setup_test", effective(s, "setup_test")), ("teardown_test", effective(s, "teardown_test"))):
            if is_callable_decl(d):
                wrong = [e for e in evs if e[0] == "hook" and e[1] == sid and e[2] == h and e[3] != d["place"]]
                if wrong:
                    fail("shadowed-hook-ran/" + h, "%s: suite %s: %s declared at %s ran, the attribute lookup finds the one at %s" % (tag, sid, h, wrong[0][3], d["place"]))
        if is_callable_decl(d_set):
            if len(starts) > 1:
                fail("setup-hook-run-twice/setup_suite/" + label(d_set), "%s: suite %s: setup_suite ran %d times" % (tag, sid, len(starts)))
            completed = bool(done) and d_set.get("behav", "pass") == "pass"
            if not completed and inside(sid) and any(evs[i][0] == "body" for i in inside(sid)):
                fail("consumer-ran-after-failed-setup/setup_suite", "%s: suite %s: setup_suite did not complete, yet test bodies ran" % (tag, sid))
            if starts and inside(sid) and min(inside(sid)) < starts[0]:
                fail("consumer-before-setup/setup_suite", "%s: suite %s: an event of the suite precedes its setup_suite" % (tag, sid))
        else:
            completed = bool(bodies)         # no setup hook: the suite was demonstrably entered when one of its own tests ran
        if is_callable_decl(d_td):
            if is_callable_decl(d_set) and not completed and tds:
                fail("teardown-without-completed-setup/teardown_suite", "%s: suite %s: teardown_suite ran although setup_suite did not complete" % (tag, sid))
            if completed:
                if not tds:
                    fail("teardown-hook-not-run/teardown_suite/" + label(d_td), "%s: suite %s was set up (%s), its teardown_suite declared as %s never ran" % (
                        tag, sid, "setup_suite completed" if is_callable_decl(d_set) else "its tests ran", label(d_td)))
                elif len(tds) > 1:
                    fail("teardown-hook-run-twice/teardown_suite/" + label(d_td), "%s: suite %s: teardown_suite ran %d times" % (tag, sid, len(tds)))
                else:
                    ins = inside(sid)
                    if ins and max(ins) > tds[0]:
                        fail("teardown-before-last-consumer/teardown_suite", "%s: suite %s: teardown_suite at %d, an event of the suite at %d" % (tag, sid, tds[0], max(ins)))
                    if done and tds[0] < done[0]:
                        fail("teardown-before-setup/teardown_suite", "%s: suite %s" % (tag, sid))
                    if fx_teardown and fx_teardown[0] < tds[0]:
                        fail("teardown-after-enclosing-fixture/teardown_suite", "%s: suite %s: the session fixture was torn down at %d, teardown_suite ran at %d" % (tag, sid, fx_teardown[0], tds[0]))
        # tests
        t_set, t_td = effective(s, "setup_test"), effective(s, "teardown_test")
        for t in s["tests"]:
            name = t["name"]
            b = positions("body", sid, name)
            b_end = positions("body-end", sid, name)
            st = [i for i in positions("hook", sid, "setup_test") if evs[i][4] == name]
            st_done = [i for i in positions("hook-end", sid, "setup_test") if evs[i][4] == name]
            td = [i for i in positions("hook", sid, "teardown_test") if evs[i][4] == name]
            if len(b) > 1:
                fail("body-run-twice", "%s: %s.%s" % (tag, sid, name))
            if is_callable_decl(t_set):
                if len(st) > 1:
                    fail("setup-hook-run-twice/setup_test/" + label(t_set), "%s: %s.%s" % (tag, sid, name))
                t_completed = bool(st_done) and t_set.get("behav", "pass") == "pass"
                if b and not t_completed:
                    fail("consumer-ran-after-failed-setup/setup_test", "%s: %s.%s ran although its setup_test did not complete" % (tag, sid, name))
                if b and st and b[0] < st[0]:
                    fail("consumer-before-setup/setup_test", "%s: %s.%s" % (tag, sid, name))
            else:
                t_completed = bool(b)
            if is_callable_decl(t_td):
                if is_callable_decl(t_set) and not t_completed and td:
                    fail("teardown-without-completed-setup/teardown_test", "%s: %s.%s: teardown_test ran although setup_test did not complete" % (tag, sid, name))
                if t_completed:
                    if not td:
                        fail("teardown-hook-not-run/teardown_test/" + label(t_td), "%s: test %s.%s was set up (%s), teardown_test declared as %s never ran for it" % (
                            tag, sid, name, "setup_test completed" if is_callable_decl(t_set) else "its body ran", label(t_td)))
                    elif len(td) > 1:
                        fail("teardown-hook-run-twice/teardown_test/" + label(t_td), "%s: %s.%s: %d times" % (tag, sid, name, len(td)))
                    else:
                        last = max(b + b_end + st_done) if (b or st_done) else -1
                        if td[0] < last:
                            fail("teardown-before-last-consumer/teardown_test", "%s: %s.%s: teardown_test at %d, body / setup at %d" % (tag, sid, name, td[0], last))
        # a teardown_test for a test that is not one of the suite's
        names = {t["name"] for t in s["tests"]}
        for i in positions("hook", sid, "teardown_test"):
            if evs[i][4] not in names:
                fail("teardown-with-foreign-test/teardown_test", "%s: suite %s: teardown_test received %r" % (tag, sid, evs[i][4]))
    return out


# ------------------------------------------------------------------------------------------------
# corpus: one suite, setup hooks as ordinary methods / functions, the teardown hooks in another shape
# ------------------------------------------------------------------------------------------------

def _h(name, shape, place, **kw):
    return dict({"name": name, "shape": shape, "place": place, "behav": "pass", "fixture": False}, **kw)


def _s(kind, name, hooks, tests=("t1", "t2"), subs=()):
    return {"kind": kind, "name": name, "hooks": list(hooks), "subs": list(subs),
            "tests": [{"name": t, "behav": "pass", "disabled": False} for t in tests]}


CORPUS = [
    # teardown hooks as @staticmethod beside method setups (setup_suite uses the session fixture)
    {"suites": [_s("class", "accounts", [_h("setup_suite", "method", "body", fixture=True), _h("teardown_suite", "staticmethod", "body"),
                                         _h("setup_test", "method", "body"), _h("teardown_test", "staticmethod", "body")])], "nb_threads": 1},
    # `self.teardown_suite = release` in __init__
    {"suites": [_s("class", "shared", [_h("setup_suite", "method", "body"), _h("teardown_suite", "function", "init")], tests=("t1",))], "nb_threads": 1},
    # partial / callable object in a module suite
    {"suites": [_s("module", "modsuite", [_h("setup_suite", "function", "module"), _h("teardown_suite", "partial", "module"),
                                          _h("setup_test", "function", "module"), _h("teardown_test", "callable", "module")])], "nb_threads": 2},
    # inherited staticmethod / classmethod / callable object of a mixin; lambda and partial class attributes
    {"suites": [_s("class", "inherits", [_h("setup_suite", "method", "base"), _h("teardown_suite", "callable", "mixin"),
                                         _h("setup_test", "classmethod", "base"), _h("teardown_test", "partial", "body")],
                   subs=[_s("class", "inner", [_h("setup_suite", "lambda", "body"), _h("teardown_suite", "partial", "init"),
                                               _h("teardown_test", "boundmethod", "init")], tests=("t3",))])], "nb_threads": 2},
    # an instance attribute shadows the method of the class; a failing setup_suite: no teardown, no consumer
    {"suites": [_s("class", "shadow", [_h("teardown_suite", "method", "body"), _h("teardown_suite", "lambda", "init"),
                                       _h("setup_suite", "staticmethod", "base")]),
                _s("class", "broken", [_h("setup_suite", "method", "body", behav="raise"), _h("teardown_suite", "staticmethod", "body")]),
                _s("module", "m2", [_h("teardown_suite", "alias", "module"), _h("setup_test", "lambda", "module"), _h("teardown_test", "alias", "module")])],
     "nb_threads": 4},
]


# ------------------------------------------------------------------------------------------------
# the stream
# ------------------------------------------------------------------------------------------------

def model_request(case):
    return {"suites": [{"path": list(path), "module": s["kind"] == "module",
                        "hooks": [{"name": d["name"], "shape": d["shape"], "place": d["place"]} for d in s.get("hooks", [])]}
                       for s, path in iter_suites(case["suites"])]}


class HooksStream(C.Stream):
    name = "C03.hooks"
    driver = "drivers/Hooks.lean"
    quick_cases = 150
    quick_seconds = 10
    thorough_cases = 1500
    thorough_seconds = 120
    chunk = 25
    corpus = CORPUS

    def gen(self, rng, i):
        return gen_case(rng)

    def impl(self, case):
        return run_case(case)

    def oracle(self, case, obs):
        return oracle(case, obs)

    def request(self, case, obs):
        return model_request(case)

    def compare(self, case, obs, ans):
        if "error" in ans:
            return "model error: " + str(ans["error"])
        if "hooks" not in obs.get("load", {}):
            return "the real loader raised %r; the model loads every declaration" % (obs.get("load"),)
        real = {".".join(p): sorted(h for h in HOOKS if v.get(h) is not None) for p, v in obs["load"]["hooks"]}
        model = {".".join(p): sorted(hs) for p, hs in ans["hooks"]}
        if real != model:
            k = next(k for k in sorted(set(real) | set(model)) if real.get(k) != model.get(k))
            return "hooks of suite %s: the loaded suite has %r, the model's loadHooks gives %r" % (k, real.get(k), model.get(k))
        return None

    def nontrivial(self, case, obs):
        run = obs.get("run")
        if not run or "hooks" not in obs.get("load", {}):
            return False
        ran = {(e[1], e[2], e[3]) for e in run.get("events", []) if e[0] == "hook"}
        for s, path in iter_suites(case["suites"]):
            for d in s.get("hooks", []):
                if d["shape"] not in ("method",) and (".".join(path), d["name"], d["place"]) in ran:
                    return True
        return False

    def features(self, case, obs):
        f = ["threads=%d" % case.get("nb_threads", 1)]
        if "error" in obs.get("load", {}):
            f.append("load-error=" + obs["load"]["error"][0])
        if "prepare_error" in obs:
            f.append("prepare-error=" + obs["prepare_error"][0])
        if "run" in obs:
            f.append("run")
        for s, path in iter_suites(case["suites"]):
            f.append("suite:" + s["kind"] + ("/nested" if len(path) > 1 else ""))
            for h in HOOKS:
                ds = [d for d in s.get("hooks", []) if d["name"] == h]
                if len(ds) > 1:
                    f.append("declared-twice")
                d = effective(s, h)
                if d is not None:
                    f.append(label(d))
                    f.append("%s:%s" % (h, label(d)))
                    if d.get("behav", "pass") != "pass":
                        f.append("hook-" + d["behav"] + ("/setup" if h.startswith("setup") else "/teardown"))
                    if d.get("fixture"):
                        f.append("setup_suite-takes-fixture")
            for a, b in COUNTERPART.items():
                da, db = effective(s, a), effective(s, b)
                if is_callable_decl(da) and is_callable_decl(db):
                    f.append("pair:" + ("same-shape" if label(da) == label(db) else "different-shapes"))
                elif is_callable_decl(db):
                    f.append("teardown-without-setup-hook")
            for t in s["tests"]:
                if t["disabled"]:
                    f.append("test-disabled")
                elif t["behav"] != "pass":
                    f.append("test-" + t["behav"])
        return f

    def shrink(self, case):
        ss = case["suites"]
        rest = {k: v for k, v in case.items() if k != "suites"}
        if case.get("nb_threads", 1) != 1:
            yield dict(case, nb_threads=1)
        for i in range(len(ss)):
            if len(ss) > 1:
                yield dict(rest, suites=ss[:i] + ss[i + 1:])

        def edits(s):
            for i in range(len(s.get("subs", []))):
                yield dict(s, subs=s["subs"][:i] + s["subs"][i + 1:])
            for i in range(len(s["tests"])):
                if len(s["tests"]) > 1:
                    yield dict(s, tests=s["tests"][:i] + s["tests"][i + 1:])
            for i, t in enumerate(s["tests"]):
                if t["behav"] != "pass" or t["disabled"]:
                    yield dict(s, tests=s["tests"][:i] + [dict(t, behav="pass", disabled=False)] + s["tests"][i + 1:])
            hs = s.get("hooks", [])
            for i in range(len(hs)):
                yield dict(s, hooks=hs[:i] + hs[i + 1:])
            for i, d in enumerate(hs):
                if d.get("fixture") or d.get("behav", "pass") != "pass":
                    yield dict(s, hooks=hs[:i] + [dict(d, fixture=False, behav="pass")] + hs[i + 1:])
                plain = SHAPES_AT[d["place"]][0]
                if d["name"].startswith("setup") and d["shape"] != plain:
                    yield dict(s, hooks=hs[:i] + [dict(d, shape=plain)] + hs[i + 1:])
            for i, x in enumerate(s.get("subs", [])):
                for x2 in edits(x):
                    yield dict(s, subs=s["subs"][:i] + [x2] + s["subs"][i + 1:])
        for i, s in enumerate(ss):
            for s2 in edits(s):
                yield dict(rest, suites=ss[:i] + [s2] + ss[i + 1:])

"""
Decision table of `Suite._load_injected_fixtures` (+ the hook discovery `hasattr(suite_obj, "setup_suite")`), extracted by
EXECUTING the real code on generated class shapes.

A shape says where an `lcc.inject_fixture()` marker is written (class body, base class, grand-base, mixin, `__init__` of the
class or of a base) x how the attribute is named (`conn`, `_conn`, `__conn` (mangled by Python), `__conn__`, explicit fixture
name, empty explicit name) x what shadows it (nothing, a plain class attribute of the subclass, a plain instance attribute,
a property), plus shapes with two markers (same fixture twice — both attributes are listed since fix D35 —, distinct fixtures, names sorted differently from their
declaration order).  Every shape is rendered to source with the renderer of props/_decl.py, exec-ed, instantiated; the row
is   (the attribute layers of the REAL instance: vars(obj), vars(C) for C in type(obj).__mro__   →   what the REAL
`Suite._load_injected_fixtures(obj)` returned).  `Generated/C03TablesCheck.lean` proves `SuiteObj.injectedOf` of every left side
equals the right side (`decide`).  The extraction also asserts that `_decl.layers_of` (the harness' own computation of the
layers from a description: name mangling + MRO) gives the same non-dunder layers as the real objects.
"""
import inspect
import itertools

import common as C

import lemoncheesecake.api as lcc
from lemoncheesecake.helpers.introspection import get_callable_args
from lemoncheesecake.suite.core import InjectedFixture, Suite

from props import _decl as D

WHERES = ("body", "base", "grandbase", "mixin", "init", "init-of-base")
NAMES = (("conn", None), ("_conn", None), ("__conn", None), ("__conn__", None), ("conn", "fx"), ("conn", ""), ("zz_conn", "fx"))
SHADOWS = ("none", "plain-in-subclass", "plain-in-instance", "inject-in-instance-over-plain-class")


def _shape(where, attr, fixture, shadow, extra=()):
    """description of one suite class `S(B, M)` with `B(A)`; -> (class description, bases)"""
    bases = [{"name": "A", "bases": [], "inject": [], "plain": [], "hooks": {}},
             {"name": "B", "bases": ["A"], "inject": [], "plain": [], "hooks": {}},
             {"name": "M", "bases": [], "inject": [], "plain": [], "hooks": {}}]
    cls = {"attr": "S", "name": None, "desc": None, "disabled": False, "tags": [], "props": [], "links": [], "hidden": False, "rank": None,
           "subs_first": False, "order": 1, "tests": [], "subs": [], "bases": ["B", "M"], "inject": [], "plain": [], "hooks": {}}
    holders = {"body": cls, "base": bases[1], "grandbase": bases[0], "mixin": bases[2], "init": cls, "init-of-base": bases[1]}

    def put(where, attr, fixture):
        holders[where]["inject"].append({"attr": attr, "fixture": fixture, "where": "init" if where.startswith("init") else "body"})
    put(where, attr, fixture)
    for w, a, f in extra:
        put(w, a, f)
    if shadow == "plain-in-subclass" and where != "body":
        cls["plain"].append({"attr": attr, "where": "body"})
    elif shadow == "plain-in-instance":
        cls["plain"].append({"attr": attr, "where": "init"})
    elif shadow == "inject-in-instance-over-plain-class":
        # the marker is assigned in __init__ over a plain class attribute of the same name
        holders[where]["inject"].pop(0)
        cls["plain"].append({"attr": attr, "where": "body"})
        cls["inject"].append({"attr": attr, "fixture": fixture, "where": "init"})
    return cls, bases


def shapes():
    out = []
    for where, (attr, fixture), shadow in itertools.product(WHERES, NAMES, SHADOWS):
        if shadow == "plain-in-subclass" and where in ("body", "init"):
            continue
        if shadow == "plain-in-instance" and where.startswith("init") and attr.startswith("__") and not attr.endswith("__"):
            continue        # mangled by two different classes: two different keys, not a shadow
        out.append(("%s/%s%s/%s" % (where, attr, "" if fixture is None else "=%r" % fixture, shadow), _shape(where, attr, fixture, shadow)))
    # two markers
    for w1, w2 in itertools.product(("body", "base", "mixin", "init"), repeat=2):
        out.append(("two:same-fixture/%s+%s" % (w1, w2), _shape(w1, "a_conn", "fx", "none", [(w2, "b_conn", "fx")])))
        out.append(("two:same-fixture-reversed/%s+%s" % (w1, w2), _shape(w1, "b_conn", "fx", "none", [(w2, "a_conn", "fx")])))
        out.append(("two:distinct/%s+%s" % (w1, w2), _shape(w1, "zeta", None, "none", [(w2, "alpha", None)])))
        out.append(("two:explicit-order/%s+%s" % (w1, w2), _shape(w1, "a1", "zfix", "none", [(w2, "b1", "afix")])))
        if w1 != w2:
            out.append(("two:same-attr/%s+%s" % (w1, w2), _shape(w1, "conn", "one", "none", [(w2, "conn", "two")])))
    return out


SPECIALS = [
    ("property-returning-a-marker", "class S:\n    @property\n    def conn(self):\n        return lcc.inject_fixture()\n    other = lcc.inject_fixture()\n"),
    ("property-in-base-marker-in-subclass", "class B:\n    @property\n    def conn(self):\n        return 1\nclass S(B):\n    conn = lcc.inject_fixture()\n"),
    ("marker-in-base-property-in-subclass", "class B:\n    conn = lcc.inject_fixture()\nclass S(B):\n    @property\n    def conn(self):\n        return 1\n"),
    ("no-marker-at-all", "class S:\n    x = 1\n    def f(self):\n        pass\n"),
    ("marker-under-a-method-name-in-base", "class B:\n    def conn(self):\n        pass\nclass S(B):\n    conn = lcc.inject_fixture('fx')\n"),
]


def _kind(v):
    if isinstance(v, InjectedFixture):
        return ("inject", v.fixture_name)
    if isinstance(v, property):
        return ("property",)
    if inspect.isfunction(v):
        return ("method", tuple(inspect.getfullargspec(v).args[1:]))
    return ("other",)


def real_layers(obj):
    out = [[(k, _kind(v)) for k, v in vars(obj).items()]]
    for k in type(obj).__mro__:
        if k is object:
            continue
        out.append([(a, _kind(v)) for a, v in vars(k).items()])
    return out


def lean_str(s):
    return '"%s"' % s.replace("\\", "\\\\").replace('"', '\\"')


def lean_kind(k):
    if k[0] == "inject":
        return "(.inject %s)" % ("none" if k[1] is None else "(some %s)" % lean_str(k[1]))
    if k[0] == "method":
        return "(.method [%s])" % ", ".join(lean_str(p) for p in k[1])
    return "." + k[0]


def lean_layer(layer):
    return "[%s]" % ", ".join("(%s, %s)" % (lean_str(a), lean_kind(k)) for a, k in layer)


def lean_obj(layers):
    return "({ inst := %s, mro := [%s] } : Obj)" % (lean_layer(layers[0]), ", ".join(lean_layer(l) for l in layers[1:]))


def _desc_layers(cls, bases):
    out = []
    for layer in D.layers_of(cls, {b["name"]: b for b in bases}):
        out.append(sorted((a, ("inject", k["name"]) if k["k"] == "inject" else (k["k"],)) for a, k in layer if not a.startswith("__")))
    return out


def build(cls, bases):
    src = D.render([cls], bases)
    ns = {"_body": lambda *a: None, "_hook": lambda *a: None}
    D.exec_source(src, ns)
    return ns[cls["attr"]](), src


def rows():
    inj, hooks = [], []
    for label, (cls, bases) in shapes():
        obj, src = build(cls, bases)
        layers = real_layers(obj)
        mine = _desc_layers(cls, bases)
        theirs = [sorted((a, k[:2] if k[0] == "inject" else (k[0],)) for a, k in layer if not a.startswith("__")) for layer in layers]
        if mine != theirs:
            raise C.InfraError("harness layers_of disagrees with the real class objects on shape %s:\n%r\n%r\n%s" % (label, mine, theirs, src))
        real = list(Suite._load_injected_fixtures(obj).items())
        inj.append((lean_obj(layers), "[%s]" % ", ".join("(%s, [%s])" % (lean_str(f), ", ".join(lean_str(a) for a in attrs)) for f, attrs in real), "%s -> %r" % (label, real)))
    # shapes the description language has no word for: properties (never looked into), a marker behind a property
    for label, src in SPECIALS:
        ns = {"lcc": lcc}
        D.exec_source(src, ns)
        obj = ns["S"]()
        real = list(Suite._load_injected_fixtures(obj).items())
        inj.append((lean_obj(real_layers(obj)), "[%s]" % ", ".join("(%s, [%s])" % (lean_str(f), ", ".join(lean_str(a) for a in attrs)) for f, attrs in real), "%s -> %r" % (label, real)))
    # hook discovery on the same kind of shapes: setup_suite in the class / a base / the mixin, with fixture parameters
    for where in ("body", "base", "grandbase", "mixin", "nowhere"):
        cls, bases = _shape("body", "conn", None, "none")
        holders = {"body": cls, "base": bases[1], "grandbase": bases[0], "mixin": bases[2]}
        if where != "nowhere":
            holders[where]["hooks"]["setup_suite"] = {"params": ["fx", "gx"]}
            holders[where]["hooks"]["teardown_test"] = {"params": ["test", "status"]}
        obj, src = build(cls, bases)
        layers = real_layers(obj)
        for h in D.HOOKS:
            real = list(get_callable_args(getattr(obj, h))) if hasattr(obj, h) else None
            hooks.append(("(%s, %s)" % (lean_obj(layers), lean_str(h)),
                          "none" if real is None else "(some [%s])" % ", ".join(lean_str(p) for p in real), "%s/%s -> %r" % (where, h, real)))
    return inj, hooks


def tables(ctx):
    inj, hooks = rows()
    return [C.Table("injectTable", "List (Obj × List (String × List String))", inj, imports=["LccModel.Model.SuiteObject"]),
            C.Table("hookTable", "List ((Obj × String) × Option (List String))", hooks, imports=["LccModel.Model.SuiteObject"])]

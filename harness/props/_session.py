"""
Stream `sess`: sequences of Session API calls, issued by several REAL threads in lock-step (pool-worker
like threads and `lcc.Thread`s), against the real `lemoncheesecake.session.Session` with a recording
event manager and a fake clock; the fired events (with times and thread ids), the failure set and the
first raised error are compared with the Lean model M3 (`drivers/Session.lean`).
Shared by C07 (stream shape), C02 (failure marking) and C06 (cursor locality).
"""
import errno
import os
import queue
import warnings
import shutil
import tempfile
import threading

import common as C
from gen import reports as R


def md_of(name, rank=0):
    return {"name": name, "desc": "d-" + name, "tags": [], "props": [], "links": [], "rank": rank}


class _Clock:
    def __init__(self):
        self.n = 0
        self.lock = threading.Lock()

    def time(self):
        with self.lock:
            self.n += 1
            return self.n / 1000.0


_END_OPS = ("endTest", "endSessionSetup", "endSessionTeardown", "endSuiteSetup", "endSuiteTeardown")
_START_OPS = ("startTest", "startSessionSetup", "startSessionTeardown", "startSuiteSetup", "startSuiteTeardown")


THREAD_ENDS = ("SystemExit", "GeneratorExit", "CustomBase", "exc")
TRACEBACK = "<traceback>"


class ProjectPanic(BaseException):
    """a project's own exception type that is not an `Exception`"""


_THREAD_END_CLASSES = {"SystemExit": SystemExit, "GeneratorExit": GeneratorExit, "CustomBase": ProjectPanic, "exc": RuntimeError}
def _loc_key(loc):
    return (loc["k"], tuple(loc.get("path") or ()))


def protocol_following(ops):
    """the op sequence is one a run of the real runner can issue: no out-of-protocol call, every lcc.Thread
    ends before the result it was created in ends, a thread's results do not nest, phase locations are unique"""
    open_result = {}        # tid -> its start op
    has_step = set()        # tids with a current step (the runner sets one before calling user code)
    kids = {}               # tid -> set of live child tids
    parent = {}
    seen_loc = set()
    att = {}                # tid -> number of `with prepare_attachment` blocks the thread is inside
    det = {}                # tid -> number of `with lcc.detached_step(..)` blocks the thread is inside
    for op in ops:
        tid, k = op["tid"], op["op"]
        if k == "endStep":
            return False
        if (att.get(tid) or det.get(tid)) and (k in _START_OPS or k in _END_OPS or k == "threadEnd"):
            return False    # a `with` block lies inside the user code of one result / one thread body
        if k in _START_OPS:
            if tid in open_result:
                return False
            lk = (k, tuple(op.get("path") or ()))
            if lk in seen_loc:
                return False
            seen_loc.add(lk)
            open_result[tid] = k
            has_step.discard(tid)
        elif k in _END_OPS:
            if open_result.get(tid) != "start" + k[3:] or kids.get(tid):
                return False
            del open_result[tid]
            has_step.discard(tid)
        elif k in ("setStep", "detachedEnter"):
            # entering `with lcc.detached_step(d):` IS set_step(d) ...
            if tid not in open_result and tid not in parent:
                return False
            has_step.add(tid)
            if k == "detachedEnter":
                det[tid] = det.get(tid, 0) + 1
        elif k == "detachedExit":
            # ... and leaving it does nothing: the step stays current, the thread may go on logging
            if not det.get(tid):
                return False
            det[tid] -= 1
        elif k == "threadRun":
            has_step.add(tid)
        elif k == "threadCreate":
            if tid not in has_step:
                return False
            kids.setdefault(tid, set()).add(op["new"])
            parent[op["new"]] = tid
        elif k == "threadEnd":
            if kids.get(tid):
                return False
            kids.get(parent.get(tid), set()).discard(tid)
        elif k in ("log", "check", "url", "attach"):
            if tid not in has_step:
                return False
        elif k == "attachBegin":
            att[tid] = att.get(tid, 0) + 1
        elif k == "attachEnd":
            # leaving fires the attachment event: needs a current step and a matching open block of the same thread
            if tid not in has_step or not att.get(tid):
                return False
            att[tid] -= 1
        elif k == "attachAbort":
            # an exception leaves the innermost block of this thread (and is handled by the user code around it):
            # fires nothing, needs no step; the block must be open
            if not att.get(tid):
                return False
            att[tid] -= 1
    return not open_result and not any(kids.values()) and not any(att.values()) and not any(det.values())


def grammar_failures(prop, ops, fired):
    """Statement-level facts of C07 on the fired stream of a protocol-following call sequence: steps are
    opened and closed per emitting thread, every log lies inside the step open for its thread, every step
    event lies between the start and the end event of the result (test / setup / teardown phase) it is
    located at, and nothing that was started is left without its end."""
    out = []

    def bad(sig, i, e, why):
        out.append(C.Failure(prop + "/" + sig, "fired[%d] = %s: %s" % (i, {k: v for k, v in e.items() if k != "md"}, why)))
    opened = {}     # loc key -> "open" | "closed"
    step = {}       # tid -> (loc key, desc)
    starts = {"testStart": "test", "suiteSetupStart": "setup", "suiteTeardownStart": "teardown",
              "sessionSetupStart": "ssetup", "sessionTeardownStart": "steardown"}
    ends = {"testEnd": "test", "suiteSetupEnd": "setup", "suiteTeardownEnd": "teardown",
            "sessionSetupEnd": "ssetup", "sessionTeardownEnd": "steardown"}
    for i, e in enumerate(fired):
        k = e["e"]
        if k in starts:
            lk = (starts[k], tuple(e.get("path") or ()))
            if lk in opened:
                bad("result-started-twice", i, e, "second start event for the same location")
            opened[lk] = "open"
        elif k in ends:
            lk = (ends[k], tuple(e.get("path") or ()))
            if opened.get(lk) != "open":
                bad("end-without-start", i, e, "end event for a result that is not open")
            opened[lk] = "closed"
            for tid, (slk, d) in sorted(step.items()):
                if slk == lk:
                    bad("step-left-open-at-result-end", i, e, "step %r of thread %s is still open" % (d, tid))
        elif k in ("stepStart", "stepEnd", "log", "check", "url", "att"):
            lk = _loc_key(e["loc"])
            if opened.get(lk) != "open":
                bad("step-event-outside-its-result", i, e,
                    "the start event of %s has %s" % (lk, "not been delivered" if lk not in opened else "already been ended"))
            tid = e["tid"]
            if k == "stepStart":
                if tid in step:
                    bad("step-started-inside-open-step", i, e, "thread %s still has step %r open" % (tid, step[tid][1]))
                step[tid] = (lk, e["desc"])
            elif k == "stepEnd":
                if step.get(tid) != (lk, e["desc"]):
                    bad("step-end-without-start", i, e, "open step of thread %s is %r" % (tid, step.get(tid)))
                step.pop(tid, None)
            else:
                if step.get(tid) != (lk, e["step"]):
                    bad("log-outside-open-step", i, e, "open step of thread %s is %r" % (tid, step.get(tid)))
    for lk, st in sorted(opened.items()):
        if st == "open":
            out.append(C.Failure(prop + "/start-without-end", "result %s was started and never ended" % (lk,)))
    for tid, (lk, d) in sorted(step.items()):
        out.append(C.Failure(prop + "/start-without-end", "step %r of thread %s at %s never ended" % (d, tid, lk)))
    if fired and (fired[0]["e"] != "sessionStart" or fired[-1]["e"] != "sessionEnd"):
        out.append(C.Failure(prop + "/session-start-first-end-last", "first %s last %s" % (fired[0]["e"], fired[-1]["e"])))
    return out


_RECORD_OPS = ("log", "check", "url", "attach", "attachEnd")

# ---- the names tests give their attachments --------------------------------------------------------------------
# `filename` of prepare_attachment / save_attachment_* is any string the test likes: the stored name is
# "%04d_<filename>" (Model/AttachName.lean `stored`), created under <report dir>/attachments/ and referenced under that very
# name.  ODD: legitimate file names every file system takes (characters with a meaning in URLs, shells, format strings, other
# scripts, names that look like a stored name, the longest names that still fit: NAME_MAX counts BYTES).  REFUSED: names the
# file system does not take — longer than NAME_MAX with the counter prefix (ENAMETOOLONG), or not a single path component
# (ENOENT): the write inside the block raises OSError, the block is left by the exception, nothing is referenced.
ATT_NAMES_ODD = [
    "core #1.txt", "100%.txt", "a%20b.txt", "what?.log", "%s %d %(x)s.txt", "a&b=c+d.txt", "two words.txt", " lead.txt", "trail ",
    "it's \"q\".txt", "\u00fcn\u00ef-\u00e7\u00f8d\u00e9-\u65e5\u672c.txt", "\U0001f600.png", ".hidden", "..", "...", "", "_", "__init__.py",
    "0002_f.txt", "9999_", "a_b_0001_c.txt", "tab\there.txt", "new\nline.txt", "back\\slash.txt", "semi;colon:.txt", "-rf", "~",
    "*.txt", "<a href>.html", "{x}[y](z).txt", "$HOME`id`", "x" * 200 + ".txt", "v" * 250, "\u00e9" * 120 + ".txt", "\u00e9" * 125,
]
ATT_NAMES_REFUSED = ["w" * 300 + ".txt", "v" * 251, "\u00e9" * 126, "u" * 1000, "sub/dir.txt", "/abs.txt", "a/../b.txt", "x/"]
NAME_MAX = 255


def stored_name_fits(n, filename):
    """what Model/AttachName.lean `storable` says (used for FEATURES only, never by an oracle)"""
    return "/" not in filename and len(("%04d_%s" % (n, filename)).encode("utf-8", "surrogatepass")) <= NAME_MAX


def gen_att_name(rng, tame, refused_ok=False, memo=None):
    """an attachment file name: the tame one (half of the time), an odd one, or (atomic forms only) one the file system refuses —
    drawn from a short list so that the SAME long name is used by several blocks, threads and tests of a case"""
    r = rng.random()
    if r < 0.5:
        return tame
    if refused_ok and r < (0.78 if memo else 0.64):
        if memo and rng.random() < 0.7:
            return rng.choice(memo)            # the same refused name again (by whichever thread comes next)
        nm = rng.choice(ATT_NAMES_REFUSED[:3] if rng.random() < 0.6 else ATT_NAMES_REFUSED)
        if memo is not None:
            memo.append(nm)
        return nm
    return rng.choice(ATT_NAMES_ODD)


_NAME_MAX_PROBE = []


def fs_name_max_is_255(where):
    """the file system holding the scratch report directories takes a 255-byte component and refuses a 256-byte one"""
    if not _NAME_MAX_PROBE:
        ok = False
        try:
            with open(os.path.join(where, "p" * 255), "w"):
                pass
            try:
                with open(os.path.join(where, "p" * 256), "w"):
                    pass
            except OSError as e:
                ok = e.errno == errno.ENAMETOOLONG
        except OSError:
            ok = False
        _NAME_MAX_PROBE.append(ok)
    return _NAME_MAX_PROBE[0]


def step_change_failures(prop, ops, fired, refused=()):
    """C06, "inside the step that was current in the emitting thread … all step changes", on the fired stream of a
    protocol-following call sequence: EVERY set_step call opens a new step.  The k-th record call of a thread (log,
    check, url, attachment) is the k-th record event of that thread; when the thread called set_step(d) since its
    previous record, the stream holds — between that previous record event of the thread (or the beginning) and this
    one — a StepStart of the thread with description d, and the record names step d.  A step change to a step with
    the same description as the current one is a step change like any other.  `refused`: indexes of the attachment calls
    whose write was observed to be refused by the file system (OSError in the block): those record nothing."""
    out = []
    refused = set(refused)
    rec_events = {}          # tid -> indices of its record events in `fired`
    for i, e in enumerate(fired):
        if e["e"] in ("log", "check", "url", "att"):
            rec_events.setdefault(e["tid"], []).append(i)
    seen = {}                # tid -> number of record calls so far
    pending = {}             # tid -> description of the latest set_step since the thread's previous record
    for op_i, op in enumerate(ops):
        tid, k = op["tid"], op["op"]
        if op_i in refused:
            continue
        if k in ("setStep", "detachedEnter"):
            pending[tid] = op["desc"]
        elif k in _START_OPS or k in _END_OPS or k in ("threadRun", "threadEnd"):
            pending.pop(tid, None)          # the runner / Thread.run set their own steps around these
        elif k in _RECORD_OPS:
            n = seen.get(tid, 0)
            seen[tid] = n + 1
            idxs = rec_events.get(tid, [])
            if n >= len(idxs):
                break                       # the stream is shorter than the calls: judged by the comparison with the model
            d = pending.pop(tid, None)
            if d is None:
                continue
            lo = idxs[n - 1] + 1 if n else 0
            window = fired[lo:idxs[n]]
            e = fired[idxs[n]]
            if not any(x["e"] == "stepStart" and x["tid"] == tid and x["desc"] == d for x in window):
                out.append(C.Failure(prop + "/step-change-lost",
                                     "thread %s called set_step(%r) and then recorded fired[%d] = %s, but no StepStart(%r) of that "
                                     "thread was fired since its previous record: the record is filed under an older step"
                                     % (tid, d, idxs[n], {k2: v for k2, v in e.items() if k2 != "md"}, d)))
                break
            if e.get("step") != d:
                out.append(C.Failure(prop + "/record-names-foreign-step",
                                     "thread %s called set_step(%r), its next record fired[%d] names step %r" % (tid, d, idxs[n], e.get("step"))))
                break
    return out


def ownership_failures(prop, ops, fired):
    """C06, "never in the result of another test running at the same time", on the fired stream of ANY call sequence:
    an event that names a thread and a location (step start / end, log, check, url, attachment) is fired by a thread that
    was given a cursor on that location — the thread that ran the matching start_* call, or an lcc.Thread created
    (transitively) by such a thread.  A thread that never got a cursor (a plain threading.Thread, a pool worker of a
    library) has no location: whatever it emits must not land in the result some OTHER thread is working on.
    Deliberately generous (locations are collected over the whole sequence, a created thread inherits every location
    its creator ever had): what it flags is certainly foreign."""
    kinds = {"startTest": "test", "startSuiteSetup": "setup", "startSuiteTeardown": "teardown",
             "startSessionSetup": "ssetup", "startSessionTeardown": "steardown"}
    key = lambda k, path: (k, tuple(path) if path is not None and k not in ("ssetup", "steardown") else None)
    owned = {}
    for op in ops:
        if op["op"] in kinds:
            owned.setdefault(op["tid"], set()).add(key(kinds[op["op"]], op.get("path")))
    for _ in range(2 + sum(1 for op in ops if op["op"] == "threadCreate")):
        changed = False
        for op in ops:
            if op["op"] == "threadCreate":
                have = owned.setdefault(op["new"], set())
                more = owned.get(op["tid"], set()) - have
                if more:
                    have |= more
                    changed = True
        if not changed:
            break
    out = []
    for i, e in enumerate(fired):
        if "tid" not in e or not isinstance(e.get("loc"), dict) or e["tid"] is None:
            continue
        k = key(e["loc"]["k"], e["loc"].get("path"))
        if k not in owned.get(e["tid"], set()):
            out.append(C.Failure(prop + "/payload-in-foreign-result",
                                 "fired[%d] = %s comes from thread %s, which was never given a cursor on that location (its locations: %s): "
                                 "what that thread emits is recorded in the result of a test it does not belong to"
                                 % (i, {k2: v for k2, v in e.items() if k2 != "md"}, e["tid"], sorted(map(str, owned.get(e["tid"], set()))))))
            break
    return out


def _att_content(path):
    """what the harness writes into the attachment file it is handed: determined by the (unique) file name"""
    return "content of " + os.path.basename(path)


def attachment_failures(prop, obs):
    """Statement-level facts of C06's last sentence on one observation: every attachment the fired stream
    references exists on disk, with the content written for it, at the moment the event is fired (the writer
    puts it into the report then); the referenced names are pairwise distinct."""
    out = []
    seen = set()
    for a in obs.get("att_files", []):
        if a["content"] is None:
            out.append(C.Failure(prop + "/attachment-file-missing",
                                 "LogAttachmentEvent fired for %s but no such file has been written" % a["path"]))
        elif a["content"] != a["expected"]:
            out.append(C.Failure(prop + "/attachment-content",
                                 "%s holds %r, written was %r" % (a["path"], a["content"][:60], a["expected"])))
        if a["path"] in seen:
            out.append(C.Failure(prop + "/attachment-name-duplicate", "%s referenced by two attachment events" % a["path"]))
        seen.add(a["path"])
    sigs, uniq = set(), []
    for f in out:
        if f.signature not in sigs:
            sigs.add(f.signature)
            uniq.append(f)
    return uniq


def gen_ops(rng, chaos=0.05):
    """protocol-shaped op sequences of 1..3 worker threads (tids 1..3), each working through results, with
    lcc.Threads (tids 10+) spawned inside; `chaos` = probability of an out-of-protocol call."""
    ops = []
    nworkers = rng.choice([1, 1, 2, 3])
    nxt_thread = [10]
    suites = [["s%d" % i] for i in range(rng.randint(1, 3))]
    test_no = [0]
    ops.append({"tid": 1, "op": "startTestSession"})

    last_desc = {}      # tid -> the description of the latest set_step of that thread
    refused_used = []   # the names the file system refuses that the case has used so far

    def set_step(tid, desc):
        """a set_step op; about a third of them set the description the thread set last AGAIN (polling loops)"""
        if tid in last_desc and rng.random() < 0.35:
            desc = last_desc[tid]
        elif rng.random() < 0.08:
            desc = rng.choice(["", "", " ", "two\nlines", "\n", "\t"])
        last_desc[tid] = desc
        return {"tid": tid, "op": "setStep", "desc": desc}

    def spawn(tid, depth):
        new = nxt_thread[0]
        nxt_thread[0] += 1
        end = {"tid": new, "op": "threadEnd"}
        if rng.random() < 0.3:
            # the thread's target does not return: it raises — sys.exit() (nothing is logged), GeneratorExit, a project's
            # BaseException, an Exception (`Thread.run` logs an error) — and `Thread.run`'s `finally` ends the step
            end["how"] = rng.choice(THREAD_ENDS)
        inner = [{"tid": new, "op": "threadRun"}] + body_ops(new, depth + 1) + [end]
        return [{"tid": tid, "op": "threadCreate", "new": new}, ("spawned", inner)]

    def simple_op(tid, r):
        """log / check / url / atomic attach, chosen by r in [0, 1)"""
        if r < 0.45:
            return {"tid": tid, "op": "log", "level": rng.choice(["debug", "info", "warn", "error", "info"]),
                    "msg": "m%d" % rng.randint(0, 99)}
        if r < 0.72:
            return {"tid": tid, "op": "check", "desc": "c%d" % rng.randint(0, 9), "ok": rng.random() < 0.7,
                    "details": rng.choice([None, "det", ""])}
        if r < 0.84:
            return {"tid": tid, "op": "url", "url": "http://u/%d" % rng.randint(0, 9), "desc": "u"}
        return {"tid": tid, "op": "attach", "file": gen_att_name(rng, "f%d.txt" % rng.randint(0, 3), refused_ok=True, memo=refused_used),
                "desc": "a", "img": rng.random() < 0.3}

    def detached_ops(tid, depth):
        """`with lcc.detached_step(d):` (deprecated, public) around a few calls; mostly the thread goes on logging AFTER the
        block without another set_step: the record belongs to the step the block set"""
        d = "det%d" % rng.randint(0, 3) if rng.random() < 0.8 else rng.choice(["", " ", "two\nlines"])
        last_desc[tid] = d
        out = [{"tid": tid, "op": "detachedEnter", "desc": d}]
        for _ in range(rng.randint(0, 3)):
            r = rng.random()
            if r < 0.7:
                out.append(simple_op(tid, rng.random()))
            elif r < 0.8:
                out.append(set_step(tid, "in-det%d" % rng.randint(0, 2)))
            elif r < 0.9:
                out += window_ops(tid, depth, 1)
            elif depth < 1:
                out += spawn(tid, depth)
        if rng.random() < 0.15:
            out.append({"tid": tid, "op": "endStepDeprecated"})     # `lcc.end_step(d)` as old code wrote it: does nothing
        out.append({"tid": tid, "op": "detachedExit"})
        if rng.random() < 0.75:
            out.append(simple_op(tid, rng.random()))
        return out

    def window_ops(tid, depth, wdepth=0):
        """`with prepare_attachment(..) as path:` around a body that calls the session api: attachBegin, the body's
        calls (same thread; possibly a spawned lcc.Thread, possibly a nested block), attachEnd.  About half of the
        windows contain a set_step: the attachment must then be reported under the NEW step."""
        body = []
        for _ in range(rng.randint(0, 4)):
            r = rng.random()
            if r < 0.3:
                body.append(set_step(tid, "in%d" % rng.randint(0, 3)))
            elif r < 0.78:
                body.append(simple_op(tid, rng.random()))
            elif r < 0.9 and wdepth < 2:
                body += window_ops(tid, depth, wdepth + 1)
            elif depth < 1:
                body += spawn(tid, depth)
        if rng.random() < 0.35 and not any(isinstance(o, dict) and o["op"] == "setStep" for o in body):
            body.insert(rng.randint(0, len(body)), set_step(tid, "in%d" % rng.randint(0, 3)))
        # about a quarter of the blocks are left by an exception (`attachAbort`): the body — or `shutil.copy` of
        # `save_attachment_file` on a missing source — raised, mostly BEFORE the file was written (`write: False`)
        abort = rng.random() < 0.25
        out = [{"tid": tid, "op": "attachBegin", "file": gen_att_name(rng, "w%d.bin" % rng.randint(0, 3)), "desc": "w%d" % rng.randint(0, 9),
                "img": rng.random() < 0.3, "write": (rng.random() < 0.3) if abort else True}]
        out += body
        if not rng.random() < chaos:            # chaos: the block is never left
            out.append({"tid": tid, "op": "attachAbort" if abort else "attachEnd"})
        return out

    def body_ops(tid, depth=0):
        out = []
        for _ in range(rng.randint(0, 6)):
            r = rng.random()
            if r < 0.2:
                out.append(set_step(tid, "step%d" % rng.randint(0, 3)))
            elif r < 0.72:
                out.append(simple_op(tid, rng.random()))
                if out[-1]["op"] == "attach" and out[-1]["file"] in refused_used and rng.random() < 0.5:
                    # a retry under the very same name (what a test does when saving failed), or the next item of a loop
                    out.append(dict(out[-1]))
            elif r < 0.82:
                out += window_ops(tid, depth)
            elif r < 0.88:
                out += detached_ops(tid, depth)
            elif r < 0.95 and depth < 1:
                out += spawn(tid, depth)
            elif rng.random() < chaos:
                out.append({"tid": tid, "op": rng.choice(["endStep", "endStep", "attachEnd", "attachAbort"])})
        return out

    used_phases = set()

    def result_ops(tid):
        kind = rng.choice(["test", "test", "test", "skip", "disable", "ssetup", "steardown", "setup", "teardown", "suite"])
        sp = rng.choice(suites)
        if kind in ("ssetup", "steardown", "setup", "teardown"):
            # a phase location is worked on once per run (as in a real run)
            key = (kind, tuple(sp) if kind in ("setup", "teardown") else ())
            if key in used_phases:
                kind = "test"
            else:
                used_phases.add(key)
        out = []
        if kind == "test":
            test_no[0] += 1
            p = sp + ["t%d" % test_no[0]]
            out.append({"tid": tid, "op": "startTest", "path": p, "md": md_of(p[-1], test_no[0])})
            if rng.random() < 0.85:
                out.append(set_step(tid, "Setup test" if rng.random() < 0.4 else "body"))
            out += body_ops(tid)
            out.append({"tid": tid, "op": "endTest", "path": p})
        elif kind in ("skip", "disable"):
            test_no[0] += 1
            p = sp + ["t%d" % test_no[0]]
            out.append({"tid": tid, "op": kind + "Test", "path": p, "md": md_of(p[-1], test_no[0]),
                        "reason": rng.choice([None, "because"])})
        elif kind == "suite":
            out.append({"tid": tid, "op": "startSuite", "path": sp, "md": md_of(sp[-1])})
            out.append({"tid": tid, "op": "endSuite", "path": sp})
        else:
            nm = {"ssetup": "SessionSetup", "steardown": "SessionTeardown", "setup": "SuiteSetup", "teardown": "SuiteTeardown"}[kind]
            a = {"tid": tid, "op": "start" + nm}
            b = {"tid": tid, "op": "end" + nm}
            if kind in ("setup", "teardown"):
                a["path"] = sp
                b["path"] = sp
            out.append(a)
            if rng.random() < 0.8:
                out.append({"tid": tid, "op": "setStep", "desc": "Setup"})
                if rng.random() < 0.25:
                    # a lcc.Thread that is the first to log in the phase (the phase start event is still held)
                    new = nxt_thread[0]
                    nxt_thread[0] += 1
                    out.append({"tid": tid, "op": "threadCreate", "new": new})
                    out.append(("spawned", [{"tid": new, "op": "threadRun"},
                                            {"tid": new, "op": "log", "level": "info", "msg": "first"},
                                            {"tid": new, "op": "threadEnd"}]))
            out += body_ops(tid)
            out.append(b)
        return out

    # per-worker programs, then interleave them (each program's order preserved; spawned thread bodies are
    # interleaved after their creation point)
    progs = []
    for w in range(1, nworkers + 1):
        prog = []
        if rng.random() < chaos:
            prog.append({"tid": w, "op": "log", "level": "info", "msg": "no cursor yet"})
        for _ in range(rng.randint(1, 4)):
            prog += result_ops(w)
        progs.append(prog)
    # flatten with interleaving.  `joined` (most cases): a parent does not end its result while a lcc.Thread it
    # spawned is still running (what a user who joins the threads gets); otherwise the join is implicit at the end.
    joined = rng.random() < 0.85
    streams = [list(p) for p in progs]
    children = {}       # id(parent stream) -> child streams
    while any(streams):
        live = [s for s in streams if s]
        if joined:
            ok = [s for s in live if not (isinstance(s[0], dict) and s[0]["op"] in _END_OPS
                                          and any(children.get(id(s), [])))]
            live = ok or live
        s = rng.choice(live)
        item = s.pop(0)
        if isinstance(item, tuple):
            # the spawned thread becomes a new stream
            flat = list(item[1])
            streams.append(flat)
            children.setdefault(id(s), []).append(flat)
        else:
            ops.append(item)
    ops.append({"tid": 1, "op": "endTestSession"})
    return ops


def _window_corpus():
    """hand-written cases around `with prepare_attachment(..)` blocks whose body calls the session api"""
    def test(tid, name, rank, body):
        p = ["s", name]
        return [{"tid": tid, "op": "startTest", "path": p, "md": md_of(name, rank)}] + body + [{"tid": tid, "op": "endTest", "path": p}]

    def begin(tid, f, d, img=False):
        return {"tid": tid, "op": "attachBegin", "file": f, "desc": d, "img": img}

    def wrap(ops):
        return {"ops": [{"tid": 1, "op": "startTestSession"}] + ops + [{"tid": 1, "op": "endTestSession"}]}
    step = lambda tid, d: {"tid": tid, "op": "setStep", "desc": d}
    log = lambda tid, m: {"tid": tid, "op": "log", "level": "info", "msg": m}
    end = lambda tid: {"tid": tid, "op": "attachEnd"}
    abort = lambda tid: {"tid": tid, "op": "attachAbort"}

    def begin_nowrite(tid, f, d, img=False):
        return dict(begin(tid, f, d, img), write=False)
    att = lambda tid, f, d="a": {"tid": tid, "op": "attach", "file": f, "desc": d, "img": False}
    enter = lambda tid, d: {"tid": tid, "op": "detachedEnter", "desc": d}
    leave = lambda tid: {"tid": tid, "op": "detachedExit"}
    long_name = "w" * 300 + ".txt"
    return [
        # names with characters that mean something in a URL (minimised failing input of the seeded change C06-11: the event
        # referenced a percent-escaped name, the file kept the raw one)
        wrap(test(1, "t1", 1, [step(1, "a"), att(1, "core #1.txt")])),
        wrap(test(1, "t1", 1, [step(1, "a"), att(1, "100%.txt"), att(1, "a%20b.txt"), att(1, "what?.log"), begin(1, "x#y?z%.bin", "w"),
                               end(1), att(1, "\u00e9" * 125), att(1, "v" * 250), att(1, ""), att(1, "0002_f.txt"), att(1, "f.txt")])),
        # the same too-long name twice (minimised failing input of the seeded change C06-12: names cut to their last 255
        # characters lose the counter): refused by the file system both times — nothing referenced, the counter goes on
        wrap(test(1, "t1", 1, [step(1, "a"), att(1, long_name), att(1, long_name)])),
        # ... from two tests running at the same time, an lcc.Thread, ordinary names in between; 256 bytes in 131 characters;
        # a name that is a path
        wrap(test(1, "t1", 1, [step(1, "a")])[:-1] + test(2, "t2", 2, [step(2, "b")])[:-1] +
             [att(1, long_name), att(2, long_name), att(1, "f.txt"), {"tid": 1, "op": "threadCreate", "new": 10},
              {"tid": 10, "op": "threadRun"}, att(10, long_name), att(10, "\u00e9" * 126), att(2, "sub/dir.txt"), att(2, "f.txt"),
              {"tid": 10, "op": "threadEnd"},
              {"tid": 1, "op": "endTest", "path": ["s", "t1"]}, {"tid": 2, "op": "endTest", "path": ["s", "t2"]}]),
        # `with lcc.detached_step(d):` then a log without another set_step (minimised failing input of the seeded change
        # C07-11: the block "closed" its step, the log was fired outside any step)
        wrap(test(1, "t1", 1, [enter(1, "d"), leave(1), log(1, "after")])),
        wrap(test(1, "t1", 1, [step(1, "a"), log(1, "x"), enter(1, "d"), log(1, "inside"), leave(1), log(1, "after"),
                               enter(1, "e"), {"tid": 1, "op": "endStepDeprecated"}, log(1, "still in e"), leave(1), enter(1, "e2"), step(1, "inner"), leave(1), att(1, "f.txt"),
                               {"tid": 1, "op": "threadCreate", "new": 10}, {"tid": 10, "op": "threadRun"},
                               enter(10, "in thread"), leave(10), log(10, "after in thread"), {"tid": 10, "op": "threadEnd"}])),
        # the step changes inside the block, after a log: a's end, b's start (flushed at exit), attachment under b
        wrap(test(1, "t1", 1, [step(1, "a"), log(1, "x"), begin(1, "f", "d"), step(1, "b"), end(1)])),
        # ... and without the log: the empty step a is elided
        wrap(test(1, "t1", 1, [step(1, "a"), begin(1, "f", "d"), step(1, "b"), end(1)])),
        # nested blocks, a step change in the inner one
        wrap(test(1, "t1", 1, [step(1, "a"), begin(1, "f", "outer"), begin(1, "g", "inner", True), step(1, "b"), end(1),
                               log(1, "y"), end(1)])),
        # two workers, blocks overlapping in time
        wrap(test(1, "t1", 1, [step(1, "a")])[:-1] + test(2, "t2", 2, [step(2, "b")])[:-1] +
             [begin(1, "f", "one"), begin(2, "g", "two"), step(2, "b2"), end(1), end(2),
              {"tid": 1, "op": "endTest", "path": ["s", "t1"]}, {"tid": 2, "op": "endTest", "path": ["s", "t2"]}]),
        # a lcc.Thread started and finished inside the block; the parent's held step start is not flushed on entry
        wrap(test(1, "t1", 1, [step(1, "a"), begin(1, "f", "d"), {"tid": 1, "op": "threadCreate", "new": 10},
                               {"tid": 10, "op": "threadRun"}, log(10, "in thread"), {"tid": 10, "op": "threadEnd"},
                               end(1)])),
        # the body raises before the file is written (caught by the test): no event, the counter has advanced
        wrap(test(1, "t1", 1, [step(1, "a"), begin(1, "f", "first"), end(1), begin_nowrite(1, "g", "aborted"), abort(1),
                               log(1, "handled"), begin(1, "h", "last"), end(1)])),
        # an inner block aborted inside an outer one that completes, a step change in between; a second worker's
        # block is aborted at the same time; an aborted block as the only thing a step contains
        wrap(test(1, "t1", 1, [step(1, "a")])[:-1] + test(2, "t2", 2, [step(2, "b")])[:-1] +
             [begin(1, "f", "outer"), begin_nowrite(2, "g", "two", True), begin_nowrite(1, "h", "inner"), step(1, "a2"),
              abort(2), abort(1), end(1), step(2, "b2"), begin_nowrite(2, "k", "only"), abort(2),
              {"tid": 1, "op": "endTest", "path": ["s", "t1"]}, {"tid": 2, "op": "endTest", "path": ["s", "t2"]}]),
        # minimised failing input of the seeded change C06-2 (event fired in a `finally:`): nothing but an aborted block
        {"ops": test(1, "t1", 1, [begin_nowrite(1, "g", "aborted"), abort(1)])[:-1]},
        # leaving a block by an exception that was never entered
        wrap(test(1, "t1", 1, [step(1, "a"), abort(1)])),
        # a polling loop: set_step with the SAME description again and again, a record after each call — in the test's
        # thread, in an lcc.Thread (whose default step carries that description too), and with the first of the
        # repeated steps left empty; then the same around the exit of an attachment block
        wrap(test(1, "t1", 1, [step(1, "poll"), log(1, "r1"), step(1, "poll"), log(1, "r2"),
                               {"tid": 1, "op": "threadCreate", "new": 10}, {"tid": 10, "op": "threadRun"}, log(10, "t1"),
                               step(10, "poll"), log(10, "t2"), {"tid": 10, "op": "threadEnd"},
                               step(1, "poll"), step(1, "poll"), log(1, "r3"),
                               begin(1, "f", "d"), step(1, "poll"), end(1)])),
        # an lcc.Thread whose target has logged and then does not return: sys.exit() / a project's BaseException (nothing
        # is logged, `Thread.run`'s `finally` ends the thread's step), an Exception (error log, then the same epilogue);
        # the test goes on and ends
        wrap(test(1, "t1", 1, [step(1, "a"), {"tid": 1, "op": "threadCreate", "new": 10}, {"tid": 10, "op": "threadRun"},
                               log(10, "in thread"), {"tid": 10, "op": "threadEnd", "how": "SystemExit"}, log(1, "after")])),
        wrap(test(1, "t1", 1, [step(1, "a"), {"tid": 1, "op": "threadCreate", "new": 10}, {"tid": 10, "op": "threadRun"},
                               log(10, "in thread"), step(10, "b"), log(10, "more"), {"tid": 10, "op": "threadEnd", "how": "CustomBase"},
                               {"tid": 1, "op": "threadCreate", "new": 11}, {"tid": 11, "op": "threadRun"},
                               log(11, "second"), {"tid": 11, "op": "threadEnd", "how": "exc"}, log(1, "after")])),
    ]


class SessionStream(C.Stream):
    name = "sess"
    quick_cases = 250
    thorough_cases = 4000
    quick_seconds = 35
    thorough_seconds = 400
    chunk = 50
    corpus = _window_corpus()

    def gen(self, rng, i):
        return {"ops": gen_ops(rng, chaos=0.15 if i % 5 == 0 else 0.0)}

    # ---- real code -----------------------------------------------------------------------------
    def impl(self, case):
        import lemoncheesecake.events as E
        import lemoncheesecake.session as S
        from lemoncheesecake.reporting import Report
        from lemoncheesecake.testtree import BaseSuite, BaseTest

        fired = []
        flock = threading.Lock()

        class RecEM(E.EventManager):
            def fire(self, event):
                with flock:
                    e = R.canon_event(event)
                    if "tid" in e:      # map now: OS thread idents are reused after a thread ends
                        e["tid"] = ident2tid.get(e["tid"], -1)
                    if e["e"] == "log" and str(e.get("msg", "")).startswith("Caught unexpected exception while running test"):
                        e["msg"] = TRACEBACK
                    fired.append(e)
                    if e["e"] == "att":
                        # what is on disk at the moment the report is told about the attachment
                        path = os.path.join(tmp, event.attachment_path)
                        content = None
                        if os.path.isfile(path):
                            with open(path) as fh:
                                content = fh.read()
                        att_files.append({"path": event.attachment_path, "content": content,
                                          "expected": _att_content(event.attachment_path)})

        att_files = []
        tmp = tempfile.mkdtemp(prefix="lccverif-sess-")
        clock = _Clock()
        old_time = E.time
        E.time = clock
        old_inst = S.Session._instance
        session = S.Session(RecEM.load(), tmp, Report())
        S.Session._instance = session
        ident2tid = {}
        died = {}           # thread object -> exception class name (raised outside the op loop, e.g. Thread.run epilogue)
        old_hook = threading.excepthook

        def hook(args):
            died[args.thread] = args.exc_type.__name__
        threading.excepthook = hook
        workers = {}
        lccthreads = {}
        open_cms = {}       # tid -> stack of entered `prepare_attachment` context managers
        open_det = {}       # tid -> stack of entered `detached_step` context managers
        refused = []        # atomic attachment calls whose write the file system refused (OSError inside the block)
        if not fs_name_max_is_255(tmp):
            shutil.rmtree(tmp, ignore_errors=True)
            raise C.InfraError("sess: the scratch file system does not have NAME_MAX = 255 (Model/AttachName.lean nameMax)")

        class NoOpenAttachment(Exception):
            pass

        class AbortSwallowed(Exception):
            pass

        class BodyError(Exception):
            pass
        error = None
        accepted = 0

        def do(op):
            k = op["op"]
            if k in ("startTestSession", "endTestSession", "startSessionSetup", "endSessionSetup",
                     "startSessionTeardown", "endSessionTeardown"):
                name = {"startTestSession": "start_test_session", "endTestSession": "end_test_session",
                        "startSessionSetup": "start_test_session_setup", "endSessionSetup": "end_test_session_setup",
                        "startSessionTeardown": "start_test_session_teardown",
                        "endSessionTeardown": "end_test_session_teardown"}[k]
                getattr(session, name)()
            elif k in ("startSuite", "endSuite", "startSuiteSetup", "endSuiteSetup", "startSuiteTeardown", "endSuiteTeardown"):
                node = R._node_chain(op["path"], op.get("md"), BaseSuite)
                name = {"startSuite": "start_suite", "endSuite": "end_suite", "startSuiteSetup": "start_suite_setup",
                        "endSuiteSetup": "end_suite_setup", "startSuiteTeardown": "start_suite_teardown",
                        "endSuiteTeardown": "end_suite_teardown"}[k]
                getattr(session, name)(node)
            elif k in ("startTest", "endTest"):
                node = R._node_chain(op["path"], op.get("md"), BaseTest)
                (session.start_test if k == "startTest" else session.end_test)(node)
            elif k == "skipTest":
                session.skip_test(R._node_chain(op["path"], op["md"], BaseTest), op["reason"])
            elif k == "disableTest":
                session.disable_test(R._node_chain(op["path"], op["md"], BaseTest), op["reason"])
            elif k == "setStep":
                session.set_step(op["desc"])
            elif k == "endStep":
                session.end_step()
            elif k == "log":
                session._log(op["level"], op["msg"])
            elif k == "check":
                session.log_check(op["desc"], op["ok"], op["details"])
            elif k == "url":
                session.log_url(op["url"], op["desc"])
            elif k == "attach":
                # `with session.prepare_attachment(..) as path:` around a body that only writes the file (what
                # save_attachment_content / save_attachment_file are).  When the file system refuses the name the write raises
                # OSError inside the block: the exception is thrown into the context manager, which must let it through, and is
                # handled by the test code around the block (classified: part of the observation)
                cm = session.prepare_attachment(op["file"], op["desc"], as_image=op["img"])
                path = cm.__enter__()
                try:
                    with open(path, "w") as fh:
                        fh.write(_att_content(path))
                except OSError as e:
                    if cm.__exit__(OSError, e, e.__traceback__):
                        raise AbortSwallowed()
                    refused.append({"i": next(i for i, o in enumerate(case["ops"]) if o is op), "file": op["file"],
                                    "errno": errno.errorcode.get(e.errno, str(e.errno))})
                else:
                    cm.__exit__(None, None, None)
            elif k == "detachedEnter":
                # entering `with lcc.detached_step(d):` — the public (deprecated) context manager of lemoncheesecake.api
                with warnings.catch_warnings():
                    warnings.simplefilter("ignore")
                    cm = S.detached_step(op["desc"])
                    cm.__enter__()
                open_det.setdefault(op["tid"], []).append(cm)
            elif k == "endStepDeprecated":
                # `lcc.end_step(step)`: "deprecated since version 1.4.5, it actually does nothing"
                with warnings.catch_warnings():
                    warnings.simplefilter("ignore")
                    S.end_step(op.get("desc", "whatever"))
            elif k == "detachedExit":
                stack = open_det.get(op["tid"])
                if stack:                       # (leaving a block that was never entered is not expressible: nothing happens)
                    with warnings.catch_warnings():
                        warnings.simplefilter("ignore")
                        stack.pop().__exit__(None, None, None)
            elif k == "attachBegin":
                # entering `with session.prepare_attachment(..) as path:` — the body (the following ops of this
                # thread up to the matching attachEnd) runs with the context manager suspended at its `yield`
                cm = session.prepare_attachment(op["file"], op["desc"], as_image=op["img"])
                path = cm.__enter__()
                # `write`: the body writes the file first thing (default) or as its last statement — i.e. just
                # before leaving the block normally, and not at all when the body raises before that (attachAbort)
                if op.get("write", True):
                    with open(path, "w") as fh:
                        fh.write(_att_content(path))
                open_cms.setdefault(op["tid"], []).append((cm, path))
            elif k == "attachEnd":
                stack = open_cms.get(op["tid"])
                if not stack:
                    raise NoOpenAttachment()
                # leaving the block normally; entered and left by the same real thread
                cm, path = stack.pop()
                if not os.path.exists(path):
                    with open(path, "w") as fh:
                        fh.write(_att_content(path))
                cm.__exit__(None, None, None)
            elif k == "attachAbort":
                stack = open_cms.get(op["tid"])
                if not stack:
                    raise NoOpenAttachment()
                # the body raised: the exception is thrown into the context manager, which must let it through
                exc = BodyError("body of the with block raised")
                if stack.pop()[0].__exit__(BodyError, exc, None):
                    raise AbortSwallowed()
            elif k == "threadCreate":
                new = op["new"]
                # precondition of lcc.Thread (always true when the runner calls user code): a step is current;
                # otherwise Thread.run's epilogue asserts.  Classified as noStep at creation, like the model.
                assert session.cursor.step is not None, "lcc.Thread created outside any step"
                q = queue.Queue()
                ack = queue.Queue()

                def body(new=new, q=q, ack=ack):
                    ident2tid[threading.current_thread().ident] = new
                    ack.put(("ok", None))
                    serve(q, ack)
                th = S.Thread(target=body)
                lccthreads[new] = (th, q, ack)
            else:
                raise ValueError(k)

        def serve(q, ack):
            while True:
                op = q.get()
                if op is None:
                    return
                if isinstance(op, tuple) and op[0] == "raise":
                    # the target of the lcc.Thread ends by raising (outside the op loop's classification)
                    raise _THREAD_END_CLASSES[op[1]]("thread target ended by " + op[1])
                try:
                    do(op)
                    ack.put(("ok", None))
                except BaseException as e:  # classified and compared with the model's error
                    ack.put(("err", type(e).__name__))

        def worker(tid):
            q, ack = queue.Queue(), queue.Queue()

            def run():
                ident2tid[threading.current_thread().ident] = tid
                serve(q, ack)
            th = threading.Thread(target=run, daemon=True)
            th.start()
            workers[tid] = (th, q, ack)

        try:
            for op in case["ops"]:
                tid = op["tid"]
                k = op["op"]
                if k == "threadRun":
                    if tid not in lccthreads:
                        error = "noSavedThread"
                        break
                    th, q, ack = lccthreads[tid]
                    th.start()
                    st = ack.get(timeout=20)
                elif k == "threadEnd":
                    th, q, ack = lccthreads[tid]
                    how = op.get("how")
                    q.put(("raise", how) if how else None)
                    th.join(20)
                    st = ("err", died[th]) if th in died else ("ok", None)
                    if how and how != "exc" and died.get(th) == _THREAD_END_CLASSES[how].__name__:
                        st = ("ok", None)       # the thread died of what its target raised, AFTER Thread.run's epilogue
                    if how and how != "SystemExit":
                        # the model sees two calls: the error log of `except Exception` / `except BaseException` (which the real
                        # thread has issued in any case: everything but SystemExit is logged, fix D40), then the epilogue — which may be the call that fails (AssertionError: no started step)
                        accepted += 1
                else:
                    if tid in lccthreads and lccthreads[tid][0].is_alive():
                        _, q, ack = lccthreads[tid]
                    else:
                        if tid not in workers:
                            worker(tid)
                        _, q, ack = workers[tid]
                    q.put(op)
                    st = ack.get(timeout=20)
                if st[0] == "err":
                    error = {"AttributeError": "noCursor", "AssertionError": "noStep", "NoOpenAttachment": "noAttach", "AbortSwallowed": "abortSwallowed"}.get(st[1], st[1])
                    break
                accepted += 1
            with flock:
                fired_snapshot = list(fired)          # snapshot: the clean-up below lets live lcc.Threads run their epilogue
            failures_now = list(session._failures)
        finally:
            for th, q, ack in list(workers.values()) + list(lccthreads.values()):
                q.put(None)
            for th, q, ack in list(lccthreads.values()):
                if th.ident is not None:
                    th.join(5)
            threading.excepthook = old_hook
            E.time = old_time
            S.Session._instance = old_inst
            shutil.rmtree(tmp, ignore_errors=True)
        failures = sorted((R.canon_location(l) for l in failures_now), key=lambda x: C.case_hash(x))
        return {"fired": fired_snapshot, "failures": failures, "error": error, "accepted": accepted,
                "att_files": att_files[:sum(1 for e in fired_snapshot if e["e"] == "att")], "refused": refused}

    # ---- oracle (statement-level facts on the real stream only) -------------------------------------
    def oracle(self, case, obs):
        return []

    def request(self, case, obs):
        def w(op):
            o = dict(op)
            for k in ("desc", "msg", "details", "url", "file", "reason"):
                if k in o and o[k] is not None:
                    o[k] = R.wire_str(o[k])
            if "path" in o:
                o["path"] = [R.wire_str(x) for x in o["path"]]
            if "md" in o and o["md"] is not None:
                o["md"] = R.wire(o["md"])
            return o
        ops = []
        for op in case["ops"]:
            if op["op"] == "threadEnd" and op.get("how") not in (None, "SystemExit"):
                # `Thread.run`: `except Exception` / `except BaseException` (not SystemExit): `self._session.log_error(<traceback>)`,
                # then `finally: end_step()`
                ops.append({"tid": op["tid"], "op": "log", "level": "error", "msg": TRACEBACK})
            ops.append(op)
        return {"ops": [w(op) for op in ops]}

    def compare(self, case, obs, ans):
        if "error" in ans and ans.get("fired") is None:
            return "model error: " + str(ans["error"])
        m_fired = R.unwire(ans["fired"])
        if ans["error"] != obs["error"] or ans["accepted"] != obs["accepted"]:
            return f"error/accepted differ: model {ans['error']}@{ans['accepted']} impl {obs['error']}@{obs['accepted']}"
        if m_fired != obs["fired"]:
            for i, (a, b) in enumerate(zip(m_fired, obs["fired"])):
                if a != b:
                    return f"fired[{i}] differs: model {a} impl {b}"
            return f"fired length differs: model {len(m_fired)} impl {len(obs['fired'])}"
        mf = sorted(R.unwire(ans["failures"]), key=lambda x: C.case_hash(x))
        if mf != obs["failures"]:
            return f"failure sets differ: model {mf} impl {obs['failures']}"
        return None

    def nontrivial(self, case, obs):
        tids = {op["tid"] for op in case["ops"]}
        return len(obs["fired"]) >= 6 and (len(tids) >= 2 or any(op["op"] == "setStep" for op in case["ops"]))

    def features(self, case, obs):
        f = ["threads=%d" % len({op["tid"] for op in case["ops"]})]
        if any(op["op"] == "threadCreate" for op in case["ops"]):
            f.append("lcc.Thread")
        for op in case["ops"]:
            if op["op"] == "threadEnd" and op.get("how"):
                f.append("lcc.Thread-target-raises:" + op["how"])
            if op["op"] == "setStep" and (not op["desc"].strip() or "\n" in op["desc"]):
                f.append("setStep-desc:" + ("empty" if op["desc"] == "" else "blank" if not op["desc"].strip() else "multi-line"))
        f = sorted(set(f))
        if obs["error"]:
            f.append("error=" + str(obs["error"]))
        # `with prepare_attachment` windows: how many, and what happens inside them
        depth, n_win, inside = {}, 0, set()
        for op in case["ops"]:
            t, k = op["tid"], op["op"]
            if k == "attachBegin":
                n_win += 1
                if depth.get(t):
                    inside.add("nested")
                depth[t] = depth.get(t, 0) + 1
            elif k in ("attachEnd", "attachAbort"):
                if depth.get(t):
                    depth[t] -= 1
                    if k == "attachAbort":
                        inside.add("abort")
            elif depth.get(t):
                inside.add(k)
        if n_win:
            f.append("attach-window")
            f += sorted("attach-window+" + k for k in inside if k in ("setStep", "nested", "threadCreate", "log", "check", "abort"))
        last = {}
        for op in case["ops"]:
            if op["op"] == "setStep":
                if last.get(op["tid"]) == op["desc"]:
                    f.append("setStep-same-description-again")
                    break
                last[op["tid"]] = op["desc"]
            elif op["op"] in _START_OPS or op["op"] in _END_OPS:
                last.pop(op["tid"], None)
        # attachment names: the classes of ATT_NAMES_ODD / ATT_NAMES_REFUSED that were used, pairs of equal long names
        names = [op["file"] for op in case["ops"] if op["op"] in ("attach", "attachBegin")]
        for nm in set(names):
            if nm in ATT_NAMES_ODD or nm in ATT_NAMES_REFUSED:
                f.append("att-name:odd")
            if any(ch in nm for ch in "%#?"):
                f.append("att-name:url-special(%#?)")
            if any(ord(ch) > 127 for ch in nm):
                f.append("att-name:non-ascii")
            if len(nm) >= 200:
                f.append("att-name:long>=200")
            if "/" in nm:
                f.append("att-name:path-separator")
            if nm.startswith("."):
                f.append("att-name:leading-dot")
            if len(nm) > 250 and names.count(nm) >= 2:
                f.append("att-name:same-too-long-name-twice")
                if len({op["tid"] for op in case["ops"] if op.get("file") == nm}) >= 2:
                    f.append("att-name:same-too-long-name-from-two-threads")
        for r in obs.get("refused", []):
            f.append("att-refused:" + r["errno"])
        # `with lcc.detached_step(..)` blocks, and what the thread does right after leaving one
        ops = case["ops"]
        for i, op in enumerate(ops):
            if op["op"] == "endStepDeprecated":
                f.append("deprecated-end_step")
            if op["op"] == "detachedExit":
                f.append("detached_step")
                nxt = next((o for o in ops[i + 1:] if o["tid"] == op["tid"]), None)
                if nxt is not None and nxt["op"] in _RECORD_OPS:
                    f.append("detached_step+record-right-after" + ("(oracle-checked)" if obs["error"] is None and protocol_following(ops) else ""))
        f = sorted(set(f))
        kinds = {e["e"] for e in obs["fired"]}
        f += sorted("ev=" + k for k in kinds if k in ("stepStart", "sessionSetupStart", "suiteSetupStart", "att", "testSkipped"))
        return f

    def shrink(self, case):
        ops = case["ops"]
        for i in range(len(ops)):
            yield {"ops": ops[:i] + ops[i + 1:]}

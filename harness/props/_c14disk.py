"""
C14.disk — projects ON DISK, prepared SEVERAL TIMES in one process, DESIGNATED by -p / $LCC_PROJECT / $LCC_PROJECT_FILE / cwd.

Property C14: "Preparing a project (lcc check, lcc run) rejects, before anything executes, exactly the structurally invalid
projects … Any project it accepts …".  "The project" is the one the user DESIGNATES (`-p X` on the command line; without it
`$LCC_PROJECT`, then `$LCC_PROJECT_FILE`, then the working directory's hierarchy), and it is judged by what its files hold WHEN it
is prepared — every time: a watch mode, an IDE plug-in, a wrapper script calling `lemoncheesecake.cli.main` repeatedly.

A case is a sequence of steps in ONE process over two project directories `A`, `B` (+ `W`, a directory that is no project)
living at fixed paths.  A step rewrites the directories (`project.py` with the metadata policy — or no `project.py`, `fixtures/fx.py`,
`suites/<name>.py`: the generated projects of C14.validate rendered to files), then prepares a project
    via      create : PreparedProject.create(load_project(arg))      check : cli.main(["check", "-p", arg])
             run    : cli.main(["run", "-p", arg, "--report-dir", …])           (arg omitted / empty: no designation by argument)
    under    $LCC_PROJECT / $LCC_PROJECT_FILE set / unset / empty, the working directory in A, B, A/suites, W or above.
The file states of one directory follow each other by EDITS that introduce or repair one defect (unknown fixture in a test,
unknown dependency, forbidden property value, scope inversion between fixtures, a policy change in project.py alone) or are independent.

Oracle (real code + property text only; the reference validator of C14.validate judges the file state):
  * the verdict of step k is the reference verdict of the designated project's files as they are at step k
        C14/stale-verdict/…                 the observed verdict is explained by an EARLIER state of the same directory
        C14/verdict-of-another-project/…    … by the current state of another directory named in the environment / cwd
        C14/disk/…                          anything else
  * nothing of the user code runs when the project is rejected; an accepted project run through `lcc run` succeeds.
Model: `Model/ProjectFiles.lean` (`runChecks`), driver `drivers/C14.lean` (`handleDisk`); theorems `Props/C14Disk.lean`.
"""
import contextlib
import copy
import io
import os
import shutil
import sys
import tempfile

import common as C
from props import c14 as K

ROOTS = ("A", "B")
PRELUDE = ("import functools\nfrom unittest import mock\nimport lemoncheesecake.api as lcc\n"
           "from props.c14 import hit, rec, chk_inj\n")


# --------------------------------------------------------------------------------------------
# rendering a C14 case to files
# --------------------------------------------------------------------------------------------

def policy_empty(pol):
    return not (pol["props"] or pol["tags"] or pol["no_unknown_props"] or pol["no_unknown_tags"])


def project_py(pol):
    out = ["from lemoncheesecake.project import Project", "project = Project()", "mp = project.metadata_policy"]
    for r in pol["props"]:
        out.append("mp.add_property_rule(%r, accepted_values=%r, on_test=%r, on_suite=%r, required=%r)" % (
            r["name"], tuple(r["values"]) if r["values"] else None, r["on_test"], r["on_suite"], r["required"]))
    for r in pol["tags"]:
        out.append("mp.add_tag_rule(%r, on_test=%r, on_suite=%r)" % (r["name"], r["on_test"], r["on_suite"]))
    if pol["no_unknown_props"]:
        out.append("mp.disallow_unknown_properties()")
    if pol["no_unknown_tags"]:
        out.append("mp.disallow_unknown_tags()")
    return "\n".join(out) + "\n"


def write_project(root, st):
    """(re)write the directory `root` so that it holds the project state `st` = {"case", "py"}"""
    for sub in ("suites", "fixtures", "__pycache__"):
        shutil.rmtree(os.path.join(root, sub), ignore_errors=True)
    os.makedirs(os.path.join(root, "suites"), exist_ok=True)
    os.makedirs(os.path.join(root, "fixtures"), exist_ok=True)
    case = st["case"]
    pp = os.path.join(root, "project.py")
    if st["py"]:
        with open(pp, "w") as f:
            f.write(project_py(case["policy"]))
    elif os.path.exists(pp):
        os.unlink(pp)
    with open(os.path.join(root, "fixtures", "fx.py"), "w") as f:
        f.write(PRELUDE + K.fixtures_source(case))
    ssrcs, preds = K.suites_source(case)
    for s, src in ssrcs:
        with open(os.path.join(root, "suites", s["name"] + ".py"), "w") as f:
            f.write(PRELUDE + "PREDS = %r\n" % ([sorted(p) for p in preds],) + src + "\n")


# --------------------------------------------------------------------------------------------
# the designation, as the documentation states it (reference for the oracle)
# --------------------------------------------------------------------------------------------

def entries(step):
    """logical path -> ("dir", has project.py, has suites) | ("file", root)"""
    fs = {"W": ("dir", False, False), "TOP": ("dir", False, False)}
    for r in ROOTS:
        st = step["projects"].get(r)
        if st is None:
            continue
        fs[r] = ("dir", bool(st["py"]), True)
        fs[r + "/suites"] = ("dir", False, False)
        if st["py"]:
            fs[r + "/project.py"] = ("file", r)
    return fs


def hierarchy(cwd):
    out = [cwd]
    while "/" in out[-1]:
        out.append(out[-1].rsplit("/", 1)[0])
    if out[-1] != "TOP":
        out.append("TOP")
    return out


def designated(step):
    """-> ("ok", root) | ("notSuitable", path) | ("notFound", None): argument, else $LCC_PROJECT, else $LCC_PROJECT_FILE (when
    $LCC_PROJECT is unset), else the nearest project.py, else the nearest suites directory above the working directory"""
    d = step["desig"]
    fs = entries(step)
    path = d["arg"] or None
    if path is None:
        path = d["env"] if d["env"] is not None else d["envf"]
        path = path or None
    if path is not None:
        e = fs.get(path)
        if e is None:
            return "notSuitable", path
        if e[0] == "file":
            return "ok", e[1]
        return ("ok", path) if (e[1] or e[2]) else ("notSuitable", path)
    hier = hierarchy(d["cwd"])
    for p in hier:
        if fs.get(p, ("dir", False, False))[0] == "dir" and fs.get(p, ("dir", False, False))[1]:
            return "ok", p
    for p in hier:
        if fs.get(p, ("dir", False, False))[0] == "dir" and fs.get(p, ("dir", False, False))[2]:
            return "ok", p
    return "notFound", None


def eff_case(st):
    """the project the files declare: without project.py the default (empty) policy applies"""
    return st["case"]


# --------------------------------------------------------------------------------------------
# observation
# --------------------------------------------------------------------------------------------

def _real(top, logical):
    if logical is None or logical == "":
        return logical
    return top if logical == "TOP" else os.path.join(top, logical)


@contextlib.contextmanager
def _context(top, d):
    saved = {k: os.environ.get(k) for k in ("LCC_PROJECT", "LCC_PROJECT_FILE")}
    cwd = os.getcwd()
    out, err = io.StringIO(), io.StringIO()
    try:
        for k, v in (("LCC_PROJECT", d["env"]), ("LCC_PROJECT_FILE", d["envf"])):
            if v is None:
                os.environ.pop(k, None)
            else:
                os.environ[k] = _real(top, v)
        os.chdir(_real(top, d["cwd"]))
        with contextlib.redirect_stdout(out), contextlib.redirect_stderr(err):
            yield out
    finally:
        os.chdir(cwd)
        for k, v in saved.items():
            if v is None:
                os.environ.pop(k, None)
            else:
                os.environ[k] = v


def _rejection(msg, exc):
    if "is not a suitable project path" in msg:
        return {"load": "notSuitable", "msg": msg[:200]}
    if "Cannot neither find a 'suites' directory nor a 'project.py' file" in msg:
        return {"load": "notFound", "msg": msg[:200]}
    if "No test is defined in your lemoncheesecake project" in msg:
        return {"load": "ok", "accepted": None, "notests": True, "msg": msg[:200]}
    if "AssertionError: The fixture can only be per_thread=True if scope is 'session' or 'suite'" in msg:
        return {"load": "ok", "accepted": False, "exc": "FixtureLoadingError", "stage": "decl", "kind": "per-thread-scope", "args": [],
                "msg": msg.strip().splitlines()[-2][:300]}
    stage, kind, args = K.classify(msg)
    if stage == "?":
        return {"load": "ok", "accepted": False, "exc": exc, "stage": "?", "kind": "CRASH", "args": [], "msg": msg[-300:]}
    return {"load": "ok", "accepted": False, "exc": "ValidationError", "stage": stage, "kind": kind, "args": args, "msg": msg[:300]}


def observe_step(top, step, k):
    from lemoncheesecake.cli import main
    from lemoncheesecake.project import load_project, PreparedProject
    from lemoncheesecake.exceptions import LemoncheesecakeException, ValidationError
    from lemoncheesecake.testtree import flatten_tests

    for r in ROOTS:
        st = step["projects"].get(r)
        if st is not None:
            write_project(os.path.join(top, r), st)
    try:
        import lemoncheesecake.suite.builder as _b
        del _b._objects_with_metadata[:]
    except Exception:
        pass
    d = step["desig"]
    arg = _real(top, d["arg"])
    del K._HITS[:]
    obs = None
    with _context(top, d) as out:
        try:
            if step["via"] == "create":
                prepared = PreparedProject.create(load_project(arg))
                obs = {"load": "ok", "accepted": True, "registry": list(prepared.fixture_registry._fixtures.keys()),
                       "resolved": [[t.path, [x.path for x in t.resolved_dependencies]] for t in flatten_tests(prepared.suites)],
                       "dir": os.path.relpath(prepared.project.dir, top)}
            else:
                argv = [step["via"]] + ([] if arg is None else ["-p", arg])
                if step["via"] == "run":
                    rd = os.path.join(top, "report-%d" % k)
                    shutil.rmtree(rd, ignore_errors=True)
                    argv += ["--report-dir", rd, "--threads", "1"]
                ret = main(argv)
                if isinstance(ret, str):
                    obs = _rejection(ret, "LemoncheesecakeException")
                elif step["via"] == "check":
                    obs = {"load": "ok", "accepted": True, "said_ok": "Everything is ok" in out.getvalue()}
                else:
                    obs = {"load": "ok", "accepted": True, "ret": ret}
        except LemoncheesecakeException as e:
            obs = _rejection(str(e), type(e).__name__)
            if isinstance(e, ValidationError) and obs.get("stage") == "?":
                obs["exc"] = "ValidationError"
        except SystemExit as e:
            obs = {"load": "ok", "accepted": False, "exc": "SystemExit", "stage": "?", "kind": "CRASH", "args": [], "msg": str(e)[:100]}
        except Exception as e:
            obs = {"load": "ok", "accepted": False, "exc": type(e).__name__, "stage": "?", "kind": "CRASH", "args": [], "msg": str(e)[:300]}
    hits = list(K._HITS)
    obs["ran"] = len(hits)
    obs["hits"] = [] if (obs.get("accepted") and step["via"] == "run") else hits[:5]
    return obs


def observe(case, base):
    """every case lives under its own fresh directory (its path strings were never seen by this process); within the case the
    paths stay the same from step to step"""
    top = os.path.join(tempfile.mkdtemp(prefix="c-", dir=base), "ws")
    for sub in ("W", "A", "B"):
        os.makedirs(os.path.join(top, sub))
    old = sys.dont_write_bytecode
    sys.dont_write_bytecode = True
    try:
        return {"steps": [observe_step(top, step, k) for k, step in enumerate(case["steps"])]}
    finally:
        sys.dont_write_bytecode = old
        shutil.rmtree(os.path.dirname(top), ignore_errors=True)
        for name in [n for n in sys.modules if n.startswith(top)]:      # modules of files that no longer exist
            del sys.modules[name]


# --------------------------------------------------------------------------------------------
# oracle
# --------------------------------------------------------------------------------------------

def _tail(sig):
    return sig.split("/", 2)[2] if sig.count("/") >= 2 else sig


def _judge(st, o):
    if o.get("notests"):
        return [] if not any(True for _ in _tests(st["case"])) else [C.Failure("C14/validate/tests-not-found", o["msg"])]
    return K.validation_failures(eff_case(st), o)


def _tests(case):
    def walk(ss):
        for s in ss:
            for t in s["tests"]:
                yield t
            yield from walk(s["subs"])
    return walk(case["suites"])


def failures(case, obs):
    fails = []
    for k, (step, o) in enumerate(zip(case["steps"], obs["steps"])):
        want, root = designated(step)
        where = "step %d (%s, desig %s)" % (k, step["via"], step["desig"])
        if want != "ok":
            if o.get("load") != want:
                fails.append(C.Failure("C14/disk/designation/%s-expected" % want,
                                       "%s: nothing suitable is designated (%s) but the preparation answered %s" % (where, root, o)))
            continue
        if o.get("load") != "ok":
            other = _others(step, root)
            sig = "C14/verdict-of-another-project/project-not-loaded" if other else "C14/disk/designated-project-not-loaded"
            fails.append(C.Failure(sig, "%s: project %s is designated but the preparation answered %s" % (where, root, o.get("msg"))))
            continue
        st = step["projects"][root]
        fs = _judge(st, o)
        if o.get("accepted") and "dir" in o and o["dir"] != root:
            fs.append(C.Failure("C14/validate/wrong-project-dir", "prepared project.dir = %s, designated %s" % (o["dir"], root)))
        if o.get("accepted") and step["via"] == "check" and not o.get("said_ok"):
            fs.append(C.Failure("C14/validate/check-silent", "lcc check returned without 'Everything is ok'"))
        if o.get("accepted") and step["via"] == "run" and o.get("ret") != 0:
            fs.append(C.Failure("C14/validate/accepted-project-run-not-successful", "lcc run returned %r" % (o.get("ret"),)))
        # what the loader makes of an injected attribute is C14.validate's subject (open finding D21): reported under its own signature
        fails.extend(f for f in fs if "injected-attribute" in f.signature)
        fs = [f for f in fs if "injected-attribute" not in f.signature]
        if not fs:
            continue
        V = K.reference_violations(eff_case(st))
        suffix = ("invalid-project-accepted" if o.get("accepted") else
                  "valid-project-rejected" if not V else "rejected-for-a-defect-that-is-not-there")
        earlier = [j for j in range(k) if case["steps"][j]["projects"].get(root) not in (None, st)
                   and not _judge(case["steps"][j]["projects"][root], o)]
        others = [r for r in _others(step, root) if not _judge(step["projects"][r], o)]
        if others:
            fails.append(C.Failure("C14/verdict-of-another-project/" + suffix,
                                   "%s: project %s is designated (reference: %s) but the answer %s is the verdict of project %s, named by "
                                   "the environment / working directory; %s" % (where, root, sorted(V) or "valid", _brief(o), others[0], fs[0].message)))
        elif earlier:
            fails.append(C.Failure("C14/stale-verdict/" + suffix,
                                   "%s: the files of %s NOW are %s, but the answer %s is the verdict of the files as they were at step %d; %s" % (
                                       where, root, sorted(V) or "valid", _brief(o), earlier[-1], fs[0].message)))
        else:
            for f in fs:
                fails.append(C.Failure("C14/disk/" + _tail(f.signature), "%s: %s" % (where, f.message)))
    return fails


def _others(step, root):
    d = step["desig"]
    named = set()
    for v in (d["arg"], d["env"], d["envf"], d["cwd"]):
        if v:
            named.add(v.split("/")[0])
    return sorted(r for r in named if r in step["projects"] and r != root)


def _brief(o):
    if o.get("accepted"):
        return "'accepted'"
    return "'%s'" % (o.get("msg") or "")[:120]


# --------------------------------------------------------------------------------------------
# model side
# --------------------------------------------------------------------------------------------

_EMPTY = {"policy": {"props": [], "tags": [], "no_unknown_props": False, "no_unknown_tags": False}, "decls": [], "all": []}


def request(case):
    steps = []
    for step in case["steps"]:
        fs = []
        for path, e in sorted(entries(step).items()):
            if e[0] == "file":
                st = step["projects"][e[1]]
                fs.append({"path": path, "fileOf": e[1], "projectPy": True, "suitesDir": True, "project": K.model_request(st["case"])})
            elif path in step["projects"]:
                st = step["projects"][path]
                fs.append({"path": path, "projectPy": bool(st["py"]), "suitesDir": True, "project": K.model_request(st["case"])})
            else:
                fs.append({"path": path, "projectPy": False, "suitesDir": False, "project": _EMPTY})
        d = step["desig"]
        steps.append({"fs": fs, "hier": hierarchy(d["cwd"]), "desig": {"arg": d["arg"], "env": d["env"], "envf": d["envf"]}})
    return {"disk": steps}


def compare(case, obs, ans):
    if "steps" not in ans:
        return "model error: %s" % (ans,)
    for k, (o, a) in enumerate(zip(obs["steps"], ans["steps"])):
        if o.get("load") != a["load"]:
            return "step %d: code load=%s (%s) vs model load=%s" % (k, o.get("load"), o.get("msg"), a["load"])
        if a["load"] != "ok" or o.get("notests"):
            continue
        v = a["verdict"]
        if "dir" in o and o["dir"] != a["root"]:
            return "step %d: code prepared the project in %s, model %s" % (k, o["dir"], a["root"])
        if v["result"] == "ok":
            if not o["accepted"]:
                return "step %d: model accepts, code rejects: %s" % (k, o.get("msg"))
            for key in ("registry", "resolved"):
                if key in o and o[key] != v[key]:
                    return "step %d: %s: code %s vs model %s" % (k, key, o[key], v[key])
            continue
        if o["accepted"]:
            return "step %d: code accepts, model rejects with %s.%s %s" % (k, v["stage"], v["kind"], v["args"])
        if (o["stage"], o["kind"]) != (v["stage"], v["kind"]):
            return "step %d: different check fired: code %s.%s (%s) vs model %s.%s %s" % (
                k, o["stage"], o["kind"], o.get("msg"), v["stage"], v["kind"], v["args"])
        if (o["kind"] != "circular" or o["stage"] != "fixture") and o["stage"] != "decl" and o["args"] != v["args"]:
            return "step %d: same check, different culprit: code %s vs model %s" % (k, o["args"], v["args"])
    return None


# --------------------------------------------------------------------------------------------
# generator
# --------------------------------------------------------------------------------------------

EDITS = ("unknown-fixture", "unknown-dep", "bad-prop-value", "scope-inversion", "policy-only", "per-thread-setup")


def _all_tests(case):
    return list(_tests(case))


def edit(case, kind):
    """one defect introduced into a copy of `case` (files touched: a suite module / fx.py / project.py)"""
    c = copy.deepcopy(case)
    tests = _all_tests(c)
    if kind == "unknown-fixture" and tests:
        tests[0]["args"] = list(tests[0]["args"]) + ["ghost"]
    elif kind == "unknown-dep" and tests:
        tests[-1]["deps"] = list(tests[-1]["deps"]) + [{"path": "nosuch.t0"}]
    elif kind == "bad-prop-value" and tests:
        c["policy"]["props"] = [r for r in c["policy"]["props"] if r["name"] != "prio"] + [
            {"name": "prio", "values": ["low", "high"], "on_test": True, "on_suite": False, "required": False}]
        tests[0]["props"] = [p for p in tests[0]["props"] if p[0] != "prio"] + [["prio", "zzz"]]
    elif kind == "scope-inversion":
        c["decls"] = list(c["decls"]) + [{"names": ["narrow0"], "scope": "test", "per_thread": False, "params": [], "gen": False},
                                         {"names": ["wide0"], "scope": "session", "per_thread": False, "params": ["narrow0"], "gen": False}]
    elif kind == "policy-only" and tests:
        c["policy"]["props"] = list(c["policy"]["props"]) + [
            {"name": "ticket", "values": [], "on_test": True, "on_suite": False, "required": True}]
    elif kind == "per-thread-setup" and c["suites"]:
        c["decls"] = list(c["decls"]) + [{"names": ["ptw0"], "scope": "suite", "per_thread": True, "params": [], "gen": False}]
        s = c["suites"][0]
        s["setup_args"] = list(s["setup_args"] or []) + ["ptw0"]
    return c


def _state(case, py):
    # `load_suites_from_directory` takes the suite modules in the order of their sorted file names
    case = dict(case, keep=None, fd=False, suites=sorted(case["suites"], key=lambda s: s["name"] + ".py"))
    return {"case": case, "py": bool(py or not policy_empty(case["policy"]))}


def gen_states(rng, n):
    """n successive file states of one directory"""
    base = K.gen_case(rng, 0.0)
    py = rng.random() < 0.6
    mode = rng.choice(["introduce", "introduce", "repair", "repair", "independent", "same"])
    kinds = [rng.choice(EDITS) for _ in range(n)]
    out = []
    for i in range(n):
        if mode == "introduce":
            c = base if i % 2 == 0 else edit(base, kinds[i])
        elif mode == "repair":
            c = edit(base, kinds[i]) if i % 2 == 0 else base
        elif mode == "independent":
            c = K.gen_case(rng, 0.4) if i else base
        else:
            c = base
        out.append(_state(c, py))
    return out


def gen_desig(rng, step, plain):
    if plain:
        return {"arg": "A", "env": None, "envf": None, "cwd": "TOP"}
    paths = []
    for r in ROOTS:
        if r in step["projects"]:
            paths.append(r)
            if step["projects"][r]["py"]:
                paths.append(r + "/project.py")
    envs = [None, None, ""] + paths            # the environment designates a project or nothing (see ASSUMPTIONS)
    d = {"arg": rng.choice([None, None, "", "A", "A", "A", "B"] + paths),
         "env": rng.choice(envs), "envf": rng.choice(envs),
         "cwd": rng.choice(["TOP", "W", "A", "B", "A/suites", "B/suites"])}
    if d["cwd"].split("/")[0] not in step["projects"] and d["cwd"] not in ("TOP", "W"):
        d["cwd"] = "TOP"
    return d


def gen_case(rng, i=0):
    n = rng.choice([2, 3, 3, 4])
    a = gen_states(rng, n)
    b = gen_states(rng, n) if rng.random() < 0.8 else None
    plain = rng.random() < 0.4
    steps = []
    for k in range(n):
        projects = {"A": a[k]}
        if b is not None:
            projects["B"] = b[k] if rng.random() < 0.3 else b[0]
        step = {"projects": projects, "via": rng.choice(["create", "check", "check", "run"])}
        step["desig"] = gen_desig(rng, step, plain)
        steps.append(step)
    return {"steps": steps}


def features(case, obs):
    out = ["steps=%d" % len(case["steps"])]
    prev = {}
    for step, o in zip(case["steps"], obs["steps"]):
        want, root = designated(step)
        d = step["desig"]
        out.append("via=" + step["via"])
        src = ("arg" if d["arg"] else "env" if d["env"] else "envf" if (d["env"] is None and d["envf"]) else "cwd")
        out.append("designated-by=" + src)
        if d["arg"] and (d["env"] or d["envf"]):
            e = (d["env"] or d["envf"]).split("/")[0]
            out.append("arg+env:" + ("same-project" if e == d["arg"].split("/")[0] else "different-project"))
        if d["env"] == "" and d["envf"]:
            out.append("empty-LCC_PROJECT-hides-LCC_PROJECT_FILE")
        out.append("load=" + str(o.get("load")))
        if want != "ok":
            continue
        st = step["projects"][root]
        valid = not K.reference_violations(eff_case(st))
        out.append("project.py=" + ("yes" if st["py"] else "no"))
        out.append("verdict=" + ("valid" if valid else "invalid"))
        if root in prev and prev[root][0] != st:
            out.append("re-prepared-after-edit:%s->%s" % ("valid" if prev[root][1] else "invalid", "valid" if valid else "invalid"))
        elif root in prev:
            out.append("re-prepared-unchanged")
        if d["arg"] and (d["env"] or d["envf"]):
            e = (d["env"] or d["envf"]).split("/")[0]
            if e != root and e in step["projects"]:
                ev = not K.reference_violations(eff_case(step["projects"][e]))
                out.append("arg:%s/env:%s" % ("valid" if valid else "invalid", "valid" if ev else "invalid"))
        prev[root] = (st, valid)
    return out


def nontrivial(case, obs):
    seen = {}
    for step in case["steps"]:
        want, root = designated(step)
        if want == "ok":
            if root in seen and seen[root] != step["projects"][root]:
                return True
            seen[root] = step["projects"][root]
        d = step["desig"]
        if d["arg"] and (d["env"] or d["envf"]):
            return True
    return False


def shrink(case):
    steps = case["steps"]
    for i in range(len(steps)):
        if len(steps) > 1:
            yield {"steps": steps[:i] + steps[i + 1:]}
    for i, s in enumerate(steps):
        if "B" in s["projects"] and "B" not in _others(s, "A") and designated(s)[1] != "B":
            t = dict(s, projects={"A": s["projects"]["A"]})
            yield {"steps": steps[:i] + [t] + steps[i + 1:]}
        if s["via"] != "create":
            yield {"steps": steps[:i] + [dict(s, via="create")] + steps[i + 1:]}
        for key in ("env", "envf"):
            if s["desig"][key] is not None:
                yield {"steps": steps[:i] + [dict(s, desig=dict(s["desig"], **{key: None}))] + steps[i + 1:]}
        for r, st in s["projects"].items():
            for smaller in K.shrink_case(st["case"]):
                t = dict(s, projects=dict(s["projects"], **{r: _state(smaller, st["py"])}))
                # the same replacement in every step holding the same state keeps "unchanged" steps unchanged
                yield {"steps": [dict(u, projects=dict(u["projects"], **{r: t["projects"][r]})) if u["projects"].get(r) == st else u
                                 for u in steps]}


# --------------------------------------------------------------------------------------------
# tables: the finite decisions of `load_project`, extracted by executing the real code
# --------------------------------------------------------------------------------------------

def _lean_opt(v):
    return "none" if v is None else 'some "%s"' % v


def _plain_project_py(d):
    with open(os.path.join(d, "project.py"), "w") as f:
        f.write("from lemoncheesecake.project import Project\nproject = Project()\n")


def table_rows():
    """designationTable: (arg, $LCC_PROJECT, $LCC_PROJECT_FILE) in {not given, empty, a path}^3 -> the path handed to
    `_load_project_from_path`, or the search of the working directory; resolutionTable: what `_load_project_from_path` makes of
    a missing path / a directory (project.py? suites?) / a file; searchTable: working directory C below P (project.py? suites?
    each) -> the directory of the project found."""
    from unittest import mock
    import lemoncheesecake.project as P
    from lemoncheesecake.exceptions import ProjectNotFound, ProjectLoadingError

    base = tempfile.mkdtemp(prefix="lccverif-c14tab-")
    saved = {k: os.environ.get(k) for k in ("LCC_PROJECT", "LCC_PROJECT_FILE")}
    cwd = os.getcwd()
    old = sys.dont_write_bytecode
    sys.dont_write_bytecode = True
    desig, resol, srch = [], [], []
    try:
        empty = os.path.join(base, "empty")
        os.makedirs(empty)
        os.chdir(empty)
        for arg in (None, "", "X"):
            for env in (None, "", "Y"):
                for envf in (None, "", "Z"):
                    for k, v in (("LCC_PROJECT", env), ("LCC_PROJECT_FILE", envf)):
                        if v is None:
                            os.environ.pop(k, None)
                        else:
                            os.environ[k] = v
                    with mock.patch.object(P, "_load_project_from_path", lambda p: ("path", p)):
                        try:
                            got = P.load_project(arg)
                        except ProjectNotFound:
                            got = ("search", None)
                    lean = "Choice.search" if got[0] == "search" else 'Choice.path "%s"' % got[1]
                    desig.append(("(%s, %s, %s)" % (_lean_opt(arg), _lean_opt(env), _lean_opt(envf)), lean,
                                  {"arg": arg, "LCC_PROJECT": env, "LCC_PROJECT_FILE": envf, "choice": list(got)}))
        for k in ("LCC_PROJECT", "LCC_PROJECT_FILE"):
            os.environ.pop(k, None)
        n = 0
        for kind in (0, 1, 2):
            for py in (False, True):
                for sd in (False, True):
                    if kind == 2 and not py:
                        continue
                    n += 1
                    root = os.path.join(base, "r%d" % n, "R")
                    os.makedirs(root)
                    if py:
                        _plain_project_py(root)
                    if sd:
                        os.makedirs(os.path.join(root, "suites"))
                    path = {0: os.path.join(root, "missing"), 1: root, 2: os.path.join(root, "project.py")}[kind]
                    try:
                        proj = P._load_project_from_path(path)
                        out = "P" if os.path.realpath(proj.dir) == os.path.realpath(path) else \
                              "R" if os.path.realpath(proj.dir) == os.path.realpath(root) else "?"
                    except ProjectLoadingError:
                        out = None
                    resol.append(("(%d, %s, %s)" % (kind, str(py).lower(), str(sd).lower()), _lean_opt(out),
                                  {"path_is": ["missing", "directory", "file"][kind], "project.py": py, "suites": sd, "project_dir": out}))
        for cpy in (False, True):
            for csd in (False, True):
                for ppy in (False, True):
                    for psd in (False, True):
                        n += 1
                        par = os.path.join(base, "s%d" % n, "P")
                        cur = os.path.join(par, "C")
                        os.makedirs(cur)
                        for d, py, sd in ((cur, cpy, csd), (par, ppy, psd)):
                            if py:
                                _plain_project_py(d)
                            if sd:
                                os.makedirs(os.path.join(d, "suites"))
                        os.chdir(cur)
                        try:
                            proj = P.load_project()
                            out = "C" if os.path.realpath(proj.dir) == os.path.realpath(cur) else \
                                  "P" if os.path.realpath(proj.dir) == os.path.realpath(par) else "?"
                        except ProjectNotFound:
                            out = None
                        srch.append(("(%s, %s, %s, %s)" % tuple(str(x).lower() for x in (cpy, csd, ppy, psd)), _lean_opt(out),
                                     {"cwd": {"project.py": cpy, "suites": csd}, "parent": {"project.py": ppy, "suites": psd}, "found": out}))
    finally:
        os.chdir(cwd)
        sys.dont_write_bytecode = old
        for k, v in saved.items():
            if v is None:
                os.environ.pop(k, None)
            else:
                os.environ[k] = v
        for name in [m for m in sys.modules if m.startswith(base)]:
            del sys.modules[name]
        shutil.rmtree(base, ignore_errors=True)
    return desig, resol, srch


def tables():
    desig, resol, srch = table_rows()
    imp = ("LccModel.Model.ProjectFiles",)
    return [C.Table("designationTable", "List ((Option String × Option String × Option String) × LccModel.ProjectFiles.Choice)", desig, imports=imp),
            C.Table("resolutionTable", "List ((Nat × Bool × Bool) × Option String)", resol, imports=imp),
            C.Table("searchTable", "List ((Bool × Bool × Bool × Bool) × Option String)", srch, imports=imp)]


# --------------------------------------------------------------------------------------------
# corpus
# --------------------------------------------------------------------------------------------

_NOPOL = {"props": [], "tags": [], "no_unknown_props": False, "no_unknown_tags": False}


def _mini(args=(), deps=(), decls=(), policy=None, props=(), setup_args=None):
    t1 = K._t("t1", args=args, props=props)
    t2 = K._t("t2", deps=deps)
    return {"policy": policy or copy.deepcopy(_NOPOL), "decls": list(decls), "suites": [K._s("sa", [t1, t2], setup_args=setup_args)],
            "keep": None, "fd": False, "defects": []}


_FX = [K._d(["conn"], "session")]
GOOD = _mini(args=["conn"], decls=_FX)
GHOST = _mini(args=["conn", "ghost"], decls=_FX)
BADDEP = _mini(args=["conn"], decls=_FX, deps=[{"path": "nosuch.t0"}])
INVERSION = _mini(args=["conn"], decls=_FX + [K._d(["narrow0"]), K._d(["wide0"], "session", ["narrow0"])])
POLICY = _mini(args=["conn"], decls=_FX, policy=dict(_NOPOL, props=[{"name": "ticket", "values": [], "on_test": True, "on_suite": False,
                                                                       "required": True}]))


def _step(a, via="check", b=None, arg="A", env=None, envf=None, cwd="TOP", py=False):
    projects = {"A": _state(a, py)}
    if b is not None:
        projects["B"] = _state(b, py)
    return {"projects": projects, "via": via, "desig": {"arg": arg, "env": env, "envf": envf, "cwd": cwd}}


CORPUS = [
    # prepare -> introduce a defect -> prepare -> repair -> prepare (seeded C14-11), through each entry point
    {"steps": [_step(GOOD, "check"), _step(GHOST, "check"), _step(GOOD, "check")]},
    {"steps": [_step(GOOD, "create"), _step(BADDEP, "create"), _step(GOOD, "run")]},
    {"steps": [_step(INVERSION, "check"), _step(GOOD, "run"), _step(INVERSION, "create")]},
    {"steps": [_step(GOOD, "check", py=True), _step(POLICY, "check", py=True), _step(GOOD, "check", py=True)]},
    # -p A with the environment naming another project (seeded C14-12): invalid A / valid B and the converse
    {"steps": [_step(GHOST, "check", b=GOOD, env="B")]},
    {"steps": [_step(GOOD, "check", b=GHOST, envf="B")]},
    {"steps": [_step(BADDEP, "run", b=GOOD, env="B", py=True), _step(GOOD, "create", b=INVERSION, envf="B/project.py", py=True)]},
    # no -p: $LCC_PROJECT before $LCC_PROJECT_FILE; an empty $LCC_PROJECT hides $LCC_PROJECT_FILE (the cwd is searched)
    {"steps": [_step(GHOST, "check", b=GOOD, arg=None, env="B", envf="A"), _step(GHOST, "check", b=GOOD, arg=None, env="", envf="B", cwd="A/suites"),
               _step(GOOD, "check", b=GHOST, arg="", envf="B", cwd="A"), _step(GOOD, "check", arg=None, cwd="W")]},
]


class Disk(C.Stream):
    name = "C14.disk"
    quick_cases = 220
    thorough_cases = 2600
    quick_seconds = 16
    thorough_seconds = 220
    chunk = 40
    corpus = CORPUS

    def setup(self, ctx):
        self.top = tempfile.mkdtemp(prefix="lccverif-c14disk-")

    def teardown(self, ctx):
        shutil.rmtree(self.top, ignore_errors=True)

    def gen(self, rng, i):
        return gen_case(rng, i)

    def impl(self, case):
        return observe(case, self.top)

    def oracle(self, case, obs):
        return failures(case, obs)

    def request(self, case, obs):
        return request(case)

    def compare(self, case, obs, ans):
        return compare(case, obs, ans)

    def nontrivial(self, case, obs):
        return nontrivial(case, obs)

    def features(self, case, obs):
        return features(case, obs)

    def shrink(self, case):
        return shrink(case)

"""C18 — replaying a report reproduces it (models M10 `Replay`, M4 `Writer`, the C07 stream grammar)."""
import copy
import os
import shutil
import tempfile
import threading

import common as C
from gen import reports as R
from obs import grammar as G
from props.c09 import first_diff, count_results, has_unfinished, none_text_positions

PROPERTY = "C18"
LEAN_MODULES = ["LccModel.Props.C18"]
PROPS_FILES = ["LccModel/Props/C18.lean"]
NAMESPACES = {"LccModel/Props/C18.lean": "LccModel.C18"}
DRIVER = "drivers/C18.lean"
TRUSTED_BASE = [
    "Lean 4.33.0 kernel; axioms of the property theorems ⊆ {propext, Classical.choice, Quot.sound}",
    "hand-written models LccModel/Model/Replay.lean (reporting/replay.py, with fixes/D6-replay-unfinished-step.diff applied), "
    "LccModel/Model/Writer.lean (reporting/writer.py, report.py accessors) and LccModel/Model/Grammar.lean (the C07 stream grammar)",
    "correspondence harness harness/props/c18.py, harness/gen/reports.py, harness/obs/grammar.py (independent Python recogniser of the "
    "grammar, used as oracle and cross-checked against the Lean acceptor on ill-formed streams)",
    "LccModel/Model/Serial.lean (`loaded`: what save + load gives back — accessor order, ranks 0) as tied to json_.py / xml.py by C09; "
    "the C18 streams observe the loaded form directly (real JsonBackend / XmlBackend save_report + load_report) and hand it to the model",
    "`time.time()` inside Event.__init__ is replaced by a constant for the duration of a replay (the model's parameter `now`)",
]
ASSUMPTIONS = [
    "times are positive integers of milliseconds (a time of 0.0 is falsy for `event_time or time.time()`; finding C18/replay/zero-time-becomes-now)",
    "a loaded report is writer-shaped: every finished result's status is the verdict of its own logs, in-progress results have no status, "
    "skipped/disabled tests have no steps and end_time == start_time, status_details only on skipped/disabled tests; sibling names distinct",
    "title, info, nb_threads and saving_time are not carried by events and are excluded from the comparison",
]
RULE = ("a generated (or really produced) report, in memory AND as loaded back from its JSON and from its XML file (real backends), each "
        "form replayed through replay_report_events + SyncEventManager into a fresh ReportWriter; node names drawn from a class with dots, "
        "dashes, digits, punctuation, blank / non-ASCII text and names whose dotted path string spells another node; sibling start times "
        "frequently out of the order the report holds them, or equal (features name:* / siblings-* count them); "
        "non-trivial = at least 2 results and (a non-plain string, an unfinished item or steps from several threads); "
        "for C18.writer: an event stream of at least 4 events; distinct = hash of the case")
EXPLANATION = ("Theorems: the replayed stream of every report satisfies the containment grammar, of every finished report the strict "
               "sequential C07 grammar; fold(replay r) is computed exactly for every report with distinct sibling names (replayImage) and is r "
               "itself for exactly the writer-shaped reports (replayExact) — for any ranks; for a LOADED report (ranks 0, children in file order) "
               "it is literally the report, and save -> load -> replay -> aggregate is the loaded report (composition with C09's round-trip "
               "theorems), so no theorem leans on ranks surviving. The models are tied to replay.py / writer.py by replaying "
               "generated reports and reports of real (parallel, interrupted) runs through the real code, and by feeding random, also "
               "ill-formed, event sequences to the real ReportWriter.")

NOW_MS = R.T0 + 50_000_000


class _FakeTime:
    @staticmethod
    def time():
        return NOW_MS / 1000.0


def real_replay(report_obj, nb_threads):
    """replay through the real code; returns (events (wire-shaped, tid renamed to 1), rebuilt Report object or error class)"""
    from lemoncheesecake import events as E
    from lemoncheesecake.events import SyncEventManager
    from lemoncheesecake.reporting import Report, ReportWriter
    from lemoncheesecake.reporting.replay import replay_report_events

    recorded = []

    class Recorder:
        pass
    em = SyncEventManager.load()
    new = Report()
    new.nb_threads = nb_threads
    rec = Recorder()
    for name in list(em._event_types):
        setattr(rec, "on_" + name, lambda ev: recorded.append(ev))
    em.add_listener(rec)
    em.add_listener(ReportWriter(new))
    saved = E.time
    E.time = _FakeTime
    err = None
    try:
        replay_report_events(report_obj, em)
    except (LookupError, AttributeError, AssertionError, TypeError, ValueError) as e:
        err = "LookupError" if isinstance(e, LookupError) else type(e).__name__
    finally:
        E.time = saved
    evs = []
    me = threading.current_thread().ident
    for ev in recorded:
        c = R.canon_event(ev)
        if "tid" in c:
            c["tid"] = 1 if c["tid"] == me else c["tid"]
        evs.append(c)
    return evs, new, err


FORMS = ("mem", "json", "xml")


def observe_form(rep_obj, desc):
    """one form of a report (the object graph `rep_obj`, described by `desc`) replayed through the real code"""
    evs, new, err = real_replay(rep_obj, desc["nb_threads"])
    return {"outcome": "ok", "desc": desc, "events": evs, "rebuilt": R.canon_report(new), "rebuilt_nf": R.nf_report(new), "error": err,
            "writer_shaped": writer_shaped(desc), "tail_unfinished": tail_unfinished(desc)}


def observe_forms(desc, scratch_dir):
    """The property is about LOADED reports: the report in memory, and what each serialisation backend of the repo gives back
    for it (`load_report(save_report(r))`: children in accessor order, ranks lost), each replayed into a fresh ReportWriter.
    A backend that cannot save / load the report (C09's business: XML text limits, missing start times) is skipped for that case."""
    import os
    from lemoncheesecake.reporting import JsonBackend, XmlBackend
    from lemoncheesecake.exceptions import ReportLoadingError
    rep = R.build_report(desc)
    out = {"mem": observe_form(rep, desc)}
    for key, backend, fname in (("json", JsonBackend(), "report.js"), ("xml", XmlBackend(), "report.xml")):
        path = os.path.join(scratch_dir, fname)
        try:
            backend.save_report(path, rep)
        except (TypeError, UnicodeEncodeError, ValueError) as e:
            out[key] = {"outcome": "save-error:" + type(e).__name__}
            continue
        try:
            loaded = backend.load_report(path)
        except ReportLoadingError:
            out[key] = {"outcome": "load-error"}
            continue
        ldesc = R.canon_report(loaded)
        o = observe_form(loaded, ldesc)
        # strings the Lean side cannot hold (C09/xml/empty-text-loads-None: a mandatory text that came back as None)
        o["model_ok"] = not none_text_positions(ldesc)
        out[key] = o
    return out


def forms_oracle(obs):
    fails = []
    for key in FORMS:
        o = obs[key]
        if o["outcome"] != "ok":
            continue
        for f in replay_oracle(o["desc"], o):
            f.message = "[%s] %s" % ("in-memory report" if key == "mem" else key + "-loaded report", f.message)
            fails.append(f)
    return fails


def forms_request(obs, nb_threads):
    keys = [k for k in FORMS if obs[k]["outcome"] == "ok" and obs[k].get("model_ok", True)]
    return {"op": "replays", "reports": [R.wire(obs[k]["desc"]) for k in keys], "now": NOW_MS, "tid": 1, "nb_threads": nb_threads}


def forms_compare(obs, ans):
    if "error" in ans:
        return "model error: " + ans["error"]
    keys = [k for k in FORMS if obs[k]["outcome"] == "ok" and obs[k].get("model_ok", True)]
    for k, a in zip(keys, ans["answers"]):
        d = compare_form(obs[k]["desc"], obs[k], a, loaded=k != "mem")
        if d:
            return "[%s] %s" % (k, d)
    return None


def _neutral(exp, got):
    got = copy.deepcopy(got)
    for k in ("title", "info", "nb_threads"):
        got[k] = exp[k]
    return got


def compare_form(desc, obs, ans, loaded=False):
    if "error" in ans:
        return "model error: " + ans["error"]
    mev = R.unwire(ans["events"])
    d = first_diff(obs["events"], mev)
    if d:
        return f"replayed stream differs at {d[0]}: real {d[1]!r} model {d[2]!r}"
    f = ans["fold"]
    if obs["error"]:
        return None if f.get("err") == obs["error"] else f"real replay raised {obs['error']}, model: {str(f)[:200]}"
    if "err" in f:
        return f"model's writer raises {f['err']} at event {f['at']}, the real one does not"
    d = first_diff(obs["rebuilt"], R.unwire(f["ok"]))
    if d:
        return f"rebuilt report differs at {d[0]}: real {d[1]!r} model {d[2]!r}"
    if ans["names_ok"] and not ans["image_agrees"]:
        return "model: fold(replay r) differs from replayImage r although sibling names are distinct (theorem replay_fold_image)"
    g = ans["grammar"]
    real_g = {"lenient": G.check(obs["events"], strict=False) is None, "prefix": G.check(obs["events"], strict=True) is None,
              "complete": G.check(obs["events"], strict=True, complete=True) is None,
              "sequential": G.check(obs["events"], strict=True, sequential=True) is None}
    if g != real_g:
        return f"grammar verdicts differ: python checker {real_g} vs Lean acceptor {g}"
    if loaded and not ans["ranks_zero"]:
        return "a loaded report carries a non-zero rank"
    if ans["exact"] and ans["names_ok"]:
        exp = R.nf_of_desc(desc)
        dd = first_diff(exp, _neutral(exp, obs["rebuilt_nf"]))
        if dd:
            return f"guard replayExact holds but the real replay changed {dd[0]}"
        if ans["ranks_zero"]:
            # theorem replay_roundtrip_loaded_partial: literally the same report, children in the order the report holds them
            if not ans["literal_identity"]:
                return "model: ranks are zero and the guards hold, yet fold(replay r) is not literally r"
            exp = dict(R.strip_private(desc), saving=None)
            dd = first_diff(exp, _neutral(exp, dict(obs["rebuilt"], saving=None)))
            if dd:
                return f"ranks are zero and the guards hold but the real replay is not the literal identity: {dd[0]}"
    return None


def forms_features(d, obs):
    f = list(R.shape_features(d))
    for key in FORMS:
        o = obs[key]
        if key != "mem":
            f.append(key + "-loaded:" + o["outcome"])
        if o["outcome"] != "ok":
            continue
        if o["error"]:
            f.append(key + ":raised:" + o["error"])
        if key != "mem":
            sf = R.shape_features(o["desc"])
            f += [key + "-loaded:" + x for x in sf if x.startswith("siblings-") and ":" not in x or x == "name:dotted-on-step-path"]
            if o["writer_shaped"]:
                f.append(key + "-loaded:writer-shaped")
    return f


def writer_shaped(d):
    """Python-side (model independent) statement of ASSUMPTIONS[1] + positive times"""
    def t_ok(x):
        return x is not None and x != 0

    def end_ok(x):
        return x is None or x != 0

    def res_ok(r, bypass_allowed):
        if bypass_allowed and r["status"] in ("skipped", "disabled"):
            return t_ok(r["start"]) and not r["steps"] and r["end"] == r["start"]
        if not t_ok(r["start"]) or not end_ok(r["end"]) or r["details"] is not None:
            return False
        for st in r["steps"]:
            if not t_ok(st["start"]) or not end_ok(st["end"]) or any(not t_ok(e["t"]) for e in st["entries"]):
                return False
        if r["end"] is None:
            return r["status"] is None
        return r["status"] == ("passed" if R.result_entries_ok(r) else "failed")
    if not t_ok(d["start"]) or not end_ok(d["end"]):
        return False
    for key in ("setup", "teardown"):
        if d[key] is not None and not res_ok(d[key], False):
            return False
    for s in R.iter_suites(d["suites"]):
        if not t_ok(s["start"]) or not end_ok(s["end"]):
            return False
        for key in ("setup", "teardown"):
            if s[key] is not None and not res_ok(s[key], False):
                return False
        if any(not res_ok(t["res"], True) for t in s["tests"]):
            return False
    return True


def tail_unfinished(d):
    """unfinished items form one chain at the very end of the depth-first order (a sequential run that stopped)"""
    ev = R.events_of_desc(_sorted_desc(d))
    return G.check(ev, strict=True, sequential=True) is None


def all_finished(d):
    """every end time is set and truthy (a 0.0 end time counts as "not ended" for `if x.end_time:`)"""
    if not d["end"]:
        return False
    for res in R.iter_results(d):
        if res["status"] in ("skipped", "disabled"):
            continue
        if not res["end"] or any(not st["end"] for st in res["steps"]):
            return False
    return all(s["end"] for s in R.iter_suites(d["suites"]))


def _sorted_desc(d):
    d = copy.deepcopy(R.strip_private(d))

    def suite(s):
        s["tests"] = sorted(s["tests"], key=lambda t: t["md"]["rank"])
        s["suites"] = [suite(x) for x in sorted(s["suites"], key=lambda x: x["md"]["rank"])]
        return s
    d["suites"] = [suite(s) for s in sorted(d["suites"], key=lambda x: x["md"]["rank"])]
    return d


def classify_replay_diff(path, a, b, desc):
    last = path.rsplit("/", 1)[-1]
    if last == "end" and "/steps/" in path and a is None and b == NOW_MS:
        return "C18/replay/unfinished-step-acquires-end-time"
    if a == 0 and b in (NOW_MS, None):
        return "C18/replay/zero-time-becomes-now"
    return "C18/replay/field-changed"


def replay_oracle(desc, obs):
    fails = []
    if obs.get("error"):
        return [C.Failure("C18/replay/raised-" + obs["error"], "replaying the report raised " + obs["error"])]
    ev = obs["events"]
    why = G.check(ev, strict=False)
    if why:
        fails.append(C.Failure("C18/grammar/containment", "replayed stream violates containment: " + why))
    elif all_finished(desc) and desc["start"]:
        why = G.check(ev, strict=True, sequential=True, complete=True)
        if why:
            fails.append(C.Failure("C18/grammar/finished-report-not-wellformed", "replayed stream of a finished report: " + why))
    elif obs["tail_unfinished"]:
        why = G.check(ev, strict=True, sequential=True)
        if why:
            fails.append(C.Failure("C18/grammar/unfinished-tail-not-prefix", "replayed stream of a sequentially unfinished report: " + why))
    if any(e.get("tid", 1) != 1 for e in ev):
        fails.append(C.Failure("C18/replay/several-threads", "replay used more than one thread id"))
    # aggregation = the original (only for writer-shaped reports, see ASSUMPTIONS)
    exp = R.nf_of_desc(desc)
    got = copy.deepcopy(obs["rebuilt_nf"])
    for k in ("title", "info", "nb_threads"):
        got[k] = exp[k]
    d = first_diff(exp, got)
    if d and (obs["writer_shaped"] or classify_replay_diff(*d, desc) != "C18/replay/field-changed"):
        fails.append(C.Failure(classify_replay_diff(*d, desc), f"replay changed {d[0]}: {d[1]!r} -> {d[2]!r}"))
    return fails


class ReplayStream(C.Stream):
    name = "C18.replay"
    quick_cases = 300
    thorough_cases = 6000
    quick_seconds = 40
    thorough_seconds = 300
    chunk = 40
    corpus = []

    def gen(self, rng, i):
        mode = rng.choice(["wild", "safe", "plain"])
        odd = rng.random() < 0.25
        return {"report": R.gen_report(rng, mode, odd=odd, zero_times=0.01 if odd else 0, stray_unfinished_steps=rng.random() < 0.3)}

    def setup(self, ctx):
        self.dir = tempfile.mkdtemp(prefix="lccverif-c18-")

    def teardown(self, ctx):
        shutil.rmtree(self.dir, ignore_errors=True)

    def impl(self, case):
        if not getattr(self, "dir", None) or not os.path.isdir(self.dir):
            self.setup(None)
        return observe_forms(R.strip_private(case["report"]), self.dir)

    def oracle(self, case, obs):
        return forms_oracle(obs)

    def request(self, case, obs):
        return forms_request(obs, case["report"]["nb_threads"])

    def compare(self, case, obs, ans):
        return forms_compare(obs, ans)

    def nontrivial(self, case, obs):
        d = case["report"]
        return count_results(d) >= 2 and (bool(d.get("_classes")) or has_unfinished(d))

    def features(self, case, obs):
        d = R.strip_private(case["report"])
        m = obs["mem"]
        f = ["writer-shaped" if m["writer_shaped"] else "not-writer-shaped",
             "finished" if all_finished(d) else ("tail-unfinished" if m["tail_unfinished"] else "stray-unfinished"),
             "events<=20" if len(m["events"]) <= 20 else ("events<=100" if len(m["events"]) <= 100 else "events>100")]
        return f + forms_features(d, obs)

    def shrink(self, case):
        for c in R.shrink_desc(case["report"]):
            yield {"report": c}


# ---- random event sequences through the real ReportWriter ------------------------------------------

def real_fold(events, nb):
    from lemoncheesecake.events import SyncEventManager
    from lemoncheesecake.reporting import Report, ReportWriter
    rep = Report()
    rep.nb_threads = nb
    em = SyncEventManager.load()
    em.add_listener(ReportWriter(rep))
    for i, e in enumerate(events):
        ev = R.build_event(e, rep)
        try:
            em.fire(ev)
        except (LookupError, AttributeError, AssertionError, TypeError, IndexError) as ex:
            return {"err": "LookupError" if isinstance(ex, LookupError) else type(ex).__name__, "at": i}
    return {"ok": R.canon_report(rep)}


def mutate(rng, ev):
    ev = list(ev)
    for _ in range(rng.choice([0, 1, 1, 2, 3, 6])):
        if not ev:
            break
        k = rng.choice(["drop", "dup", "swap", "move", "retid", "trunc", "repath", "zero"])
        i = rng.randrange(len(ev))
        if k == "drop":
            del ev[i]
        elif k == "dup":
            ev.insert(rng.randrange(len(ev) + 1), ev[i])
        elif k == "swap":
            j = rng.randrange(len(ev))
            ev[i], ev[j] = ev[j], ev[i]
        elif k == "move":
            e = ev.pop(i)
            ev.insert(rng.randrange(len(ev) + 1), e)
        elif k == "retid":
            if "tid" in ev[i]:
                ev[i] = dict(ev[i], tid=rng.choice([1, 2, 3]))
        elif k == "trunc":
            ev = ev[:i]
        elif k == "repath":
            others = [e["path"] for e in ev if "path" in e]
            if "path" in ev[i] and others and "md" not in ev[i]:
                ev[i] = dict(ev[i], path=rng.choice(others))
            elif "loc" in ev[i]:
                locs = [e["loc"] for e in ev if "loc" in e]
                ev[i] = dict(ev[i], loc=rng.choice(locs))
    return ev


class WriterStream(C.Stream):
    name = "C18.writer"
    quick_cases = 500
    thorough_cases = 12000
    quick_seconds = 20
    thorough_seconds = 300
    chunk = 50
    corpus = []

    def gen(self, rng, i):
        d = R.gen_report(rng, rng.choice(["plain", "plain", "safe"]), max_depth=3)
        ev = R.events_of_desc(d, rng, tids=(1, 2, 3) if rng.random() < 0.5 else (1,))
        mutated = rng.random() < 0.8
        if mutated:
            ev = mutate(rng, ev)
        return {"events": ev, "nb_threads": d["nb_threads"], "mutated": mutated}

    def impl(self, case):
        out = real_fold(case["events"], case["nb_threads"])
        out["g_prefix"] = G.check(case["events"], strict=True)
        out["g_lenient"] = G.check(case["events"], strict=False)
        out["g_complete"] = G.check(case["events"], strict=True, complete=True)
        out["g_seq"] = G.check(case["events"], strict=True, sequential=True)
        return out

    def oracle(self, case, obs):
        # a (prefix of a) well-formed stream must be aggregated without error
        if obs["g_prefix"] is None and "err" in obs:
            return [C.Failure("C18/writer/raises-on-wellformed-stream",
                              f"ReportWriter raised {obs['err']} at event {obs['at']} of a well-formed stream")]
        return []

    def request(self, case, obs):
        return {"op": "fold", "events": R.wire(case["events"]), "nb_threads": case["nb_threads"]}

    def compare(self, case, obs, ans):
        if "error" in ans:
            return "model error: " + ans["error"]
        if "err" in ans or "err" in obs:
            a = (ans.get("err"), ans.get("at"))
            b = (obs.get("err"), obs.get("at"))
            if a != b:
                return f"real writer {b} vs model {a} ({ans.get('detail')})"
        else:
            d = first_diff(obs["ok"], R.unwire(ans["ok"]))
            if d:
                return f"aggregated report differs at {d[0]}: real {d[1]!r} model {d[2]!r}"
        g = ans["grammar"]
        real_g = {"lenient": obs["g_lenient"] is None, "prefix": obs["g_prefix"] is None, "complete": obs["g_complete"] is None,
                  "sequential": obs["g_seq"] is None}
        if g != real_g:
            return f"grammar verdicts differ: python checker {real_g} ({obs['g_prefix']}) vs Lean acceptor {g}"
        # the lemma that is validated rather than proved: a stream the strict grammar accepts obeys `Writer.eventOk`
        if g["prefix"] and not ans.get("disciplined"):
            return "the strict grammar accepts this stream but Writer.runDisciplined rejects it (eventOk broken)"
        return None

    def nontrivial(self, case, obs):
        return len(case["events"]) >= 4

    def features(self, case, obs):
        f = ["mutated" if case["mutated"] else "well-formed-by-construction"]
        f.append("writer:" + (obs["err"] if "err" in obs else "ok"))
        f.append("grammar:" + ("complete" if obs["g_complete"] is None else "prefix" if obs["g_prefix"] is None
                               else "contained" if obs["g_lenient"] is None else "rejected"))
        if obs["g_seq"] is None:
            f.append("sequential")
        return f

    def shrink(self, case):
        ev = case["events"]
        for i in range(len(ev)):
            yield dict(case, events=ev[:i] + ev[i + 1:])


# ---- reports of real runs (parallel, threads inside tests, interrupted = snapshot in the middle) -------------

def make_suites(rng):
    """suite classes built on the fly: nested suites, failing/erroring tests, steps, lcc.Thread loggers, skipped, disabled"""
    import lemoncheesecake.api as lcc
    from lemoncheesecake.matching import check_that, equal_to

    def make_test(name, kind):
        def body(self=None):
            if kind == "pass":
                lcc.set_step("s1")
                lcc.log_info("hello " + name)
                check_that("v", 1, equal_to(1))
            elif kind == "fail":
                lcc.set_step("checking")
                check_that("v", 1, equal_to(2))
                lcc.log_url("http://x", "link")
            elif kind == "error":
                lcc.log_error("boom")
            elif kind == "raise":
                raise Exception("unexpected")
            elif kind == "threads":
                lcc.set_step("parallel part")

                def worker(k):
                    def run():
                        lcc.set_step("worker %d" % k)
                        lcc.log_info("from %d" % k)
                        lcc.log_info("again %d" % k)
                    return run
                ths = [lcc.Thread(target=worker(k)) for k in range(3)]
                for t in ths:
                    t.start()
                for t in ths:
                    t.join()
            elif kind == "empty":
                pass
        body.__name__ = name
        return body

    def make_suite(name, depth, path=""):
        # the name a node REPORTS (`name=` of the decorators) is any text: dotted for a good part of them
        shown = name + rng.choice(["", "", ".v1", ".2", "-x"])
        path = (path + "." if path else "") + shown
        attrs = {}
        kinds = ["pass", "pass", "fail", "error", "raise", "threads", "empty", "disabled"]
        n = rng.randint(1, 4)
        kind = [rng.choice(kinds) for _ in range(n)]
        attr = ["%s_t%d" % (name, i) for i in range(n)]
        tname = [a + rng.choice(["", "", "_1.2", ".b", "-c"]) for a in attr]
        deps = [[] for _ in range(n)]
        prev_fail = None
        for i in range(n):
            if kind[i] != "disabled" and prev_fail is not None and rng.random() < 0.5:
                deps[i].append(prev_fail)        # will be skipped
            if kind[i] in ("fail", "error", "raise"):
                prev_fail = i
        for i in range(n):
            # a dependency on a test declared LATER: this one is executed after it, yet listed before it in the report
            later = [j for j in range(i + 1, n) if not deps[j]]
            if kind[i] != "disabled" and not deps[i] and later and rng.random() < 0.4:
                deps[i].append(rng.choice(later))
        for i in range(n):
            f = make_test(attr[i], "pass" if kind[i] == "disabled" else kind[i])
            f = lcc.test(attr[i].replace("_", " "), name=tname[i])(f)
            if kind[i] == "disabled":
                f = lcc.disabled()(f)
            for j in deps[i]:
                f = lcc.depends_on(path + "." + tname[j])(f)
            attrs[attr[i]] = f
        if rng.random() < 0.4:
            def setup_suite(self):
                lcc.log_info("suite setup")
            attrs["setup_suite"] = setup_suite
        if rng.random() < 0.3:
            def teardown_suite(self):
                lcc.log_info("suite teardown")
            attrs["teardown_suite"] = teardown_suite
        if depth < 2 and rng.random() < 0.4:
            sub = make_suite(name + "_sub", depth + 1, path)
            attrs[sub.__name__] = sub
        cls = type(name, (object,), attrs)
        return lcc.suite(name.replace("_", " "), name=shown)(cls)
    return [make_suite("suite%d" % i, 0) for i in range(rng.randint(1, 3))]


def run_real(suite_classes, nb_threads, snapshot_at=None):
    """run with the real runner; returns (final report description, snapshot description or None)"""
    from lemoncheesecake.suite.loader import load_suites_from_classes
    from lemoncheesecake.suite import resolve_tests_dependencies
    from lemoncheesecake import runner
    from lemoncheesecake.events import AsyncEventManager
    from lemoncheesecake.session import Session
    from lemoncheesecake.fixture import FixtureRegistry
    from lemoncheesecake.reporting.backends.json_ import serialize_report_into_json, _unserialize_report
    suites = load_suites_from_classes(suite_classes)
    resolve_tests_dependencies(suites, suites)
    report_dir = tempfile.mkdtemp(prefix="lccverif-c18-")
    snap = {}
    try:
        em = AsyncEventManager.load()
        session = Session.create(em, [], report_dir, None, nb_threads=nb_threads)

        class Snap:
            n = 0

        def on_any(ev):
            Snap.n += 1
            if snapshot_at is not None and Snap.n == snapshot_at:
                snap["json"] = serialize_report_into_json(session.report)
        if snapshot_at is not None:
            for name in list(em._event_types):
                em.subscribe_to_event(name, on_any)
        runner.run_suites(suites, FixtureRegistry(), session, nb_threads=nb_threads)
        final = R.canon_report(session.report)
        s = None
        if "json" in snap:
            s = R.canon_report(_unserialize_report(snap["json"]))
        return final, s
    finally:
        shutil.rmtree(report_dir, ignore_errors=True)


class RunsStream(C.Stream):
    """reports of real runs: nb_threads 1..3, `lcc.Thread` loggers inside tests, snapshots taken in the middle of the run"""
    name = "C18.runs"
    quick_cases = 40
    thorough_cases = 600
    quick_seconds = 20
    thorough_seconds = 200
    chunk = 10
    corpus = []

    def gen(self, rng, i):
        return {"seed": rng.randrange(10**9), "nb_threads": rng.choice([1, 2, 3]), "snapshot_at": rng.choice([None, None, rng.randint(3, 40)])}

    def impl(self, case):
        import random
        rng = random.Random(case["seed"])
        final, snap = run_real(make_suites(rng), case["nb_threads"], case["snapshot_at"])
        desc = snap if snap is not None else final
        if not getattr(self, "dir", None) or not os.path.isdir(self.dir):
            self.setup(None)
        # ms rounding as the file formats do (a run's times are arbitrary floats)
        out = observe_forms(desc, self.dir)
        out["desc"] = desc
        out["snapshot"] = snap is not None
        return out

    def setup(self, ctx):
        self.dir = tempfile.mkdtemp(prefix="lccverif-c18-")

    def teardown(self, ctx):
        shutil.rmtree(self.dir, ignore_errors=True)

    def oracle(self, case, obs):
        fails = forms_oracle(obs)
        if not obs["mem"]["writer_shaped"]:
            fails.append(C.Failure("C18/runs/real-report-not-writer-shaped", "a report produced by the real runner is not writer-shaped"))
        return fails

    def request(self, case, obs):
        return forms_request(obs, obs["desc"]["nb_threads"])

    def compare(self, case, obs, ans):
        return forms_compare(obs, ans)

    def nontrivial(self, case, obs):
        return count_results(obs["desc"]) >= 2

    def features(self, case, obs):
        d = obs["desc"]
        f = ["threads=%d" % case["nb_threads"], "snapshot" if obs["snapshot"] else "final",
             "finished" if all_finished(d) else ("tail-unfinished" if obs["mem"]["tail_unfinished"] else "stray-unfinished")]
        sts = {str(t["res"]["status"]) for t in R.iter_tests(d)}
        f += ["status:" + s for s in sorted(sts)]
        return f + forms_features(d, obs)


def _mini(step_end=R.T0 + 3, log_t=R.T0 + 2, test_end=R.T0 + 4, status="passed"):
    step = {"desc": "s", "start": R.T0 + 1, "end": step_end, "entries": [{"k": "log", "level": "info", "msg": "m", "t": log_t}]}
    md = {"name": "t1", "desc": "d", "tags": [], "props": [], "links": [], "rank": 0}
    res = {"steps": [step], "start": R.T0 + 1, "end": test_end, "status": status, "details": None}
    smd = dict(md, name="s1")
    suite = {"md": smd, "start": R.T0, "end": None if test_end is None else R.T0 + 5, "setup": None, "teardown": None,
             "tests": [{"md": md, "res": res}], "suites": []}
    return {"report": {"title": "t", "info": [], "nb_threads": 1, "start": R.T0, "end": None if test_end is None else R.T0 + 6,
                       "saving": None, "setup": None, "teardown": None, "suites": [suite]}}


def _md(name, rank=0):
    return {"name": name, "desc": "d", "tags": [], "props": [], "links": [], "rank": rank}


def _res(t, steps=1, end=True):
    """a passed result starting at T0+t holding `steps` one-log steps (4 ms each)"""
    sts = [{"desc": "s%d" % k, "start": R.T0 + t + 4 * k + 1, "end": R.T0 + t + 4 * k + 3,
            "entries": [{"k": "log", "level": "info", "msg": "m", "t": R.T0 + t + 4 * k + 2}]} for k in range(steps)]
    return {"steps": sts, "start": R.T0 + t, "end": R.T0 + t + 4 * steps + 1 if end else None, "status": "passed" if end else None,
            "details": None}


def _test(name, t, rank=0, steps=1):
    return {"md": _md(name, rank), "res": _res(t, steps)}


def _suite(name, t, tests=(), suites=(), setup=None, teardown=None, rank=0, length=90):
    return {"md": _md(name, rank), "start": R.T0 + t, "end": R.T0 + t + length, "setup": setup, "teardown": teardown,
            "tests": list(tests), "suites": list(suites)}


def _report(*suites):
    return {"report": {"title": "t", "info": [], "nb_threads": 1, "start": R.T0, "end": R.T0 + 1000, "saving": None, "setup": None,
                       "teardown": None, "suites": list(suites)}}


ReplayStream.corpus = [
    _mini(step_end=None, test_end=None, status=None),      # D6 (fixed by fixes/D6-replay-unfinished-step.diff)
    _mini(log_t=0),                                        # C18/replay/zero-time-becomes-now
    _mini(),
    # -- names that contain the path separator (minimised failing inputs of the seeded change C18-2: replay going through the
    #    string form of a path) --
    _report(_suite("s", 10, tests=[_test("compat_1.2", 20)])),                                   # a parametrized test's name
    _report(_suite("a.b", 10, setup=_res(12), teardown=_res(60), tests=[_test("t", 30)])),         # @lcc.suite(name="a.b")
    _report(_suite(".", 10, tests=[_test("..", 20), _test("", 40)])),                              # empty path components
    # the string form of the second suite's path spells the first suite's sub-suite: steps would land in ANOTHER node
    _report(_suite("a", 10, suites=[_suite("b", 12, setup=_res(14), tests=[_test("t", 30)], length=50)]),
            _suite("a.b", 200, setup=_res(202), tests=[_test("t", 230, steps=2)])),
    _report(_suite("s", 10, tests=[_test("u.t", 20, steps=2)], suites=[_suite("u", 50, tests=[_test("t", 52)], length=30)])),
    # -- siblings whose start times are not in the order the report holds them, ranks all 0 = a report loaded from a file
    #    (minimised failing inputs of the seeded change C18-3: replay in chronological order) --
    _report(_suite("s", 10, tests=[_test("later", 60), _test("earlier", 20)])),                  # depends_on a test declared after it
    _report(_suite("s2", 500, tests=[_test("t", 510)]), _suite("s1", 10, tests=[_test("t", 20)])),     # top-level suites
    _report(_suite("s", 10, suites=[_suite("b", 50, tests=[_test("t", 52)], length=30), _suite("a", 12, tests=[_test("t", 14)], length=30)])),
    _report(_suite("s", 10, tests=[_test("x", 20), _test("y", 20), _test("w", 20)])),             # equal start times
    # a step left open by one thread followed by a step of another one (minimised failing input of the seeded change C18-1)
    _report(_suite("s", 10, tests=[{"md": _md("t"), "res": dict(_res(20, steps=2), steps=[dict(_res(20, steps=2)["steps"][0], end=None),
                                                                                       _res(20, steps=2)["steps"][1]])}])),
    # ranks present and contradicting both the list order and the start times (an in-memory report of a parallel run)
    _report(_suite("s", 10, tests=[_test("c", 60, rank=1), _test("a", 20, rank=2), _test("b", 40, rank=0)])),
]


def streams(ctx):
    return [ReplayStream(), WriterStream(), RunsStream()]

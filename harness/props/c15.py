"""C15 — per-thread fixtures and ThreadedFactory objects are never shared between threads (model M14, Factory part).

Two correspondence streams, both against the REAL code of the tree under test:

  C15.factory  real `ThreadedFactory` subclasses hammered from 1..8 real threads with forced first-access
               races (start barrier, rendezvous inside `setup_object`, or the seeded line-level scheduler of
               harness/sched/c15sched.py restricted to helpers/threading.py), raising `setup_object` attempts,
               several gets per thread, then `teardown_factory` 0/1/2 times.
  C15.run      real runs through `runner.run_suites` with `per_thread=True` fixtures of session and suite scope,
               plain and generator, consumed directly and through a test-scoped fixture, 1..8 workers, tests
               pinned to distinct workers by barriers in the `setup_test` hook (so the first accesses race).

Since /repo commit 8e1157b (fix of D31) `teardown_factory` tears down EVERY object even when some
`teardown_object` calls raise and re-raises the first exception after the loop; raising teardown calls are
therefore generated at ANY position in both streams and clause 4 of the oracle is unconditional.

Both record ONE globally ordered trace under one lock.  Model side: the trace (per factory instance) is replayed
on the Lean acceptor `LccModel.Threads.Factory.step` (drivers/C15.lean); every step must be accepted and the
final ghost state must equal what was observed.  Oracle: the four clauses of the property, evaluated on the
observations only.
"""
import os
import shutil
import sys
import tempfile
import threading
import time

import common as C

PROPERTY = "C15"
LEAN_MODULES = ["LccModel.Props.C15", "LccModel.Proto"]   # the last one: what drivers/C15.lean imports besides the model
PROPS_FILES = ["LccModel/Props/C15.lean"]
NAMESPACES = {"LccModel/Props/C15.lean": "LccModel.C15"}
DRIVER = "drivers/C15.lean"
TRUSTED_BASE = [
    "Lean 4.33.0 kernel; axioms of the property theorems ⊆ {propext, Classical.choice, Quot.sound}",
    "hand-written model LccModel/Model/Threads.lean (namespace Factory) of helpers/threading.py:ThreadedFactory.get_object/"
    "teardown_factory and fixture.py:_PerThreadFixtureResult: one atomic step per source line, per-thread program counters",
    "threading.local semantics (the slot of thread t is visible to t only) — trusted, validated by the streams, not proved",
    "atomicity of list.append and of one read/write of the thread-local attribute under the GIL; CPython pre-emption finer "
    "than a source line is not modelled",
    "trace-inclusion harness harness/props/c15.py + harness/sched/c15sched.py + drivers/C15.lean (acceptor; the two unobservable "
    "internal steps slot-write/append are inserted before the thread's return, in the order of the observed _objects list)",
]
ASSUMPTIONS = [
    "setup_object returns a fresh object at every successful call (a setup_object that returns the same object twice shares it itself)",
    "teardown_factory is called after every get_object call has completed (runner: on-completion dependencies of the suite/session "
    "teardown task — honoured after a keyboard interrupt too since fix D11, C08's theorems; the interrupt path is not exercised here)",
    "the tree under test contains /repo commit 8e1157b (teardown_factory continues after a raising teardown_object); on an older "
    "tree the check reports a VIOLATION with signature C15/teardown-raises-skips-remaining-instances",
    "worker threads of one run are alive for the whole run, so thread identifiers are not reused inside a run",
    "the run-level clause 'torn down when the scope's teardown task runs, after all consumers' is C03's theorem; here it is the "
    "explicit precondition of the factory theorems and is checked on every real run by the oracle",
]
RULE = ("C15.factory: 1..8 real threads × gets per thread × raising setup attempts × race mode (barrier / rendezvous inside "
        "setup_object / seeded line scheduler) × 0/1/2 teardown_factory calls × raising teardown_object calls at any position; non-trivial = ≥ 2 threads created an object, ≥ 2 "
        "gets returned, and two threads were inside get_object's creation window at the same time.  C15.run: real run_suites "
        "runs, 1..8 workers, 1..3 suites (one may be nested), session/suite × plain/generator per-thread fixtures, direct and "
        "via a test-scoped fixture; non-trivial = ≥ 2 worker threads consumed the same fixture instance set and ≥ 2 consumers.  "
        "distinct = hash of the case")
EXPLANATION = ("All four clauses and the structure of _objects are Lean theorems over every interleaving of the source-line steps of "
               "get_object / teardown_factory for any number of threads; exactly-once teardown holds at full strength (raising "
               "teardown_object calls included) for the loop as repaired by /repo 8e1157b, and the first exception is re-raised "
               "after the loop (the old loop's defect D31 survives only as a *_legacy documentation theorem).  Every real trace is "
               "replayed step by step on the same transition function; the two D31 witnesses stay in the corpus and must pass.")

SIG_D31 = "C15/teardown-raises-skips-remaining-instances"


class _Boom(Exception):
    """raised by generated setup code"""


class _TdBoom(Exception):
    """raised by generated teardown code; `oid` = the object whose teardown raised"""

    def __init__(self, oid=None):
        Exception.__init__(self, "generated teardown failure (object %s)" % (oid,))
        self.oid = oid


def _load_linesched():
    """harness/sched/c15sched.py, loaded by path (a package called `sched` would shadow the stdlib module)"""
    import importlib.util

    mod = sys.modules.get("lccverif_c15sched")
    if mod is None:
        path = os.path.join(os.path.dirname(os.path.dirname(os.path.abspath(__file__))), "sched", "c15sched.py")
        spec = importlib.util.spec_from_file_location("lccverif_c15sched", path)
        mod = importlib.util.module_from_spec(spec)
        sys.modules["lccverif_c15sched"] = mod
        spec.loader.exec_module(mod)
    return mod.LineSched


def _join_all(threads, timeout, what):
    deadline = time.time() + timeout
    for th in threads:
        th.join(max(0.0, deadline - time.time()))
    if any(th.is_alive() for th in threads):
        raise C.InfraError(f"{what}: worker thread still alive after {timeout}s (hang)")


# =================================================================================================
# Stream 1: ThreadedFactory hammered directly
# =================================================================================================

class Factory(C.Stream):
    name = "C15.factory"
    quick_cases = 900
    thorough_cases = 14000
    quick_seconds = 28
    thorough_seconds = 400
    chunk = 50
    corpus = [
        # D31 witness (fixed by 8e1157b, must PASS): two threads, one object each, the first teardown_object call raises
        {"threads": 2, "mode": "barrier", "gets": [1, 1], "raise_at": [[], []], "setup": ["rendezvous", "rendezvous"],
         "delay": [0, 0], "teardowns": 1, "td_raise_calls": [0], "seed": 1},
        # same with 4 threads and the raise in the middle
        {"threads": 4, "mode": "barrier", "gets": [2, 1, 1, 2], "raise_at": [[], [], [], []],
         "setup": ["rendezvous"] * 4, "delay": [0, 0, 0, 0], "teardowns": 1, "td_raise_calls": [1], "seed": 2},
        # raising teardown at the LAST position
        {"threads": 3, "mode": "barrier", "gets": [1, 2, 1], "raise_at": [[], [], []], "setup": ["none"] * 3,
         "delay": [0, 0, 0], "teardowns": 1, "td_raise_calls": [2], "seed": 3},
        # several raising teardown calls: the FIRST exception is the one re-raised; second run raises again
        {"threads": 4, "mode": "line", "gets": [1, 2, 1, 1], "raise_at": [[], [0], [], []], "setup": ["none"] * 4,
         "delay": [0, 0, 0, 0], "teardowns": 2, "td_raise_calls": [1, 3, 4], "seed": 7},
        # the shape of the existing unit test (sequential threads, two gets each) + teardown
        {"threads": 2, "mode": "free", "gets": [2, 2], "raise_at": [[], []], "setup": ["none", "none"],
         "delay": [0, 30], "teardowns": 1, "td_raise_calls": [], "seed": 4},
        # raising setup attempts with retry, line scheduler
        {"threads": 3, "mode": "line", "gets": [3, 3, 2], "raise_at": [[0], [0, 1], []], "setup": ["none"] * 3,
         "delay": [0, 0, 0], "teardowns": 1, "td_raise_calls": [], "seed": 5},
        # teardown_factory called twice
        {"threads": 3, "mode": "line", "gets": [2, 1, 2], "raise_at": [[], [], []], "setup": ["none"] * 3,
         "delay": [0, 0, 0], "teardowns": 2, "td_raise_calls": [], "seed": 6},
    ]

    def gen(self, rng, i):
        k = rng.choice([1, 2, 2, 3, 3, 4, 4, 5, 6, 8])
        mode = rng.choice(["barrier", "barrier", "line", "line", "line", "free"])
        gets = [rng.choice([1, 1, 2, 2, 3, 4]) for _ in range(k)]
        raise_at = []
        for t in range(k):
            r = rng.random()
            if r < 0.7:
                raise_at.append([])
            elif r < 0.9:
                raise_at.append([0])
            else:
                raise_at.append(sorted(rng.sample(range(max(gets[t], 1) + 1), rng.randint(1, 2))))
        if mode == "line":
            setup = ["none"] * k
        else:
            p = rng.random()
            setup = [("rendezvous" if p < 0.6 else rng.choice(["none", "sleep", "yield", "rendezvous"])) for _ in range(k)]
        delay = [0] * k if mode != "free" else [rng.choice([0, 0, 1, 3, 8]) for _ in range(k)]
        teardowns = rng.choice([1, 1, 1, 1, 2, 0])
        # raising teardown_object calls at ANY position (indices into the global sequence of teardown_object calls)
        td_raise_calls = []
        if teardowns and rng.random() < 0.4:
            n_calls = k * teardowns
            td_raise_calls = sorted(rng.sample(range(n_calls), rng.randint(1, min(3, n_calls))))
            if rng.random() < 0.2:
                td_raise_calls = ["last"]
        return {"threads": k, "mode": mode, "gets": gets, "raise_at": raise_at, "setup": setup, "delay": delay,
                "teardowns": teardowns, "td_raise_calls": td_raise_calls, "seed": rng.randrange(1 << 30)}

    # ---- the real code ---------------------------------------------------------------------------
    def impl(self, case):
        import random

        from lemoncheesecake.helpers import threading as lt
        LineSched = _load_linesched()

        k = case["threads"]
        lock = threading.Lock()
        trace = []
        st = {"created": 0, "td_calls": 0}
        attempts = [0] * (k + 1)
        done_first = [False] * (k + 1)
        tags = {}
        notes = set()

        def tag():
            return tags.get(threading.get_ident(), k)

        class Obj:
            __slots__ = ("n",)

            def __init__(self, n):
                self.n = n

        def oid(x):
            return x.n if isinstance(x, Obj) else "?" + type(x).__name__

        mode = case["mode"]
        # a thread joins the rendezvous inside setup_object only if one of its attempts will succeed
        will_succeed = [any(a not in case["raise_at"][t] for a in range(case["gets"][t])) for t in range(k)]
        rdv_n = sum(1 for t in range(k) if case["setup"][t] == "rendezvous" and will_succeed[t]) if mode != "line" else 0
        rdv = threading.Barrier(rdv_n, timeout=2.0) if rdv_n >= 2 else None
        raise_at = [list(r) for r in case["raise_at"]] + [[]]
        setup_beh = list(case["setup"]) + ["none"]
        td_raise = case["td_raise_calls"]

        class F(lt.ThreadedFactory):
            def setup_object(self):
                t = tag()
                with lock:
                    trace.append(["miss", t])
                    a = attempts[t]
                    attempts[t] += 1
                if a in raise_at[t]:
                    with lock:
                        trace.append(["raise", t])
                    raise _Boom()
                if not done_first[t]:
                    done_first[t] = True
                    beh = setup_beh[t]
                    if beh == "rendezvous" and rdv is not None:
                        try:
                            rdv.wait()
                        except threading.BrokenBarrierError:
                            notes.add("rendezvous-broken")
                    elif beh == "sleep":
                        time.sleep(0.002)
                    elif beh == "yield":
                        time.sleep(0)
                with lock:
                    n = st["created"]
                    st["created"] += 1
                    trace.append(["create", t, n])
                return Obj(n)

            def teardown_object(self, obj):
                t = tag()
                with lock:
                    i = st["td_calls"]
                    st["td_calls"] += 1
                    ok = not (i in td_raise or ("last" in td_raise and i == st["created"] - 1))
                    trace.append(["td", t, oid(obj), ok])
                if not ok:
                    raise _TdBoom(oid(obj))

        f = F()
        sched = None
        if mode == "line" and k >= 1:
            sched = LineSched(lt.__file__, random.Random(case["seed"]), list(range(k)),
                              switch=0.35 + (case["seed"] % 5) * 0.12, timeout=5.0)
        start = threading.Barrier(k, timeout=5.0) if (mode == "barrier" and k >= 2) else None

        def worker(t):
            tags[threading.get_ident()] = t
            try:
                if sched is not None:
                    sched.enter(t)
                elif start is not None:
                    try:
                        start.wait()
                    except threading.BrokenBarrierError:
                        notes.add("start-broken")
                if case["delay"][t]:
                    time.sleep(case["delay"][t] / 1000.0)
                for _ in range(case["gets"][t]):
                    try:
                        o = f.get_object()
                    except _Boom:
                        with lock:
                            trace.append(["exc", t, "_Boom"])
                    except Exception as e:  # classified: not a behaviour of the unchanged code
                        with lock:
                            trace.append(["exc", t, type(e).__name__])
                    else:
                        with lock:
                            trace.append(["ret", t, oid(o)])
            finally:
                if sched is not None:
                    sched.leave(t)

        ths = [threading.Thread(target=worker, args=(t,), daemon=True) for t in range(k)]
        for th in ths:
            th.start()
        _join_all(ths, 30.0, "C15.factory")
        objs = getattr(f, "_objects", None)
        snapshot = [oid(x) for x in objs] if isinstance(objs, list) else None
        for _ in range(case["teardowns"]):
            with lock:
                trace.append(["tdbegin", k])
            try:
                f.teardown_factory()
            except _TdBoom as e:       # teardown_factory re-raised the exception of teardown_object(e.oid)
                with lock:
                    trace.append(["tdend", k, e.oid])
            except Exception as e:
                with lock:
                    trace.append(["tdend", k, "?" + type(e).__name__])
            else:
                with lock:
                    trace.append(["tdend", k, None])
        if sched is not None and sched.broken:
            notes.add("sched-broken")
        return {"trace": trace, "objects": snapshot, "notes": sorted(notes),
                "sched": None if sched is None else {"points": sched.points, "switches": sched.switches}}

    # ---- the property, on observations only -------------------------------------------------------
    def oracle(self, case, obs):
        fails = []
        creator, created_by, rets = {}, {}, {}
        td = {}
        raised_td = False
        for ev in obs["trace"]:
            kind, t = ev[0], ev[1]
            if kind == "create":
                creator[ev[2]] = t
                created_by.setdefault(t, []).append(ev[2])
            elif kind == "ret":
                rets.setdefault(t, []).append(ev[2])
            elif kind == "td":
                td[ev[2]] = td.get(ev[2], 0) + 1
                raised_td = raised_td or not ev[3]
        for t, os_ in sorted(created_by.items()):
            if len(os_) > 1:
                fails.append(C.Failure("C15/factory/created-more-than-once-per-thread",
                                       f"thread {t} created {len(os_)} objects {os_} on one factory"))
        for t, os_ in sorted(rets.items()):
            for o in os_:
                if creator.get(o) != t:
                    fails.append(C.Failure("C15/factory/object-handed-to-foreign-thread",
                                           f"get_object on thread {t} returned object {o} created by thread {creator.get(o)}"))
                    break
            if len(set(map(str, os_))) > 1:
                fails.append(C.Failure("C15/factory/not-reused-on-same-thread",
                                       f"thread {t} received different objects from successive get_object calls: {os_}"))
        if case["teardowns"] == 1:
            never = [o for o in sorted(creator) if td.get(o, 0) == 0]
            many = [o for o in sorted(creator) if td.get(o, 0) > 1]
            unknown = [o for o in td if o not in creator]
            if never and raised_td:
                fails.append(C.Failure(SIG_D31, f"a teardown_object call raised and objects {never} were never torn down "
                                                f"(created: {sorted(creator)}) — the behaviour before /repo 8e1157b"))
            elif never:
                fails.append(C.Failure("C15/factory/instance-never-torn-down",
                                       f"objects {never} were created but never torn down by teardown_factory"))
            if many:
                fails.append(C.Failure("C15/factory/instance-torn-down-more-than-once",
                                       f"objects {many} were torn down more than once by one teardown_factory call"))
            if unknown:
                fails.append(C.Failure("C15/factory/teardown-of-unknown-object", f"teardown_object called on {unknown}"))
        return fails

    # ---- the model ----------------------------------------------------------------------------------
    def request(self, case, obs):
        tr = [ev for ev in obs["trace"] if ev[0] != "exc"]
        nobj = sum(1 for ev in tr if ev[0] == "create")
        snap = obs["objects"]
        if snap is not None and not all(isinstance(o, int) for o in snap):
            snap = None
        return {"threads": case["threads"] + 1, "nobj": nobj, "objects": snap, "implicit_td": False, "trace": tr}

    def compare(self, case, obs, ans):
        return _compare_factory(obs["trace"], obs["objects"], case["threads"] + 1, ans, case["teardowns"])

    def _overlap(self, obs):
        """two threads inside the creation window (miss .. first ret) at the same time"""
        open_, first_ret = {}, set()
        for ev in obs["trace"]:
            if ev[0] == "miss" and ev[1] not in first_ret:
                open_[ev[1]] = True
                if sum(1 for v in open_.values() if v) >= 2:
                    return True
            elif ev[0] == "ret" and ev[1] not in first_ret:
                first_ret.add(ev[1])
                open_[ev[1]] = False
        return False

    def nontrivial(self, case, obs):
        creators = {ev[1] for ev in obs["trace"] if ev[0] == "create"}
        nret = sum(1 for ev in obs["trace"] if ev[0] == "ret")
        return len(creators) >= 2 and nret >= 2 and self._overlap(obs)

    def features(self, case, obs):
        f = ["threads=%d" % case["threads"], "mode=" + case["mode"], "teardowns=%d" % case["teardowns"]]
        if any(case["raise_at"]):
            f.append("raising-setup")
        if any(ev[0] == "raise" for ev in obs["trace"]):
            f.append("setup-raised-then-retried" if any(
                e2[0] == "create" and e2[1] == ev[1] for ev in obs["trace"] if ev[0] == "raise" for e2 in obs["trace"])
                else "setup-raised")
        if case["td_raise_calls"]:
            f.append("raising-teardown")
        tds = [ev for ev in obs["trace"] if ev[0] in ("td", "tdbegin", "tdend")]
        for a, b in zip(tds, tds[1:]):
            if a[0] == "td" and not a[3] and b[0] == "td":
                f.append("teardown-continued-after-a-raising-one")
        if any(ev[0] == "tdend" and ev[2] is not None for ev in tds):
            f.append("teardown_factory-reraised")
        if sum(1 for ev in tds if ev[0] == "td" and not ev[3]) >= 2:
            f.append("several-raising-teardowns")
        if self._overlap(obs):
            f.append("first-access-overlap")
        objs = obs["objects"]
        if objs is not None and all(isinstance(o, int) for o in objs) and objs != sorted(objs):
            f.append("append-order-differs-from-creation-order")
        if max(case["gets"]) >= 2:
            f.append("repeated-get")
        f += ["note:" + n for n in obs["notes"]]
        return sorted(set(f))

    def shrink(self, case):
        k = case["threads"]
        if case["td_raise_calls"]:
            c = dict(case)
            c["td_raise_calls"] = []
            yield c
        if k > 1:
            for drop in range(k):
                c = dict(case)
                c["threads"] = k - 1
                for key in ("gets", "raise_at", "setup", "delay"):
                    c[key] = case[key][:drop] + case[key][drop + 1:]
                c["td_raise_calls"] = [x for x in case["td_raise_calls"] if x == "last" or x < k - 1]
                yield c
        for t in range(k):
            if case["gets"][t] > 1:
                c = dict(case)
                c["gets"] = case["gets"][:t] + [case["gets"][t] - 1] + case["gets"][t + 1:]
                yield c
            if case["raise_at"][t]:
                c = dict(case)
                c["raise_at"] = case["raise_at"][:t] + [[]] + case["raise_at"][t + 1:]
                yield c
        if case["mode"] != "barrier":
            c = dict(case)
            c["mode"] = "barrier"
            yield c


def _compare_factory(trace, snapshot, nthreads, ans, teardowns, label=""):
    """model answer vs observation of one factory instance"""
    if "error" in ans:
        return f"{label}model error: {ans['error']}"
    tr = [ev for ev in trace if ev[0] != "exc"]
    if ans.get("reject") is not None:
        i = ans["accepted"]
        return f"{label}the model rejects observed step {i} {tr[i] if i < len(tr) else None}: {ans['reject']}"
    nobj = sum(1 for ev in tr if ev[0] == "create")
    td = [0] * nobj
    rets, creations = [], [0] * nthreads
    for ev in tr:
        if ev[0] == "td" and isinstance(ev[2], int) and ev[2] < nobj:
            td[ev[2]] += 1
        elif ev[0] == "ret":
            rets.append([ev[1], ev[2]])
        elif ev[0] == "create":
            creations[ev[1]] += 1
    if ans["td_count"] != td:
        return f"{label}teardown counts: model {ans['td_count']} vs observed {td}"
    if snapshot is not None and ans["objects"] != snapshot:
        return f"{label}_objects: model {ans['objects']} vs observed {snapshot}"
    if ans["returned"] != rets:
        return f"{label}returned objects: model {ans['returned']} vs observed {rets}"
    if ans["creations"] != creations:
        return f"{label}creations per thread: model {ans['creations']} vs observed {creations}"
    if not ans["quiescent"]:
        return f"{label}the model is still inside get_object/teardown_factory at the end of the trace"
    if teardowns is not None:
        outcomes = [ev[2] for ev in tr if ev[0] == "tdend"]
        ends = sum(1 for o in outcomes if o is None)
        obj_raises = sum(1 for ev in tr if ev[0] == "td" and not ev[3])
        got = (ans["td_begins"], ans["td_ends"], ans["td_raises"], ans["td_obj_raises"])
        exp = (teardowns, ends, len(outcomes) - ends, obj_raises)
        if got != exp:
            return (f"{label}teardown_factory runs: model begins/returned/re-raised/raising-teardown_object-calls {got} "
                    f"vs observed {exp}")
        if ans["td_outcomes"] != outcomes:
            return f"{label}teardown_factory outcomes (None = returned, o = re-raised exception of object o): model " \
                   f"{ans['td_outcomes']} vs observed {outcomes}"
    return None


# =================================================================================================
# Stream 2: real runs with per-thread fixtures
# =================================================================================================

FIXTURES = {          # name -> (scope, generator?)
    "ps_plain": ("session", False),
    "ps_gen": ("session", True),
    "pu_plain": ("suite", False),
    "pu_gen": ("suite", True),
}


def _mkfunc(name, argnames, impl):
    """a function called `name` whose parameters are exactly `argnames` (lemoncheesecake resolves fixtures by name)"""
    ns = {"_impl": impl}
    args = ", ".join(argnames)
    kw = ", ".join("%s=%s" % (a, a) for a in argnames)
    exec("def %s(%s):\n    return _impl(%s)\n" % (name, args, kw), ns)
    return ns[name]


class Run(C.Stream):
    name = "C15.run"
    quick_cases = 450
    thorough_cases = 7000
    quick_seconds = 28
    thorough_seconds = 420
    chunk = 40
    corpus = [
        # D31 witness at run level (fixed by 8e1157b, must PASS): session-scoped per-thread generator fixture, 2 workers,
        # the teardown code of the instance torn down first raises; before the fix the other instance was never torn down
        {"nb_threads": 2, "mode": "chained", "fixtures": ["ps_gen"], "td_raise": {"fixture": "ps_gen", "calls": [0]}, "raise_setup": None,
         "suites": [{"nested": False, "phases": [[{"uses": [["ps_gen", False]]}, {"uses": [["ps_gen", False]]}]]}]},
        # the same for a suite-scoped one, consumed through a test-scoped fixture
        {"nb_threads": 3, "mode": "chained", "fixtures": ["pu_gen"], "td_raise": {"fixture": "pu_gen", "calls": [0]}, "raise_setup": None,
         "suites": [{"nested": False, "phases": [[{"uses": [["pu_gen", True]]}] * 3]}]},
        # D3 path (repaired in /repo by f2606d5): a per-thread fixture whose function raises on the first attempt of every
        # thread, used directly by the tests -> the test fails (error log, TestEnd), the run returns False; nothing is
        # created by a raising call, later tests on the thread retry
        {"nb_threads": 2, "mode": "chained", "fixtures": ["ps_gen"], "td_raise": None,
         "raise_setup": {"fixture": "ps_gen", "attempts": [0]},
         "suites": [{"nested": False, "phases": [[{"uses": [["ps_gen", False]]}] * 2, [{"uses": [["ps_gen", False]]}] * 2]}]},
        # raising per-thread fixture behind a test-scoped fixture (guarded path): retry by a later test on that thread
        {"nb_threads": 2, "mode": "chained", "fixtures": ["pu_plain"], "td_raise": None,
         "raise_setup": {"fixture": "pu_plain", "attempts": [0]},
         "suites": [{"nested": False, "phases": [[{"uses": [["pu_plain", True]]}] * 2, [{"uses": [["pu_plain", True]]}] * 2,
                                                  [{"uses": [["pu_plain", True]]}]]}]},
        # the existing unit test's shape: 20 tests, 4 threads (no pinning beyond the first phase)
        {"nb_threads": 4, "mode": "chained", "fixtures": ["ps_plain"], "td_raise": None, "raise_setup": None,
         "suites": [{"nested": False, "phases": [[{"uses": [["ps_plain", False]]}] * 4] * 5}]},
        # all four fixtures, two suites + a nested one, reuse across phases
        {"nb_threads": 3, "mode": "chained", "fixtures": ["ps_plain", "ps_gen", "pu_plain", "pu_gen"], "td_raise": None,
         "raise_setup": None,
         "suites": [
             {"nested": False, "phases": [[{"uses": [["ps_gen", False], ["pu_gen", True]]}] * 3,
                                          [{"uses": [["pu_gen", False], ["ps_plain", True]]}] * 2]},
             {"nested": True, "phases": [[{"uses": [["pu_gen", False], ["pu_plain", False]]}] * 2]},
             {"nested": False, "phases": [[{"uses": [["ps_gen", True], ["pu_plain", True]]}] * 3,
                                          [{"uses": [["pu_plain", False]]}]]},
         ]},
    ]

    def gen(self, rng, i):
        nb = rng.choice([1, 2, 2, 3, 3, 4, 4, 5, 6, 8])
        mode = "chained" if rng.random() < 0.75 else "free"
        nfx = rng.choice([1, 1, 2, 2, 3, 4])
        fixtures = sorted(rng.sample(sorted(FIXTURES), nfx))
        nsuites = rng.choice([1, 1, 2, 2, 3])
        suites = []
        for si in range(nsuites):
            nph = rng.choice([1, 2, 2, 3])
            phases = []
            for _ in range(nph):
                size = rng.randint(1, nb) if rng.random() < 0.5 else nb
                size = min(size, 6)
                tests = []
                for _ in range(size):
                    n_use = rng.choice([1, 1, 2]) if len(fixtures) > 1 else 1
                    uses = [[fx, rng.random() < 0.35] for fx in sorted(rng.sample(fixtures, min(n_use, len(fixtures))))]
                    tests.append({"uses": uses})
                phases.append(tests)
            suites.append({"nested": si > 0 and rng.random() < 0.3 and not suites[si - 1]["nested"], "phases": phases})
        gens = [fx for fx in fixtures if FIXTURES[fx][1]]
        td_raise = None
        if gens and rng.random() < 0.3:
            # the teardown code of the k-th torn-down instance(s) of every scope instance of this fixture raises
            td_raise = {"fixture": rng.choice(gens), "calls": sorted(rng.sample(range(min(nb, 4)), rng.randint(1, min(2, nb))))}
        raise_setup = None
        if rng.random() < 0.12:
            # the first attempt(s) of every thread raise; later tests on the thread retry (D3 path, repaired by f2606d5)
            raise_setup = {"fixture": rng.choice(fixtures), "attempts": [0] if rng.random() < 0.8 else [0, 1]}
        return {"nb_threads": nb, "mode": mode, "fixtures": fixtures, "td_raise": td_raise, "raise_setup": raise_setup,
                "suites": suites}

    # ---- the real code ---------------------------------------------------------------------------
    def impl(self, case):
        import lemoncheesecake.api as lcc
        from lemoncheesecake import runner
        from lemoncheesecake.events import AsyncEventManager
        from lemoncheesecake.fixture import FixtureRegistry, load_fixtures_from_func
        from lemoncheesecake.session import Session
        from lemoncheesecake.suite import resolve_tests_dependencies
        from lemoncheesecake.suite.core import Suite, Test

        nb = case["nb_threads"]
        lock = threading.Lock()
        trace = []
        tids = {}
        cur = threading.local()
        st = {"n": 0, "td": {}, "attempts": {}}
        notes = set()
        chained = case["mode"] == "chained"

        def tid():
            i = threading.get_ident()
            if i not in tids:
                tids[i] = len(tids)
            return tids[i]

        def rec(*ev):
            with lock:
                trace.append(list(ev[:1]) + [tid()] + list(ev[1:]))

        class Inst:
            def __init__(self, n, key):
                self.n, self.key = n, key

        def ident(x):
            return x.n if isinstance(x, Inst) else "?" + type(x).__name__

        def key_of(fx):
            scope = FIXTURES[fx][0]
            return fx + "@" + ("session" if scope == "session" else getattr(cur, "suite", "?"))

        rs = case.get("raise_setup")

        def create(fx):
            key = key_of(fx)
            with lock:
                t = tid()
                trace.append(["miss", t, key])
                a = st["attempts"].get((fx, t), 0)
                st["attempts"][(fx, t)] = a + 1
            if rs and rs["fixture"] == fx and a in rs["attempts"]:
                rec("raise", key)
                raise _Boom("generated setup failure")
            with lock:
                n = st["n"]
                st["n"] += 1
                trace.append(["create", tid(), key, n])
            return Inst(n, key)

        def teardown(inst):
            fx = inst.key.split("@")[0]
            with lock:
                k = st["td"].get(inst.key, 0)
                st["td"][inst.key] = k + 1
                tdr = case.get("td_raise")
                ok = not (tdr and tdr["fixture"] == fx and k in tdr["calls"])
                trace.append(["td", tid(), inst.key, inst.n, ok])
            if not ok:
                raise _TdBoom(inst.n)

        fixture_funcs = []
        for fx in case["fixtures"]:
            scope, is_gen = FIXTURES[fx]
            if is_gen:
                def fn(fx=fx):
                    inst = create(fx)
                    yield inst
                    teardown(inst)
            else:
                def fn(fx=fx):
                    return create(fx)
            f = _mkfunc(fx, [], fn)
            fixture_funcs.append(lcc.fixture(scope=scope, per_thread=True)(f))

            def via(fx=fx, **kw):
                v = kw[fx]
                rec("use", key_of(fx), ident(v), getattr(cur, "test", "?"), "via", True)
                return v
            fixture_funcs.append(lcc.fixture(scope="test")(_mkfunc("via_" + fx, [fx], via)))

        # ---- suites ------------------------------------------------------------------------------
        barriers = {}

        def setup_test(test):
            cur.suite = test.parent_suite.name
            cur.test = test.path
            rec("test_start", test.path)
            b = barriers.get(test.name)
            if b is not None:
                try:
                    b.wait()
                except threading.BrokenBarrierError:
                    notes.add("barrier-broken")

        top, prev_top, prev_last = [], None, None
        for si, sdesc in enumerate(case["suites"]):
            suite = Suite(None, "s%d" % si, "suite %d" % si)
            suite.add_hook("setup_test", setup_test)
            tests = []
            for pi, phase in enumerate(sdesc["phases"]):
                size = min(len(phase), nb)
                bar = threading.Barrier(size, timeout=(6.0 if chained else 0.25)) if size >= 2 else None
                for ti, tdesc in enumerate(phase):
                    args = [("via_" + fx if via else fx) for fx, via in tdesc["uses"]]

                    def body(uses=tdesc["uses"], **kw):
                        for fx, via in uses:
                            v = kw["via_" + fx if via else fx]
                            rec("use", key_of(fx), ident(v), cur.test, "body", not via)
                        rec("test_end", cur.test)
                    name = "t%d_%d_%d" % (si, pi, ti)
                    test = Test(name, name, _mkfunc(name, args, body))
                    if chained and prev_last is not None:
                        test.dependencies.append(prev_last)
                    suite.add_test(test)
                    tests.append(test)
                    if bar is not None and ti < size:
                        barriers[name] = bar        # test names are unique over the whole project
            if sdesc["nested"] and prev_top is not None:
                prev_top.add_suite(suite)
            else:
                top.append(suite)
                prev_top = suite
            if tests:
                prev_last = tests[-1].path

        # ---- event seam: global order of SuiteEnd / TestSessionEnd relative to the user-code trace ---------
        class RecEM(AsyncEventManager):
            def fire(self, event):
                name = type(event).__name__
                if name == "SuiteEndEvent":
                    rec("suite_end", event.suite.name)
                elif name == "TestSessionEndEvent":
                    rec("session_end")
                return AsyncEventManager.fire(self, event)

        registry = FixtureRegistry()
        for f in fixture_funcs:
            registry.add_fixtures(load_fixtures_from_func(f))
        resolve_tests_dependencies(top, top)
        report_dir = tempfile.mkdtemp(prefix="lccverif-c15-")
        out = {}

        def go():
            try:
                session = Session.create(RecEM.load(), [], report_dir, None, nb_threads=nb)
                out["result"] = "returned:%s" % runner.run_suites(top, registry, session, nb_threads=nb)
            except BaseException as e:  # classified
                out["result"] = "raised:" + type(e).__name__
                out["message"] = str(e)[-300:]

        th = threading.Thread(target=go, daemon=True)
        try:
            th.start()
            th.join(60.0)
            if th.is_alive():
                raise C.InfraError("C15.run: run_suites still running after 60 s (hang)")
        finally:
            shutil.rmtree(report_dir, ignore_errors=True)
        return {"trace": trace, "result": out.get("result"), "notes": sorted(notes), "threads": len(tids)}

    # ---- the property, on observations only -------------------------------------------------------
    def oracle(self, case, obs):
        fails = []
        tr = obs["trace"]
        creator, inst_key, created = {}, {}, {}
        uses = {}          # (key, thread) -> [object]
        last_use, td_at, td_raise_at = {}, {}, {}
        scope_end = {}
        test_end = {ev[2]: i for i, ev in enumerate(tr) if ev[0] == "test_end"}
        for i, ev in enumerate(tr):
            kind, t = ev[0], ev[1]
            if kind == "create":
                key, o = ev[2], ev[3]
                creator[o], inst_key[o] = t, key
                created.setdefault((key, t), []).append(o)
            elif kind == "use":
                key, o = ev[2], ev[3]
                uses.setdefault((key, t), []).append(o)
                last_use[o] = max(last_use.get(o, 0), i, test_end.get(ev[4], 0))    # in use until the consuming test's body ends
                if creator.get(o) != t:
                    fails.append(C.Failure("C15/run/instance-handed-to-foreign-thread",
                                           f"{ev[4]} on thread {t} got instance {o} of {key} created on thread {creator.get(o)}"))
                elif inst_key.get(o) != key:
                    fails.append(C.Failure("C15/run/instance-of-another-scope-instance",
                                           f"{ev[4]} consumed {key} but got instance {o} created for {inst_key.get(o)}"))
            elif kind == "td":
                o = ev[3]
                td_at.setdefault(o, []).append(i)
                if not ev[4]:
                    td_raise_at[ev[2]] = i
            elif kind == "suite_end":
                scope_end[ev[2]] = i
            elif kind == "session_end":
                scope_end["session"] = i
        for (key, t), os_ in sorted(created.items()):
            if len(os_) > 1:
                fails.append(C.Failure("C15/run/created-more-than-once-per-thread",
                                       f"thread {t} created {len(os_)} instances {os_} of {key}"))
        for (key, t), os_ in sorted(uses.items()):
            if len(set(map(str, os_))) > 1:
                fails.append(C.Failure("C15/run/not-reused-on-same-thread",
                                       f"consumers of {key} on thread {t} saw different instances {os_}"))
        for o, key in sorted(inst_key.items()):
            fx, scope = key.split("@")
            if not FIXTURES[fx][1]:
                continue            # a plain fixture has no teardown code: nothing to observe
            n = len(td_at.get(o, []))
            if n == 0:
                if key in td_raise_at:
                    fails.append(C.Failure(SIG_D31, f"the teardown code of an instance of {key} raised and instance {o} "
                                                    f"(thread {creator[o]}) was never torn down — the behaviour before /repo 8e1157b"))
                else:
                    fails.append(C.Failure("C15/run/instance-never-torn-down", f"instance {o} of {key} was never torn down"))
                continue
            if n > 1:
                fails.append(C.Failure("C15/run/instance-torn-down-more-than-once", f"instance {o} of {key}: {n} teardowns"))
            if o in last_use and td_at[o][0] < last_use[o]:
                fails.append(C.Failure("C15/run/torn-down-before-last-use",
                                       f"instance {o} of {key} torn down at {td_at[o][0]}, last used at {last_use[o]}"))
            end = scope_end.get(scope)
            if end is not None and td_at[o][0] > end:
                fails.append(C.Failure("C15/run/torn-down-after-scope-end",
                                       f"instance {o} of {key} torn down at {td_at[o][0]}, after its scope ended at {end}"))
            # no end event (the run raised before TestSessionEnd): the upper bound cannot be observed; whether the run
            # stays well-formed is C01/C07's question, not C15's
        return fails

    # ---- the model: one factory instance per (fixture, scope instance) ----------------------------------
    def _project(self, obs):
        per = {}
        for ev in obs["trace"]:
            kind = ev[0]
            if kind in ("miss", "raise"):
                per.setdefault(ev[2], []).append([kind, ev[1]])
            elif kind == "create":
                per.setdefault(ev[2], []).append(["create", ev[1], ev[3]])
            elif kind == "use" and ev[6]:
                per.setdefault(ev[2], []).append(["ret", ev[1], ev[3]])
            elif kind == "td":
                per.setdefault(ev[2], []).append(["td", ev[1], ev[3], ev[4]])
        out = []
        for key in sorted(per):
            # The return of the creating `get` is observed by the consumer (test body / via fixture).  When ANOTHER
            # fixture of the same test fails afterwards the body never runs and that return is not observed: it is
            # inferred right after the creation (the instance exists, so `setup_object` returned normally).
            evs = per[key]
            fixed = []
            for j, ev in enumerate(evs):
                fixed.append(ev)
                if ev[0] == "create":
                    nxt = next((e for e in evs[j + 1:] if e[1] == ev[1]), None)
                    if not (nxt is not None and nxt[0] == "ret" and nxt[2] == ev[2]):
                        fixed.append(["ret", ev[1], ev[2]])
            per[key] = fixed
            tmap, omap, tr = {}, {}, []
            for ev in per[key]:
                t = tmap.setdefault(ev[1], len(tmap))
                if ev[0] == "create":
                    omap[ev[2]] = len(omap)
                if ev[0] in ("create", "ret", "td"):
                    tr.append([ev[0], t, omap.get(ev[2], ev[2])] + ev[3:])
                else:
                    tr.append([ev[0], t])
            # `_objects` itself is not observable in a real run: resolve the (internal) append order in favour of
            # the observed teardown order — torn-down instances first, in that order, then the others as created
            snap = []
            for ev in tr:
                if ev[0] == "td" and ev[2] not in snap:
                    snap.append(ev[2])
            snap += [o for o in range(len(omap)) if o not in snap]
            if not all(isinstance(o, int) for o in snap):
                snap = None
            out.append((key, tr, len(tmap), len(omap), snap))
        return out

    def request(self, case, obs):
        return {"multi": [{"threads": nt, "nobj": no, "objects": snap, "implicit_td": True, "trace": tr}
                          for _, tr, nt, no, snap in self._project(obs)]}

    def compare(self, case, obs, ans):
        if "error" in ans:
            return "model error: " + ans["error"]
        proj = self._project(obs)
        if len(ans["multi"]) != len(proj):
            return "model answered %d factories, %d observed" % (len(ans["multi"]), len(proj))
        for (key, tr, nt, no, _), a in zip(proj, ans["multi"]):
            d = _compare_factory(tr, None, nt, a, None, label=key + ": ")
            if d is not None:
                return d
        return None

    def _shape(self, obs):
        per_key = {}
        n_use = 0
        for ev in obs["trace"]:
            if ev[0] == "use":
                n_use += 1
                per_key.setdefault(ev[2], set()).add(ev[1])
        return n_use, max([len(v) for v in per_key.values()] or [0])

    def nontrivial(self, case, obs):
        n_use, width = self._shape(obs)
        return n_use >= 2 and width >= 2 and "barrier-broken" not in obs["notes"]

    def features(self, case, obs):
        n_use, width = self._shape(obs)
        f = ["nb_threads=%d" % case["nb_threads"], "mode=" + case["mode"], "suites=%d" % len(case["suites"]),
             "workers-sharing-a-fixture=%d" % width, "result=" + str(obs["result"])]
        for fx in case["fixtures"]:
            f.append("fixture:%s-%s" % (FIXTURES[fx][0], "generator" if FIXTURES[fx][1] else "plain"))
        if any(s["nested"] for s in case["suites"]):
            f.append("nested-suite")
        if any(via for s in case["suites"] for p in s["phases"] for t in p for _, via in t["uses"]):
            f.append("via-test-scoped-fixture")
        reuse = {}
        for ev in obs["trace"]:
            if ev[0] == "use":
                reuse[(ev[2], ev[1])] = reuse.get((ev[2], ev[1]), set()) | {ev[4]}
        if any(len(v) >= 2 for v in reuse.values()):
            f.append("reuse-by-later-test-on-same-thread")
        if case.get("raise_setup"):
            f.append("raising-setup")
        if case.get("td_raise"):
            f.append("raising-teardown")
            if sum(1 for ev in obs["trace"] if ev[0] == "td" and not ev[4]) >= 1 and any(
                    ev[0] == "td" and ev[4] for ev in obs["trace"]):
                f.append("teardown-continued-after-a-raising-one")
        f += ["note:" + n for n in obs["notes"]]
        return sorted(set(f))

    def shrink(self, case):
        for key in ("td_raise", "raise_setup"):
            if case.get(key):
                c = dict(case)
                c[key] = None
                yield c
        ss = case["suites"]
        if len(ss) > 1:
            for i in range(len(ss)):
                c = dict(case)
                c["suites"] = [dict(s) for s in ss[:i] + ss[i + 1:]]
                c["suites"][0]["nested"] = False
                yield c
        for i, s in enumerate(ss):
            if len(s["phases"]) > 1:
                for j in range(len(s["phases"])):
                    c = dict(case)
                    c["suites"] = [dict(x) for x in ss]
                    c["suites"][i]["phases"] = s["phases"][:j] + s["phases"][j + 1:]
                    yield c
            for j, p in enumerate(s["phases"]):
                if len(p) > 1:
                    c = dict(case)
                    c["suites"] = [dict(x) for x in ss]
                    c["suites"][i]["phases"] = s["phases"][:j] + [p[:-1]] + s["phases"][j + 1:]
                    yield c
        if case["nb_threads"] > 2:
            c = dict(case)
            c["nb_threads"] = case["nb_threads"] - 1
            yield c


def streams(ctx):
    return [Factory(), Run()]
